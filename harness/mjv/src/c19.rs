//! C19 — a failing output sink stops the render with the sink's own error.
//! Fault enumeration: for every program, every failure position k of the sink (k-th write call) x
//! {BrokenPipe, Other, WouldBlock}, short writes and zero-length writes.
use crate::core::*;
use crate::gen;
use minijinja::value::Value;
use minijinja::{Environment, ErrorKind};
use serde_json::json;
use std::io;
use std::sync::{Arc, Mutex};

#[derive(Clone, Copy, Debug, PartialEq)]
enum Fault {
    None,
    Fail(usize, io::ErrorKind), // 1-based write call that fails
    Short(usize),               // accept at most n bytes per call
    ZeroAt(usize),              // k-th call returns Ok(0)
}

#[derive(Default)]
struct SinkLog {
    bytes: Vec<u8>,
    writes: Vec<Vec<u8>>,
    calls: usize,
    calls_after_failure: usize,
    failed: bool,
    flushes: usize,
}

struct Sink {
    log: Arc<Mutex<SinkLog>>,
    fault: Fault,
}

const MARK: &str = "injected-sink-failure";

impl io::Write for Sink {
    fn write(&mut self, buf: &[u8]) -> io::Result<usize> {
        let mut l = self.log.lock().unwrap();
        l.calls += 1;
        if l.failed {
            l.calls_after_failure += 1;
        }
        match self.fault {
            Fault::Fail(k, kind) if l.calls == k => {
                l.failed = true;
                return Err(io::Error::new(kind, MARK));
            }
            Fault::ZeroAt(k) if l.calls == k => {
                l.failed = true;
                return Ok(0);
            }
            Fault::Short(n) => {
                let take = buf.len().min(n);
                l.bytes.extend_from_slice(&buf[..take]);
                l.writes.push(buf[..take].to_vec());
                return Ok(take);
            }
            _ => {}
        }
        l.bytes.extend_from_slice(buf);
        l.writes.push(buf.to_vec());
        Ok(buf.len())
    }
    fn flush(&mut self) -> io::Result<()> {
        self.log.lock().unwrap().flushes += 1;
        Ok(())
    }
}

struct Subject {
    name: String,
    templates: Vec<(String, String)>,
    main: String,
    block: Option<&'static str>,
}

fn env_for(s: &Subject) -> Option<Environment<'static>> {
    let mut env = Environment::new();
    env.add_function("probe", || Value::from(""));
    for (n, src) in &s.templates {
        // names ending in .html switch auto-escaping on: a different write path
        env.add_template_owned(n.clone(), src.clone()).ok()?;
    }
    Some(env)
}

type RunResult = Result<(), (ErrorKind, Option<(io::ErrorKind, String)>)>;

fn run(env: &Environment, s: &Subject, ctx: &Value, fault: Fault) -> Result<(RunResult, SinkLog), String> {
    let log: Arc<Mutex<SinkLog>> = Default::default();
    let log2 = log.clone();
    let r = catch(move || {
        let t = env.get_template(&s.main).unwrap();
        let sink = Sink { log: log2, fault };
        let res = match s.block {
            None => t.render_captured_to(ctx.clone(), sink).map(|_| ()),
            Some(b) => {
                let mut st = t.new_state();
                st.render_block_to_write(b, sink)
            }
        };
        res.map_err(|e| {
            let src = std::error::Error::source(&e).and_then(|x| x.downcast_ref::<io::Error>()).map(|io| (io.kind(), io.to_string()));
            (e.kind(), src)
        })
    });
    let l = std::mem::take(&mut *log.lock().unwrap());
    r.map(|res| (res, l))
}

fn check_subject(s: &Subject, ctx: &Value, ci: usize, acc: &Acc, l: &mut Local) {
    let fam = s.name.split(':').nth(1).unwrap_or("single").to_string();
    let mk = |clause: &str, detail: String, fault: Fault| Failure {
        key: format!("sink {} family={}", clause, fam),
        case: format!("{} ctx#{} fault={:?}", s.name, ci, fault),
        detail,
        replay: json!({"templates": s.templates, "main": s.main, "block": s.block, "ctx": ci}),
    };
    let Some(env) = env_for(s) else { return };
    // reference: plain render and a healthy sink
    let plain = catch(|| match s.block {
        None => env.get_template(&s.main).unwrap().render(ctx.clone()).map_err(|e| e.kind()),
        Some(b) => env.get_template(&s.main).unwrap().new_state().render_block(b).map_err(|e| e.kind()),
    });
    let plain = match plain {
        Ok(p) => p,
        Err(_) => {
            l.outcome("plain render panics (C01)");
            return;
        }
    };
    l.evals += 1;
    let (res0, log0) = match run(&env, s, ctx, Fault::None) {
        Ok(x) => x,
        Err(p) => {
            acc.fail(mk("panic", format!("healthy sink: {} at {}", p, last_panic_loc()), Fault::None));
            return;
        }
    };
    l.evals += 1;
    match (&plain, &res0) {
        (Ok(text), Ok(())) => {
            if log0.bytes != text.as_bytes() {
                acc.fail(mk("healthy_sink_differs", format!("plain render {:?} but sink received {:?}", text, String::from_utf8_lossy(&log0.bytes)), Fault::None));
                return;
            }
        }
        (Err(k), Err((k2, _))) if k == k2 => {}
        other => {
            acc.fail(mk("healthy_sink_status_differs", format!("{:?}", other), Fault::None));
            return;
        }
    }
    let n = log0.writes.len();
    l.outcome(if plain.is_ok() { "ok program" } else { "failing program" });
    if n > 0 {
        l.nontrivial.insert(fnv(format!("{}|{}", s.name, ci).as_bytes()));
    }
    // every failure position x kind
    for k in 1..=n {
        for kind in [io::ErrorKind::BrokenPipe, io::ErrorKind::Other, io::ErrorKind::WouldBlock] {
            let fault = Fault::Fail(k, kind);
            l.evals += 1;
            let (res, log) = match run(&env, s, ctx, fault) {
                Ok(x) => x,
                Err(p) => {
                    acc.fail(mk("panic", format!("{} at {}", p, last_panic_loc()), fault));
                    continue;
                }
            };
            let expected: Vec<u8> = log0.writes[..k - 1].concat();
            if log.bytes != expected {
                acc.fail(mk("bytes_not_exact_prefix", format!("sink received {:?}, expected the first {} writes {:?}", String::from_utf8_lossy(&log.bytes), k - 1, String::from_utf8_lossy(&expected)), fault));
            }
            if log.calls_after_failure > 0 || log.calls != k {
                acc.fail(mk("write_after_failure", format!("{} write calls, {} after the failing one", log.calls, log.calls_after_failure), fault));
            }
            match res {
                Ok(()) => acc.fail(mk("failure_swallowed", "render returned Ok although the sink failed".into(), fault)),
                Err((ek, src)) => {
                    if ek != ErrorKind::WriteFailure {
                        acc.fail(mk("wrong_error_kind", format!("returned {:?} (source {:?})", ek, src), fault));
                    } else {
                        match src {
                            Some((k2, msg)) if k2 == kind && msg.contains(MARK) => {}
                            other => acc.fail(mk("source_not_sink_error", format!("source is {:?}", other), fault)),
                        }
                    }
                }
            }
        }
        // zero-length write at k
        let fault = Fault::ZeroAt(k);
        l.evals += 1;
        match run(&env, s, ctx, fault) {
            Err(p) => acc.fail(mk("panic", format!("{} at {}", p, last_panic_loc()), fault)),
            Ok((res, log)) => {
                // an empty buffer legitimately yields Ok(0); only non-empty writes make it an error
                let wrote_empty = log0.writes[k - 1].is_empty();
                match res {
                    Err((ErrorKind::WriteFailure, Some((io::ErrorKind::WriteZero, _)))) => {
                        if log.bytes != log0.writes[..k - 1].concat() {
                            acc.fail(mk("bytes_not_exact_prefix", "after zero-length write".into(), fault));
                        }
                    }
                    Ok(()) if wrote_empty => {}
                    other => acc.fail(mk("zero_write_not_reported", format!("{:?}", other), fault)),
                }
            }
        }
    }
    // short writes deliver exactly the same bytes
    for m in [1usize, 2, 3] {
        let fault = Fault::Short(m);
        l.evals += 1;
        match run(&env, s, ctx, fault) {
            Err(p) => acc.fail(mk("panic", format!("{} at {}", p, last_panic_loc()), fault)),
            Ok((res, log)) => {
                if log.bytes != log0.bytes || res.is_ok() != res0.is_ok() {
                    acc.fail(mk("short_writes_change_output", format!("received {:?}", String::from_utf8_lossy(&log.bytes)), fault));
                }
            }
        }
    }
    acc.count("fault_points", (n * 4) as u64);
}

pub fn main(args: Args) -> i32 {
    let start_t = std::time::Instant::now();
    install_quiet_panic_hook();
    let ctxs = gen::contexts();
    let acc = Acc::new();
    if let Some(p) = &args.replay {
        let doc = load_replay(p);
        let j = &doc["replay"];
        let s = Subject {
            name: "replay:replay".into(),
            templates: j["templates"].as_array().unwrap().iter().map(|t| (t[0].as_str().unwrap().to_string(), t[1].as_str().unwrap().to_string())).collect(),
            main: j["main"].as_str().unwrap().to_string(),
            block: j["block"].as_str().map(|b| if b == "b" { "b" } else { "c" }),
        };
        let ci = j["ctx"].as_u64().unwrap() as usize;
        let mut l = Local::default();
        check_subject(&s, &ctxs[ci], ci, &acc, &mut l);
        let fs = acc.take_failures();
        return if fs.is_empty() {
            println!("replay: case passes");
            0
        } else {
            for f in &fs {
                println!("VIOLATION property=C19 replay={}  # {} :: {} [{}]", p, f.key, f.detail, f.case);
            }
            1
        };
    }
    let mut subjects: Vec<Subject> = vec![];
    let g1 = gen::Gen::new(gen::Opts { depth: 1, max_programs: u64::MAX, multi_template: false, loop_controls: true, extra_leaves: false });
    for n in 0..g1.size() {
        let src = g1.program(n).source();
        // integer / small-string / safe-string fast paths and escaping are part of the write sites
        subjects.push(Subject { name: format!("d1#{}:single", n), templates: vec![("main".into(), format!("{}{{{{ 12345 }}}}{{{{ 'ab' }}}}", src))], main: "main".into(), block: None });
        if n % 2 == 0 {
            subjects.push(Subject { name: format!("d1#{}:html", n), templates: vec![("main.html".into(), format!("{}{{{{ '<&>' }}}}{{{{ '<b>'|safe }}}}{{{{ 7 }}}}", src))], main: "main.html".into(), block: None });
        }
        if n % 3 == 0 {
            subjects.push(Subject { name: format!("d1#{}:failing", n), templates: vec![("main".into(), format!("{}{{{{ x // 0 }}}}tail", src))], main: "main".into(), block: None });
        }
    }
    // emit zoo: every kind of value written straight to the sink (signs, padding and container
    // displays go through different formatter entry points than plain strings)
    let zoo = [
        "-12345", "-1.5", "1e100", "-0.0", "170141183460469231731687303715884105727", "-9223372036854775808", "x - 9", "-x", "true", "none", "[1, -2, 'a', [-3.5]]", "{'k': -1, 'j': [-2]}", "(1, -2)",
        "'\u{e9}\u{2603}'", "'%5d'|format(-42)", "'%-8s|'|format('ab')", "'%05.1f'|format(-2.5)", "-7|string", "range(-2, 1)|list", "namespace(a=-1)", "-5|tojson", "[-1, {'a': -2.5}]|tojson", "[-1]|tojson(indent=2)",
        "'a\nb'|indent(2)", "-2 ** 3", "xs|map('string')|join('-')", "(-1, 'x')|list", "m", "-1|float", "'<-1>'|e", "['<', -1]", "1 - 2 ~ '' ~ -3",
        // strings whose quoted form inside a container needs escapes between literal runs
        "['ab\\x01cd', 'x']", "{'k\\x02z': 'v\\x7fw'}", "['a\\nb\\tc', \"q'q\", 'r\"r', 'back\\\\slash']", "('\u{e9}\\u0085x', ['\\x1b[0m'])", "'ab\\x01cd'", "['ab\\x01cd']|string", "['ab\\x01cd']|pprint",
    ];
    for (zi, e) in zoo.iter().enumerate() {
        for (ext, label) in [("", "zoo"), (".html", "zoo_html"), (".json", "zoo_json")] {
            subjects.push(Subject { name: format!("zoo#{}:{}", zi, label), templates: vec![(format!("main{}", ext), format!("a{{{{ {} }}}}b{{% for i in [-1, 2] %}}{{{{ i }}}}{{% endfor %}}", e))], main: format!("main{}", ext), block: None });
        }
    }
    let g2 = gen::Gen::new(gen::Opts { depth: 2, max_programs: u64::MAX, multi_template: false, loop_controls: true, extra_leaves: false });
    let stride2 = args.tier.pick(61u64, 1u64);
    let mut n = 0;
    while n < g2.size() {
        subjects.push(Subject { name: format!("d2#{}:single", n), templates: vec![("main".into(), g2.program(n).source())], main: "main".into(), block: None });
        n += stride2;
    }
    for m in gen::multi_corpus(args.tier.pick(3, 1)) {
        let templates: Vec<(String, String)> = m.templates.iter().map(|(a, b)| (a.to_string(), b.clone())).collect();
        if m.name.ends_with("extends_super") {
            subjects.push(Subject { name: format!("{}_block", m.name), templates: templates.clone(), main: m.main.to_string(), block: Some("b") });
        }
        subjects.push(Subject { name: m.name.clone(), templates, main: m.main.to_string(), block: None });
    }
    acc.count("programs", subjects.len() as u64);
    par_chunks(subjects.len() as u64, 8, &acc, |r, l| {
        for i in r {
            for (ci, ctx) in ctxs.iter().enumerate().skip(1).take(1) {
                check_subject(&subjects[i as usize], ctx, ci, &acc, l);
            }
        }
    });
    acc.sample(json!({"program": subjects[7].templates, "faults": "k-th write fails for every k x {BrokenPipe, Other, WouldBlock}; zero-length write at k; short writes 1/2/3 bytes"}));
    acc.sample(json!({"program": subjects[subjects.len() - 2].templates, "main": "main"}));
    finish(
        Finish {
            property: "C19",
            level: "fault_enumeration",
            tier: args.tier,
            seed: args.seed,
            rule: format!("programs: complete depth-1 space of G (with integer, small-string, escaped and safe-string emits appended; half of them again under an .html name; a third with a run-time error appended), every {}th depth-2 program, 5 multi-template families incl. rendering a single block through State::render_block_to_write, and 39 emit forms (negative and huge integers, floats, booleans, none, nested list / map / tuple displays, multi-byte text, printf-style padding, tojson with and without indent, namespace, joined maps, escaped text, strings with control characters, quotes and backslashes inside containers) under plain, .html and .json names; context #1. For each program: healthy sink (bytes == plain render) gives the write-call list W1..WN; then EVERY k in 1..=N x 3 error kinds: bytes received == W1..W(k-1), no write call after the failing one, Err of kind WriteFailure whose source() is the injected io::Error (kind and marker text); a zero-length write at every k must yield WriteFailure/WriteZero; short-write sinks (1,2,3 bytes per call) must deliver identical bytes. distinct non-trivial = programs with at least one write", stride2),
            exhaustive: true,
            bound: json!({"error_kinds": ["BrokenPipe", "Other", "WouldBlock"], "short_write_sizes": [1, 2, 3]}),
            assumptions: vec!["io::ErrorKind::Interrupted is not injected (write_all retries it by contract)".into()],
            extra: Default::default(),
            start: start_t,
        },
        &acc,
    )
}
