//! Shared plumbing: tiers, parallel exhaustive maps, failure records, known-finding
//! matching, replay files and the evidence writer.
use serde_json::{json, Map, Value as J};
use std::collections::{BTreeMap, BTreeSet};
use std::sync::atomic::{AtomicU64, Ordering};
use std::sync::Mutex;
use std::time::Instant;

pub const VERIF_DIR: &str = "/verif";

#[derive(Clone, Copy, PartialEq, Eq, Debug)]
pub enum Tier {
    Quick,
    Thorough,
}

impl Tier {
    pub fn name(self) -> &'static str {
        match self {
            Tier::Quick => "quick",
            Tier::Thorough => "thorough",
        }
    }
    pub fn pick<T>(self, q: T, t: T) -> T {
        match self {
            Tier::Quick => q,
            Tier::Thorough => t,
        }
    }
}

pub struct Args {
    pub tier: Tier,
    pub seed: u64,
    pub replay: Option<String>,
    pub rest: Vec<String>,
}

pub fn parse_args(args: &[String]) -> Args {
    let mut tier = match std::env::var("VERIF_TIER").ok().as_deref() {
        Some("thorough") => Tier::Thorough,
        _ => Tier::Quick,
    };
    let seed = std::env::var("VERIF_SEED")
        .ok()
        .and_then(|s| s.parse().ok())
        .unwrap_or(0u64);
    let mut replay = None;
    let mut rest = vec![];
    let mut i = 0;
    while i < args.len() {
        match args[i].as_str() {
            "--tier" => {
                i += 1;
                tier = match args.get(i).map(|s| s.as_str()) {
                    Some("thorough") => Tier::Thorough,
                    Some("quick") => Tier::Quick,
                    other => {
                        eprintln!("bad tier {:?}", other);
                        std::process::exit(2)
                    }
                };
            }
            "--replay" => {
                i += 1;
                replay = args.get(i).cloned();
            }
            other => rest.push(other.to_string()),
        }
        i += 1;
    }
    Args {
        tier,
        seed,
        replay,
        rest,
    }
}

/// One failing case.  `key` is the classification (oracle clause + input class),
/// `case` a stable name of the case inside the deterministic enumeration and
/// `replay` whatever the check's `replay` entry point needs to re-run exactly
/// this case through plain API calls.
#[derive(Clone, Debug)]
pub struct Failure {
    pub key: String,
    pub case: String,
    pub detail: String,
    pub replay: J,
}

/// Thread-safe accumulator shared by the workers of one check.
pub struct Acc {
    pub evaluations: AtomicU64,
    failures: Mutex<Vec<Failure>>,
    outcomes: Mutex<BTreeMap<String, u64>>,
    nontrivial: Mutex<BTreeSet<u64>>,
    samples: Mutex<Vec<J>>,
    counters: Mutex<BTreeMap<String, u64>>,
    notes: Mutex<Vec<String>>,
    /// for engines whose cases are distinct by rank and counted in child processes
    pub nontrivial_counted: AtomicU64,
}

pub fn fnv(s: &[u8]) -> u64 {
    let mut h: u64 = 0xcbf29ce484222325;
    for b in s {
        h ^= *b as u64;
        h = h.wrapping_mul(0x100000001b3);
    }
    h
}

impl Default for Acc {
    fn default() -> Self {
        Self::new()
    }
}

impl Acc {
    pub fn new() -> Acc {
        Acc {
            evaluations: AtomicU64::new(0),
            failures: Mutex::new(vec![]),
            outcomes: Mutex::new(BTreeMap::new()),
            nontrivial: Mutex::new(BTreeSet::new()),
            samples: Mutex::new(vec![]),
            counters: Mutex::new(BTreeMap::new()),
            notes: Mutex::new(vec![]),
            nontrivial_counted: AtomicU64::new(0),
        }
    }
    pub fn eval(&self, n: u64) {
        self.evaluations.fetch_add(n, Ordering::Relaxed);
    }
    pub fn fail(&self, f: Failure) {
        let mut v = self.failures.lock().unwrap();
        // keep memory bounded but count everything
        v.push(f);
    }
    pub fn take_failures(&self) -> Vec<Failure> {
        std::mem::take(&mut *self.failures.lock().unwrap())
    }
    pub fn n_failures(&self) -> usize {
        self.failures.lock().unwrap().len()
    }
    /// record an observed outcome class (to expose vacuous exploration)
    pub fn outcome(&self, o: &str) {
        *self.outcomes.lock().unwrap().entry(o.to_string()).or_insert(0) += 1;
    }
    pub fn outcomes_merge(&self, m: &BTreeMap<String, u64>) {
        let mut o = self.outcomes.lock().unwrap();
        for (k, v) in m {
            *o.entry(k.clone()).or_insert(0) += v;
        }
    }
    /// record a distinct, non-trivial case by the hash of its canonical form
    pub fn nontrivial(&self, h: u64) {
        self.nontrivial.lock().unwrap().insert(h);
    }
    pub fn nontrivial_merge(&self, s: &BTreeSet<u64>) {
        self.nontrivial.lock().unwrap().extend(s.iter().copied());
    }
    pub fn sample(&self, s: J) {
        let mut v = self.samples.lock().unwrap();
        if v.len() < 12 {
            v.push(s);
        }
    }
    pub fn count(&self, name: &str, n: u64) {
        *self.counters.lock().unwrap().entry(name.to_string()).or_insert(0) += n;
    }
    pub fn get_count(&self, name: &str) -> u64 {
        self.counters.lock().unwrap().get(name).copied().unwrap_or(0)
    }
    pub fn note(&self, s: String) {
        self.notes.lock().unwrap().push(s);
    }
}

/// Local (per worker) collector that is merged into Acc at the end of a shard.
#[derive(Default)]
pub struct Local {
    pub evals: u64,
    pub outcomes: BTreeMap<String, u64>,
    pub nontrivial: BTreeSet<u64>,
}

impl Local {
    pub fn outcome(&mut self, o: &str) {
        if let Some(c) = self.outcomes.get_mut(o) {
            *c += 1;
        } else {
            self.outcomes.insert(o.to_string(), 1);
        }
    }
    pub fn flush(&mut self, acc: &Acc) {
        acc.eval(self.evals);
        acc.outcomes_merge(&self.outcomes);
        acc.nontrivial_merge(&self.nontrivial);
        self.evals = 0;
        self.outcomes.clear();
        self.nontrivial.clear();
    }
}

pub fn n_workers() -> usize {
    std::env::var("VERIF_JOBS")
        .ok()
        .and_then(|s| s.parse().ok())
        .unwrap_or_else(|| {
            std::thread::available_parallelism()
                .map(|n| n.get())
                .unwrap_or(4)
        })
}

/// Exhaustive parallel loop over 0..n in chunks; `f(range, &mut Local)`.
/// Every index is visited exactly once (checked by the returned count).
pub fn par_chunks<F>(n: u64, chunk: u64, acc: &Acc, f: F)
where
    F: Fn(std::ops::Range<u64>, &mut Local) + Sync,
{
    let next = AtomicU64::new(0);
    let visited = AtomicU64::new(0);
    let workers = n_workers();
    std::thread::scope(|s| {
        for _ in 0..workers {
            s.spawn(|| {
                let mut local = Local::default();
                loop {
                    let start = next.fetch_add(chunk, Ordering::Relaxed);
                    if start >= n {
                        break;
                    }
                    let end = (start + chunk).min(n);
                    f(start..end, &mut local);
                    visited.fetch_add(end - start, Ordering::Relaxed);
                }
                local.flush(acc);
            });
        }
    });
    assert_eq!(visited.load(Ordering::Relaxed), n, "enumeration incomplete");
}

/// Parallel map over a slice of items, item by item.
pub fn par_items<T: Sync, F>(items: &[T], acc: &Acc, f: F)
where
    F: Fn(usize, &T, &mut Local) + Sync,
{
    par_chunks(items.len() as u64, 1, acc, |r, l| {
        for i in r {
            f(i as usize, &items[i as usize], l);
        }
    });
}

// ------------------------------------------------------------------------------------------
// known findings

#[derive(Debug, Clone)]
pub struct Known {
    pub property: String,
    pub key: String,
    pub what: String,
    /// None = the whole class is listed; Some = only these case names
    pub cases: Option<BTreeSet<String>>,
}

pub fn load_known(property: &str) -> Vec<Known> {
    let path = format!("{}/known_findings.json", VERIF_DIR);
    let Ok(text) = std::fs::read_to_string(&path) else {
        return vec![];
    };
    let j: J = match serde_json::from_str(&text) {
        Ok(j) => j,
        Err(e) => {
            eprintln!("machinery error: cannot parse {}: {}", path, e);
            std::process::exit(2);
        }
    };
    let mut rv = vec![];
    for e in j["findings"].as_array().cloned().unwrap_or_default() {
        if e["property"].as_str() != Some(property) {
            continue;
        }
        let cases = if let Some(list) = e["cases"].as_array() {
            Some(
                list.iter()
                    .filter_map(|x| x.as_str().map(|s| s.to_string()))
                    .collect(),
            )
        } else if let Some(file) = e["cases_file"].as_str() {
            let p = format!("{}/{}", VERIF_DIR, file);
            match std::fs::read_to_string(&p) {
                Ok(t) => Some(t.lines().map(|l| l.to_string()).collect()),
                Err(err) => {
                    eprintln!("machinery error: cannot read {}: {}", p, err);
                    std::process::exit(2);
                }
            }
        } else {
            None
        };
        rv.push(Known {
            property: property.to_string(),
            key: e["key"].as_str().unwrap_or("").to_string(),
            what: e["what"].as_str().unwrap_or("").to_string(),
            cases,
        });
    }
    rv
}

// ------------------------------------------------------------------------------------------
// finishing a check: classify failures, write replays + evidence, exit code

pub struct Finish {
    pub property: &'static str,
    pub level: &'static str,
    pub tier: Tier,
    pub seed: u64,
    pub rule: String,
    pub exhaustive: bool,
    pub bound: J,
    pub assumptions: Vec<String>,
    pub extra: Map<String, J>,
    pub start: Instant,
}

fn slug(s: &str) -> String {
    let mut out = String::new();
    for c in s.chars() {
        if c.is_ascii_alphanumeric() {
            out.push(c);
        } else if !out.ends_with('_') {
            out.push('_');
        }
    }
    out.truncate(70);
    format!("{}_{:08x}", out, fnv(s.as_bytes()) as u32)
}

pub fn finish(fin: Finish, acc: &Acc) -> i32 {
    let known = load_known(fin.property);
    let failures = std::mem::take(&mut *acc.failures.lock().unwrap());
    let mut by_key: BTreeMap<String, Vec<Failure>> = BTreeMap::new();
    for f in failures {
        by_key.entry(f.key.clone()).or_default().push(f);
    }
    let mut violations = 0usize;
    let mut known_hits = vec![];
    // the second build of the same binary (IndexMap-backed maps) keeps its files apart
    let variant = if cfg!(feature = "po") { ".po" } else { "" };
    let replay_dir = format!("{}/replays/{}{}", VERIF_DIR, fin.property, variant);
    // replays of earlier runs of this property are stale now
    let _ = std::fs::remove_dir_all(&replay_dir);
    let mut lines_printed = 0usize;
    let mut keys_suppressed = 0usize;
    for (key, mut fs) in by_key {
        fs.sort_by(|a, b| a.case.cmp(&b.case));
        let k = known.iter().find(|k| k.key == key);
        let (listed, unlisted): (Vec<Failure>, Vec<Failure>) = match k {
            None => (vec![], fs),
            Some(k) => match &k.cases {
                None => (fs, vec![]),
                Some(set) => fs.into_iter().partition(|f| set.contains(&f.case)),
            },
        };
        if !listed.is_empty() {
            let k = k.unwrap();
            println!(
                "KNOWN-FINDING: property={} key=[{}] {} ({} case(s) this run, e.g. {})",
                fin.property,
                key,
                k.what,
                listed.len(),
                listed[0].case
            );
            known_hits.push(json!({"key": key, "cases": listed.len()}));
        }
        if !unlisted.is_empty() {
            let _ = std::fs::create_dir_all(&replay_dir);
            let path = format!("{}/{}.json", replay_dir, slug(&key));
            let first = &unlisted[0];
            let doc = json!({
                "property": fin.property,
                "key": key,
                "case": first.case,
                "detail": first.detail,
                "replay": first.replay,
                "failing_cases_in_class": unlisted.len(),
                "class_grew_beyond_known_set": k.is_some(),
                "more": unlisted.iter().skip(1).take(20).map(|f| json!({"case": f.case, "detail": f.detail, "replay": f.replay})).collect::<Vec<_>>(),
            });
            std::fs::write(&path, serde_json::to_string_pretty(&doc).unwrap()).unwrap();
            let all = unlisted
                .iter()
                .map(|f| f.case.as_str())
                .collect::<Vec<_>>()
                .join("\n");
            let _ = std::fs::write(
                format!("{}/{}.cases.txt", replay_dir, slug(&key)),
                all + "\n",
            );
            if lines_printed < 40 {
                println!(
                    "VIOLATION property={} replay={}  # key=[{}] cases={} first={} :: {}",
                    fin.property,
                    path,
                    key,
                    unlisted.len(),
                    first.case,
                    first.detail.replace('\n', "\\n")
                );
                lines_printed += 1;
            } else {
                keys_suppressed += 1;
            }
            violations += unlisted.len();
        }
    }
    if keys_suppressed > 0 {
        println!(
            "# {} further violation classes not printed; every class has a replay file under {}",
            keys_suppressed, replay_dir
        );
    }
    // evidence
    let evaluations = acc.evaluations.load(Ordering::Relaxed);
    let outcomes = acc.outcomes.lock().unwrap().clone();
    let nontrivial = acc.nontrivial.lock().unwrap().len() as u64 + acc.nontrivial_counted.load(Ordering::Relaxed);
    let mut coverage = Map::new();
    coverage.insert("evaluations".into(), json!(evaluations));
    coverage.insert("distinct_nontrivial".into(), json!(nontrivial));
    coverage.insert("rule".into(), json!(fin.rule));
    coverage.insert("exhaustive".into(), json!(fin.exhaustive));
    coverage.insert("bound".into(), fin.bound.clone());
    coverage.insert("outcomes_distinct".into(), json!(outcomes.len()));
    let mut top: Vec<(&String, &u64)> = outcomes.iter().collect();
    top.sort_by(|a, b| b.1.cmp(a.1));
    coverage.insert(
        "outcome_histogram_top".into(),
        J::Object(
            top.iter()
                .take(40)
                .map(|(k, v)| ((*k).clone(), json!(**v)))
                .collect(),
        ),
    );
    let mut samples = acc.samples.lock().unwrap().clone();
    if !samples.is_empty() {
        let r = (fin.seed as usize) % samples.len();
        samples.rotate_left(r);
    }
    coverage.insert("samples".into(), J::Array(samples));
    let counters = acc.counters.lock().unwrap().clone();
    for (k, v) in counters {
        coverage.insert(k, json!(v));
    }
    coverage.insert("known_findings_hit".into(), J::Array(known_hits));
    let notes = acc.notes.lock().unwrap().clone();
    if !notes.is_empty() {
        coverage.insert("notes".into(), json!(notes));
    }
    for (k, v) in fin.extra {
        coverage.insert(k, v);
    }
    let ev = json!({
        "property_id": fin.property,
        "tier": fin.tier.name(),
        "seed": fin.seed,
        "level": fin.level,
        "coverage": J::Object(coverage),
        "assumptions": fin.assumptions,
        "wall_s": (fin.start.elapsed().as_secs_f64() * 1000.0).round() / 1000.0,
        "violations": violations,
    });
    let _ = std::fs::create_dir_all(format!("{}/evidence", VERIF_DIR));
    let path = format!("{}/evidence/{}{}.json", VERIF_DIR, fin.property, variant);
    std::fs::write(&path, serde_json::to_string_pretty(&ev).unwrap() + "\n").unwrap();
    eprintln!(
        "[{}{}] tier={} evaluations={} distinct_nontrivial={} outcomes={} violations={} wall={:.1}s",
        fin.property,
        if variant.is_empty() { "" } else { " feature-variant build (preserve_order, unicode, speedups, stacker)" },
        fin.tier.name(),
        evaluations,
        nontrivial,
        outcomes.len(),
        violations,
        fin.start.elapsed().as_secs_f64()
    );
    if violations > 0 {
        1
    } else {
        0
    }
}

/// Load a replay document written by `finish`.
pub fn load_replay(path: &str) -> J {
    let text = std::fs::read_to_string(path).unwrap_or_else(|e| {
        eprintln!("machinery error: cannot read replay {}: {}", path, e);
        std::process::exit(2)
    });
    serde_json::from_str(&text).unwrap_or_else(|e| {
        eprintln!("machinery error: bad replay {}: {}", path, e);
        std::process::exit(2)
    })
}

/// Run `f`, turning a panic into an Err(message).
pub fn catch<T>(f: impl FnOnce() -> T) -> Result<T, String> {
    IN_CATCH.with(|c| c.set(c.get() + 1));
    let r = std::panic::catch_unwind(std::panic::AssertUnwindSafe(f));
    IN_CATCH.with(|c| c.set(c.get() - 1));
    match r {
        Ok(v) => Ok(v),
        Err(p) => Err(if let Some(s) = p.downcast_ref::<&str>() {
            s.to_string()
        } else if let Some(s) = p.downcast_ref::<String>() {
            s.clone()
        } else {
            "panic".to_string()
        }),
    }
}

/// Silence the default panic hook (panics are results here) but remember the location.
pub fn install_quiet_panic_hook() {
    std::panic::set_hook(Box::new(|info| {
        let loc = info
            .location()
            .map(|l| format!("{}:{}", l.file(), l.line()))
            .unwrap_or_default();
        if IN_CATCH.with(|c| c.get()) == 0 {
            // a panic of the harness itself: machinery failure, make it visible
            eprintln!("machinery panic: {} at {}", info, loc);
        }
        LAST_PANIC_LOC.with(|c| *c.borrow_mut() = loc);
    }));
}

thread_local! {
    pub static IN_CATCH: std::cell::Cell<u32> = const { std::cell::Cell::new(0) };
    pub static LAST_PANIC_LOC: std::cell::RefCell<String> = const { std::cell::RefCell::new(String::new()) };
}

pub fn last_panic_loc() -> String {
    let s = LAST_PANIC_LOC.with(|c| c.borrow().clone());
    // strip the repo prefix so keys are stable
    s.replace("/repo/minijinja/src/", "")
}
