//! C07 — order/equality/hash laws of Value over the edge alphabet (all pairs, all triples) and
//! the algebra of the collection filters over all short lists.
use crate::core::*;
use crate::vals::*;
use minijinja::value::{Value, ValueKind};
use minijinja::{context, Environment};
use serde_json::{json, Value as J};
use std::cmp::Ordering;
use std::collections::hash_map::DefaultHasher;
use std::hash::{Hash, Hasher};

fn hash_of(v: &Value) -> u64 {
    let mut h = DefaultHasher::new();
    v.hash(&mut h);
    h.finish()
}

fn pair_key(law: &str, a: &Named, b: &Named) -> String {
    let (x, y) = if a.class <= b.class { (a.class, b.class) } else { (b.class, a.class) };
    format!("law={} kinds=({},{})", law, x, y)
}

fn check_pair(env: &Environment, a: &Named, b: &Named, acc: &Acc, l: &mut Local) {
    let case = format!("{} , {}", a.name, b.name);
    let fail = |law: &str, detail: String| {
        acc.fail(Failure {
            key: pair_key(law, a, b),
            case: case.clone(),
            detail,
            replay: json!({"kind": "pair", "a": a.name, "b": b.name}),
        })
    };
    let r = catch(|| {
        let ab = a.value.cmp(&b.value);
        let ba = b.value.cmp(&a.value);
        let eq_ab = a.value == b.value;
        let eq_ba = b.value == a.value;
        (ab, ba, eq_ab, eq_ba, hash_of(&a.value), hash_of(&b.value))
    });
    let (ab, ba, eq_ab, eq_ba, ha, hb) = match r {
        Err(p) => {
            fail("totality(no panic)", format!("panic: {} at {}", p, last_panic_loc()));
            return;
        }
        Ok(x) => x,
    };
    l.evals += 1;
    l.outcome(&format!("{:?}/{}", ab, if eq_ab { "eq" } else { "ne" }));
    if ab != ba.reverse() {
        fail("antisymmetry", format!("cmp(a,b)={:?} but cmp(b,a)={:?}", ab, ba));
    }
    if eq_ab != eq_ba {
        fail("eq_symmetry", format!("a==b is {} but b==a is {}", eq_ab, eq_ba));
    }
    let nan = a.is_nan || b.is_nan;
    if !nan && eq_ab != (ab == Ordering::Equal) {
        fail("eq_iff_cmp_equal", format!("a==b is {} but cmp(a,b) is {:?}", eq_ab, ab));
    }
    if eq_ab && ha != hb {
        fail("eq_implies_same_hash", format!("a==b but hash(a)={:x} hash(b)={:x}", ha, hb));
    }
    if eq_ab {
        l.nontrivial.insert(fnv(case.as_bytes()));
    }
    // operator consistency through the template engine
    let ops = [
        ("a < b", ab == Ordering::Less),
        ("a <= b", ab != Ordering::Greater),
        ("a > b", ab == Ordering::Greater),
        ("a >= b", ab != Ordering::Less),
        ("a == b", eq_ab),
        ("a != b", !eq_ab),
        ("a in [b]", eq_ab),
    ];
    for (src, truth) in ops {
        if nan {
            continue;
        }
        l.evals += 1;
        let r = catch(|| env.compile_expression(src).unwrap().eval(context! { a => a.value.clone(), b => b.value.clone() }));
        match r {
            Err(p) => fail("operator(no panic)", format!("{} panicked: {} at {}", src, p, last_panic_loc())),
            Ok(Err(e)) => {
                // ordering comparisons of unlike kinds may be rejected by the engine; that is an
                // error, not an inconsistent answer
                l.outcome(&format!("operator error {}", e.kind()));
            }
            Ok(Ok(v)) => {
                if v.is_true() != truth {
                    fail(
                        &format!("operator_consistency[{}]", src),
                        format!("template says {} but Value-level answer is {}", v, truth),
                    );
                }
            }
        }
    }
    // dictionary lookup: {b: 1}[a] finds the entry exactly when a == b
    if !nan {
        l.evals += 1;
        let r = catch(|| env.compile_expression("{b: 1}[a]").unwrap().eval(context! { a => a.value.clone(), b => b.value.clone() }));
        match r {
            Err(p) => fail("lookup(no panic)", format!("panic: {} at {}", p, last_panic_loc())),
            Ok(Err(_)) => l.outcome("lookup error"),
            Ok(Ok(v)) => {
                let found = !v.is_undefined();
                if found != eq_ab {
                    fail("lookup_consistency", format!("{{b:1}}[a] found={} but a==b is {}", found, eq_ab));
                }
            }
        }
    }
}

fn check_triple(a: &Named, b: &Named, c: &Named, cmp: &[Vec<Ordering>], eq: &[Vec<bool>], i: usize, j: usize, k: usize, acc: &Acc) {
    if a.is_nan || b.is_nan || c.is_nan {
        return;
    }
    let le = |x: usize, y: usize| cmp[x][y] != Ordering::Greater;
    let mk = |law: &str, detail: String| {
        let mut cl = [a.class, b.class, c.class];
        cl.sort();
        acc.fail(Failure {
            key: format!("law={} kinds=({},{},{})", law, cl[0], cl[1], cl[2]),
            case: format!("{} , {} , {}", a.name, b.name, c.name),
            detail,
            replay: json!({"kind": "triple", "a": a.name, "b": b.name, "c": c.name}),
        })
    };
    if le(i, j) && le(j, k) && !le(i, k) {
        mk("le_transitivity", format!("a<=b and b<=c but cmp(a,c)={:?}", cmp[i][k]));
    }
    if eq[i][j] && eq[j][k] && !eq[i][k] {
        mk("eq_transitivity", "a==b and b==c but a!=c".into());
    }
    // strict: a<b and b<c => a<c is implied by le-transitivity + antisymmetry on pairs
}

// ---------------------------------------------------------------------------------------------
// filters

fn identical(a: &Value, b: &Value) -> bool {
    a.kind() == b.kind() && a.is_safe() == b.is_safe() && format!("{:?}", a) == format!("{:?}", b)
}

fn items_of(v: &Value) -> Option<Vec<Value>> {
    v.try_iter().ok().map(|i| i.collect())
}

fn cmp_helper(a: &Value, b: &Value, case_sensitive: bool, reverse: bool) -> Ordering {
    let o = if !case_sensitive {
        if let (Some(x), Some(y)) = (a.as_str(), b.as_str()) {
            x.to_ascii_lowercase().cmp(&y.to_ascii_lowercase())
        } else {
            a.cmp(b)
        }
    } else {
        a.cmp(b)
    };
    if reverse {
        o.reverse()
    } else {
        o
    }
}

fn key_eq(a: &Value, b: &Value, case_sensitive: bool) -> bool {
    if !case_sensitive {
        if let (Some(x), Some(y)) = (a.as_str(), b.as_str()) {
            return x.to_lowercase() == y.to_lowercase();
        }
    }
    a == b
}

fn list_name(idx: &[usize], alpha: &[Named]) -> String {
    format!("[{}]", idx.iter().map(|&i| alpha[i].name.as_str()).collect::<Vec<_>>().join(","))
}

fn eval_filter(env: &Environment, src: &str, xs: Value) -> Result<Result<Value, String>, String> {
    catch(|| {
        env.compile_expression(src)
            .unwrap()
            .eval(context! { xs => xs })
            .map_err(|e| e.to_string())
            .and_then(|v| {
                // force lazies
                if matches!(v.kind(), ValueKind::Seq | ValueKind::Iterable) {
                    let _ = v.try_iter().map(|i| i.count());
                }
                Ok(v)
            })
    })
}

fn check_filters_on_list(env: &Environment, idx: &[usize], alpha: &[Named], acc: &Acc, l: &mut Local) {
    let input: Vec<Value> = idx.iter().map(|&i| alpha[i].value.clone()).collect();
    let name = list_name(idx, alpha);
    let xs = Value::from(input.clone());
    let fail = |filter: &str, clause: &str, detail: String| {
        acc.fail(Failure {
            key: format!("filter={} clause={} len={}", filter, clause, idx.len()),
            case: format!("{} | {}", name, filter),
            detail,
            replay: json!({"kind": "filter", "list": idx, "alphabet": "v_filter"}),
        })
    };
    macro_rules! run {
        ($src:expr, $fname:expr) => {{
            l.evals += 1;
            match eval_filter(env, $src, xs.clone()) {
                Err(p) => {
                    fail($fname, "no_panic", format!("{} panicked: {} at {}", $src, p, last_panic_loc()));
                    None
                }
                Ok(Err(e)) => {
                    fail($fname, "no_error", format!("{} failed: {}", $src, e));
                    None
                }
                Ok(Ok(v)) => Some(v),
            }
        }};
    }
    // sort: identical to a reference stable sort with the same comparator
    for cs in [false, true] {
        for rev in [false, true] {
            let src = format!("xs|sort(case_sensitive={}, reverse={})", cs, rev);
            let fname = "sort";
            if let Some(v) = run!(&src, fname) {
                let got = items_of(&v).unwrap_or_default();
                let mut exp = input.clone();
                exp.sort_by(|a, b| cmp_helper(a, b, cs, rev));
                if got.len() != exp.len() || !got.iter().zip(&exp).all(|(a, b)| identical(a, b)) {
                    fail(fname, "stable_ordered_permutation", format!("{} -> {:?}, reference stable sort -> {:?}", src, got, exp));
                }
                for w in got.windows(2) {
                    if cmp_helper(&w[0], &w[1], cs, rev) == Ordering::Greater {
                        fail(fname, "ordered", format!("{} -> {:?} not ordered at {:?},{:?}", src, got, w[0], w[1]));
                    }
                }
                l.outcome(&format!("sort ok len={}", got.len()));
            }
        }
    }
    // sort by attribute on maps {k: value, i: position}: stable by position within equal keys
    {
        let recs: Vec<Value> = input
            .iter()
            .enumerate()
            .map(|(i, v)| Value::from_pairs([("k", v.clone()), ("i", Value::from(i))]))
            .collect();
        for rev in [false, true] {
            let src = format!("xs|sort(attribute='k', reverse={})|map(attribute='i')|list", rev);
            l.evals += 1;
            match catch(|| env.compile_expression(&src).unwrap().eval(context! { xs => Value::from(recs.clone()) })) {
                Err(p) => fail("sort(attribute)", "no_panic", format!("panic: {} at {}", p, last_panic_loc())),
                Ok(Err(e)) => fail("sort(attribute)", "no_error", e.to_string()),
                Ok(Ok(v)) => {
                    let got: Vec<usize> = items_of(&v).unwrap_or_default().iter().filter_map(|x| x.as_usize()).collect();
                    let mut exp: Vec<usize> = (0..input.len()).collect();
                    exp.sort_by(|&a, &b| cmp_helper(&input[a], &input[b], false, rev));
                    if got != exp {
                        fail("sort(attribute)", "stable_ordered_permutation", format!("{} -> positions {:?}, reference {:?}", src, got, exp));
                    }
                }
            }
        }
        // groupby: partition by key
        let src = "xs|groupby('k')";
        l.evals += 1;
        match catch(|| env.compile_expression(src).unwrap().eval(context! { xs => Value::from(recs.clone()) })) {
            Err(p) => fail("groupby", "no_panic", format!("panic: {} at {}", p, last_panic_loc())),
            Ok(Err(e)) => fail("groupby", "no_error", e.to_string()),
            Ok(Ok(v)) => {
                let groups = items_of(&v).unwrap_or_default();
                let mut seen_pos: Vec<usize> = vec![];
                let mut keys: Vec<Value> = vec![];
                for g in &groups {
                    let grouper = g.get_item(&Value::from(0)).unwrap_or_default();
                    let list = g.get_item(&Value::from(1)).ok().and_then(|x| items_of(&x)).unwrap_or_default();
                    if list.is_empty() {
                        fail("groupby", "nonempty_groups", format!("empty group for {:?}", grouper));
                    }
                    let mut last_pos: Option<usize> = None;
                    for rec in &list {
                        let k = rec.get_attr("k").unwrap_or_default();
                        let pos = rec.get_attr("i").ok().and_then(|x| x.as_usize()).unwrap_or(usize::MAX);
                        if cmp_helper(&k, &grouper, false, false) != Ordering::Equal {
                            fail("groupby", "group_members_share_key", format!("member key {:?} in group {:?}", k, grouper));
                        }
                        if let Some(lp) = last_pos {
                            if pos < lp {
                                fail("groupby", "stable_within_group", format!("positions out of order in group {:?}", grouper));
                            }
                        }
                        last_pos = Some(pos);
                        seen_pos.push(pos);
                    }
                    keys.push(grouper);
                }
                let mut sorted_pos = seen_pos.clone();
                sorted_pos.sort();
                if sorted_pos != (0..input.len()).collect::<Vec<_>>() {
                    fail("groupby", "partition", format!("positions covered {:?} for {} inputs", seen_pos, input.len()));
                }
                for w in keys.windows(2) {
                    if cmp_helper(&w[0], &w[1], false, false) != Ordering::Less {
                        fail("groupby", "distinct_sorted_groupers", format!("groupers {:?} then {:?}", w[0], w[1]));
                    }
                }
            }
        }
    }
    // unique
    for cs in [false, true] {
        let src = format!("xs|unique(case_sensitive={})", cs);
        if let Some(v) = run!(&src, "unique") {
            let got = items_of(&v).unwrap_or_default();
            // expected: first occurrences w.r.t. key equality
            let mut exp: Vec<Value> = vec![];
            for x in &input {
                if !exp.iter().any(|e| key_eq(e, x, cs)) {
                    exp.push(x.clone());
                }
            }
            if got.len() != exp.len() || !got.iter().zip(&exp).all(|(a, b)| identical(a, b)) {
                fail("unique", "first_occurrence_subsequence", format!("{} -> {:?}, expected {:?}", src, got, exp));
            }
        }
    }
    // batch / slice
    let fill = Value::from("FILL");
    for n in 1..=6usize {
        for with_fill in [false, true] {
            let src = if with_fill { format!("xs|batch({}, 'FILL')", n) } else { format!("xs|batch({})", n) };
            if let Some(v) = run!(&src, "batch") {
                let runs: Vec<Vec<Value>> = items_of(&v).unwrap_or_default().iter().map(|r| items_of(r).unwrap_or_default()).collect();
                let expect_runs = (input.len() + n - 1) / n;
                let mut flat: Vec<Value> = vec![];
                let mut ok = runs.len() == expect_runs;
                for (ri, r) in runs.iter().enumerate() {
                    let real: Vec<Value> = r.iter().filter(|x| !identical(x, &fill)).cloned().collect();
                    let is_last = ri + 1 == runs.len();
                    // (a wrong number of runs is a failure already; no arithmetic on it)
                    let want_real = if !ok { usize::MAX } else if is_last { input.len() - n * (expect_runs - 1) } else { n };
                    if real.len() != want_real {
                        ok = false;
                    }
                    let want_total = if with_fill { n } else { want_real };
                    if r.len() != want_total {
                        ok = false;
                    }
                    // fill only at the end
                    if r.iter().take(real.len()).any(|x| identical(x, &fill)) {
                        ok = false;
                    }
                    flat.extend(real);
                }
                if flat.len() != input.len() || !flat.iter().zip(&input).all(|(a, b)| identical(a, b)) {
                    ok = false;
                }
                if !ok {
                    fail("batch", "runs_concatenate_to_input", format!("{} -> {:?}", src, runs));
                }
            }
            let src = if with_fill { format!("xs|slice({}, 'FILL')", n) } else { format!("xs|slice({})", n) };
            if let Some(v) = run!(&src, "slice") {
                let runs: Vec<Vec<Value>> = items_of(&v).unwrap_or_default().iter().map(|r| items_of(r).unwrap_or_default()).collect();
                let mut ok = runs.len() == n;
                let mut flat: Vec<Value> = vec![];
                for (ri, r) in runs.iter().enumerate() {
                    let real: Vec<Value> = r.iter().filter(|x| !identical(x, &fill)).cloned().collect();
                    let want_real = input.len() / n + usize::from(ri < input.len() % n);
                    if real.len() != want_real {
                        ok = false;
                    }
                    let fills = r.len() - real.len();
                    if fills > 1 || (!with_fill && fills > 0) {
                        ok = false;
                    }
                    if r.iter().take(real.len()).any(|x| identical(x, &fill)) {
                        ok = false;
                    }
                    flat.extend(real);
                }
                if flat.len() != input.len() || !flat.iter().zip(&input).all(|(a, b)| identical(a, b)) {
                    ok = false;
                }
                if !ok {
                    fail("slice", "runs_concatenate_to_input", format!("{} -> {:?}", src, runs));
                }
            }
        }
    }
    // min / max
    for (f, want) in [("min", Ordering::Greater), ("max", Ordering::Less)] {
        let src = format!("xs|{}", f);
        if let Some(v) = run!(&src, f) {
            if input.is_empty() {
                if !v.is_undefined() {
                    fail(f, "empty_is_undefined", format!("{:?}", v));
                }
            } else {
                if !input.iter().any(|x| identical(x, &v)) {
                    fail(f, "member", format!("{} -> {:?} is not an element", src, v));
                }
                for x in &input {
                    if v.cmp(x) == want {
                        fail(f, "bounds_all", format!("{} -> {:?} but element {:?}", src, v, x));
                    }
                }
            }
        }
    }
    // reverse is an involution; last/first agree with it
    if let Some(v) = run!("xs|reverse|reverse|list", "reverse") {
        let got = items_of(&v).unwrap_or_default();
        if got.len() != input.len() || !got.iter().zip(&input).all(|(a, b)| identical(a, b)) {
            fail("reverse", "involution", format!("{:?}", got));
        }
    }
    if let Some(v) = run!("xs|reverse|list", "reverse") {
        let got = items_of(&v).unwrap_or_default();
        let mut exp = input.clone();
        exp.reverse();
        if got.len() != exp.len() || !got.iter().zip(&exp).all(|(a, b)| identical(a, b)) {
            fail("reverse", "reverses", format!("{:?}", got));
        }
    }
    l.nontrivial.insert(fnv(name.as_bytes()));
}

fn reverse_shapes() -> Vec<(&'static str, Value, Vec<String>)> {
    // (name, value, expected element rendering in forward order)
    let strs = |v: &[&str]| v.iter().map(|s| s.to_string()).collect::<Vec<_>>();
    vec![
        ("list", Value::from(vec![1, 2, 3]), strs(&["1", "2", "3"])),
        ("tuple", Value::from(minijinja::value::Tuple::from(vec![Value::from(1), Value::from(2), Value::from(3)])), strs(&["1", "2", "3"])),
        ("string", Value::from("aé☃"), strs(&["a", "é", "☃"])),
        ("safe_string", Value::from_safe_string("ab".into()), strs(&["a", "b"])),
        ("map", Value::from_pairs([("x", 1), ("y", 2), ("z", 3)]), strs(&["x", "y", "z"])),
        ("iter_sized", Value::make_iterable(|| 1..4), strs(&["1", "2", "3"])),
        ("iter_unsized", Value::make_iterable(|| (1..4).filter(|_| true)), strs(&["1", "2", "3"])),
        ("empty_list", Value::from(Vec::<i32>::new()), vec![]),
        ("empty_iter", Value::make_iterable(|| 0..0), vec![]),
        ("one_shot", Value::make_one_shot_iterator(1..4), strs(&["1", "2", "3"])),
        ("one", Value::from(vec![7]), strs(&["7"])),
    ]
}

fn check_reverse_shapes(env: &Environment, acc: &Acc) {
    for (name, v, fwd) in reverse_shapes() {
        for (src, want_rev) in [("v|reverse|list", true), ("v|reverse|reverse|list", false)] {
            if name == "one_shot" && !want_rev {
                // handled below with a fresh iterator
            }
            let fresh = if name == "one_shot" { Value::make_one_shot_iterator(1..4) } else { v.clone() };
            acc.eval(1);
            let r = catch(|| env.compile_expression(src).unwrap().eval(context! { v => fresh }));
            let fail = |clause: &str, detail: String| {
                acc.fail(Failure {
                    key: format!("filter=reverse clause={} shape={}", clause, name),
                    case: format!("{} with v={}", src, name),
                    detail,
                    replay: json!({"kind": "reverse_shape", "shape": name}),
                })
            };
            match r {
                Err(p) => fail("no_panic", format!("{} at {}", p, last_panic_loc())),
                Ok(Err(e)) => fail("no_error", e.to_string()),
                Ok(Ok(out)) => {
                    let got: Vec<String> = items_of(&out).unwrap_or_default().iter().map(|x| x.to_string()).collect();
                    let mut exp = fwd.clone();
                    if want_rev {
                        exp.reverse();
                    }
                    if got != exp {
                        fail(if want_rev { "reverses" } else { "involution" }, format!("got {:?} expected {:?}", got, exp));
                    } else {
                        acc.outcome("reverse shape ok");
                    }
                }
            }
        }
    }
    // bytes and strings through Value::reverse directly
    for v in [Value::from_bytes(b"abc".to_vec()), Value::from("abc"), Value::from(()), Value::UNDEFINED] {
        acc.eval(1);
        let r = catch(|| v.reverse().and_then(|x| x.reverse()));
        match r {
            Ok(Ok(back)) if identical(&back, &v) || (v.is_undefined() && back.is_undefined()) => acc.outcome("value reverse involution ok"),
            other => acc.fail(Failure {
                key: format!("filter=reverse clause=involution shape=value:{}", v.kind()),
                case: format!("Value::reverse twice on {:?}", v),
                detail: format!("{:?}", other.map(|x| x.map(|y| format!("{:?}", y)).map_err(|e| e.to_string()))),
                replay: json!({"kind": "reverse_value"}),
            }),
        }
    }
}

fn nth_list(mut n: u64, len: usize, base: u64) -> Vec<usize> {
    let mut v = vec![0usize; len];
    for slot in v.iter_mut() {
        *slot = (n % base) as usize;
        n /= base;
    }
    v
}

pub fn main(args: Args) -> i32 {
    let start_t = std::time::Instant::now();
    install_quiet_panic_hook();
    let full = args.tier == Tier::Thorough;
    let alpha = v_edge(full);
    if let Some(p) = &args.replay {
        let doc = load_replay(p);
        let j = &doc["replay"];
        let acc = Acc::new();
        let env = Environment::new();
        let all = v_edge(true);
        let find = |name: &J| all.iter().find(|x| Some(x.name.as_str()) == name.as_str()).cloned();
        let mut l = Local::default();
        match j["kind"].as_str() {
            Some("pair") => {
                let (a, b) = (find(&j["a"]).unwrap(), find(&j["b"]).unwrap());
                println!("cmp(a,b)={:?} cmp(b,a)={:?} a==b:{} hash equal:{}", a.value.cmp(&b.value), b.value.cmp(&a.value), a.value == b.value, hash_of(&a.value) == hash_of(&b.value));
                check_pair(&env, &a, &b, &acc, &mut l);
            }
            Some("triple") => {
                let vs = [find(&j["a"]).unwrap(), find(&j["b"]).unwrap(), find(&j["c"]).unwrap()];
                let cmp: Vec<Vec<Ordering>> = vs.iter().map(|x| vs.iter().map(|y| x.value.cmp(&y.value)).collect()).collect();
                let eq: Vec<Vec<bool>> = vs.iter().map(|x| vs.iter().map(|y| x.value == y.value).collect()).collect();
                println!("cmp matrix {:?} eq matrix {:?}", cmp, eq);
                check_triple(&vs[0], &vs[1], &vs[2], &cmp, &eq, 0, 1, 2, &acc);
            }
            Some("filter") => {
                let idx: Vec<usize> = j["list"].as_array().unwrap().iter().map(|x| x.as_u64().unwrap() as usize).collect();
                check_filters_on_list(&env, &idx, &v_filter(), &acc, &mut l);
            }
            _ => check_reverse_shapes(&env, &acc),
        }
        let fs = acc.take_failures();
        return if fs.is_empty() {
            println!("replay: case passes");
            0
        } else {
            for f in &fs {
                println!("VIOLATION property=C07 replay={}  # {} :: {}", p, f.key, f.detail);
            }
            1
        };
    }
    let acc = Acc::new();
    let n = alpha.len() as u64;
    // pairs
    par_chunks(n * n, 32, &acc, |r, l| {
        let env = Environment::new();
        for idx in r {
            let a = &alpha[(idx / n) as usize];
            let b = &alpha[(idx % n) as usize];
            check_pair(&env, a, b, &acc, l);
        }
    });
    // reflexivity
    for a in &alpha {
        acc.eval(1);
        let r = catch(|| (a.value.cmp(&a.value), a.value == a.value, hash_of(&a.value) == hash_of(&a.value.clone())));
        match r {
            Ok((Ordering::Equal, eq, true)) if eq || a.is_nan => {}
            other => acc.fail(Failure {
                key: format!("law=reflexivity kinds=({})", a.class),
                case: a.name.clone(),
                detail: format!("{:?}", other),
                replay: json!({"kind": "pair", "a": a.name, "b": a.name}),
            }),
        }
    }
    // triples from the precomputed matrices (cmp/eq are deterministic functions of the pair)
    let cmp: Vec<Vec<Ordering>> = alpha.iter().map(|x| alpha.iter().map(|y| catch(|| x.value.cmp(&y.value)).unwrap_or(Ordering::Equal)).collect()).collect();
    let eq: Vec<Vec<bool>> = alpha.iter().map(|x| alpha.iter().map(|y| catch(|| x.value == y.value).unwrap_or(false)).collect()).collect();
    let nn = alpha.len();
    par_chunks((nn * nn) as u64, 8, &acc, |r, l| {
        for idx in r {
            let i = idx as usize / nn;
            let j = idx as usize % nn;
            for k in 0..nn {
                l.evals += 1;
                check_triple(&alpha[i], &alpha[j], &alpha[k], &cmp, &eq, i, j, k, &acc);
            }
        }
    });
    acc.count("pairs", n * n);
    acc.count("triples", (nn * nn * nn) as u64);
    // filters over all short lists
    let fa = v_filter();
    let base = fa.len() as u64;
    let maxlen = args.tier.pick(4usize, 5usize);
    let mut total_lists = 0u64;
    for len in 0..=maxlen {
        let count = base.pow(len as u32);
        total_lists += count;
        par_chunks(count, 64, &acc, |r, l| {
            let env = Environment::new();
            for nidx in r {
                let idx = nth_list(nidx, len, base);
                check_filters_on_list(&env, &idx, &fa, &acc, l);
            }
        });
    }
    acc.count("filter_input_lists", total_lists);
    // long lists (Rust's sort only validates the comparator beyond 20 elements)
    {
        let env = Environment::new();
        let sortable: Vec<&Named> = alpha.iter().filter(|x| !x.is_nan).collect();
        for len in [21usize, 33, 64] {
            for start in 0..sortable.len() {
                let items: Vec<Value> = (0..len).map(|i| sortable[(start + i * 7) % sortable.len()].value.clone()).collect();
                for src in ["xs|sort", "xs|sort(reverse=true)", "xs|unique|list", "xs|min", "xs|max"] {
                    acc.eval(1);
                    let r = catch(|| env.compile_expression(src).unwrap().eval(context! { xs => Value::from(items.clone()) }));
                    match r {
                        Err(p) => acc.fail(Failure {
                            key: format!("filter={} clause=no_panic long_list", src),
                            case: format!("long list start={} len={} | {}", start, len, src),
                            detail: format!("panic: {} at {}", p, last_panic_loc()),
                            replay: json!({"kind": "long", "start": start, "len": len}),
                        }),
                        Ok(Err(e)) => acc.fail(Failure {
                            key: format!("filter={} clause=no_error long_list", src),
                            case: format!("long list start={} len={} | {}", start, len, src),
                            detail: e.to_string(),
                            replay: json!({"kind": "long", "start": start, "len": len}),
                        }),
                        Ok(Ok(v)) => {
                            if src.starts_with("xs|sort") {
                                let got = items_of(&v).unwrap_or_default();
                                let rev = src.contains("reverse");
                                if got.len() != len || got.windows(2).any(|w| cmp_helper(&w[0], &w[1], false, rev) == Ordering::Greater) {
                                    acc.fail(Failure {
                                        key: format!("filter={} clause=ordered long_list", src),
                                        case: format!("long list start={} len={} | {}", start, len, src),
                                        detail: "result not ordered or wrong length".into(),
                                        replay: json!({"kind": "long", "start": start, "len": len}),
                                    });
                                }
                            }
                            acc.outcome("long list ok");
                        }
                    }
                }
            }
        }
    }
    // long lists through the complete law set: every option combination against the reference stable
    // sort, groupby, unique, batch, slice, min, max, reverse.  Library sorts switch algorithm with the
    // input length (insertion sort below ~20 elements, run detection, different strategies for
    // unstable variants above 32), so stability and the other laws are decided at lengths on both
    // sides of those thresholds, over scrambles of the mixed alphabet (which holds values that compare
    // equal but are distinguishable: 1 / 1.0 / true, 'a' / 'A' when case is ignored)
    {
        let lens: &[usize] = if full { &[21, 32, 33, 40, 64, 65, 100, 129, 300, 1000] } else { &[21, 32, 33, 40, 64, 65, 100, 129, 300] };
        let base = fa.len();
        let mut jobs: Vec<Vec<usize>> = vec![];
        for &len in lens {
            for (mul, div) in [(1usize, 1usize), (3, 1), (5, 2), (7, 3), (1, 4)] {
                for off in 0..base {
                    // scrambled, with runs (div > 1) and with long sorted / reversed stretches (mul == 1)
                    jobs.push((0..len).map(|i| (off + mul * i + i / div * 3) % base).collect());
                    jobs.push((0..len).map(|i| (off + mul * (len - i) + (i * i) % 5) % base).collect());
                }
            }
        }
        acc.count("long_filter_input_lists", jobs.len() as u64);
        par_chunks(jobs.len() as u64, 4, &acc, |r, l| {
            let env = Environment::new();
            for j in r {
                check_filters_on_list(&env, &jobs[j as usize], &fa, &acc, l);
            }
        });
    }
    {
        let env = Environment::new();
        check_reverse_shapes(&env, &acc);
    }
    acc.sample(json!({"pair": ["i64:2^63-1", "f2^63"], "laws": ["antisymmetry", "eq_iff_cmp_equal", "eq_implies_same_hash", "operator_consistency", "lookup_consistency"]}));
    acc.sample(json!({"triple": ["u64:2^63", "f2^63", "i64:2^63-1"], "laws": ["le_transitivity", "eq_transitivity"]}));
    acc.sample(json!({"list": "[1, 1.0, 'a', 'A']", "filters": ["sort x4 option combos", "sort(attribute)", "groupby", "unique x2", "batch/slice n=1..6 +-fill", "min", "max", "reverse"]}));
    finish(
        Finish {
            property: "C07",
            level: "exploration",
            tier: args.tier,
            seed: args.seed,
            rule: format!("all ordered pairs ({n}^2) and all ordered triples ({n}^3) of the {n}-value edge alphabet (every kind; every integer representation at the boundaries{}; floats incl. +-0, inf, NaN, 2^53/2^63/2^64/2^127/2^128; plain/small/safe strings; bytes; lists; tuples; sized and unsized lazy iterables; maps by two construction routes; plain objects; one nesting level) for reflexivity, antisymmetry, eq symmetry, eq<=>cmp==Equal, eq=>hash, <= and == transitivity, agreement of the template operators < <= > >= == != in and of map lookup with the Value-level answers; all lists of length 0..={maxlen} over an 8-value mixed alphabet through sort (4 option combos + attribute), groupby, unique (2), batch and slice (n=1..6, with and without fill), min, max, reverse, each against its defining law; cyclic long lists (21/33/64) through sort/unique/min/max; 800 scrambled long lists (lengths 21..300, thorough 1000, around the thresholds at which library sorts change algorithm) through the complete law set of the short lists; reverse on 11 enumerator shapes. distinct non-trivial = distinct equal pairs + distinct filter input lists", if full { "" } else { " (quick: narrowest+widest)" }),
            exhaustive: true,
            bound: json!({"alphabet_size": n, "alphabet": alpha.iter().map(|x| x.name.clone()).collect::<Vec<_>>(), "filter_alphabet": fa.iter().map(|x| x.name.clone()).collect::<Vec<_>>(), "max_list_len": maxlen}),
            assumptions: vec![
                "NaN is exempt from eq<=>cmp and reflexivity of == (the property says 'NaN aside')".into(),
                "one-shot iterators are excluded from the law alphabet (comparison consumes them)".into(),
                "the preserve_order (IndexMap) build is not exercised by this binary".into(),
            ],
            extra: Default::default(),
            start: start_t,
        },
        &acc,
    )
}
