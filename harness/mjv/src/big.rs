//! Minimal arbitrary-precision signed integer used as the arithmetic oracle (C08, C07).
//! Sign-magnitude, little-endian u32 limbs, no leading zero limbs; zero is non-negative.
use std::cmp::Ordering;

#[derive(Clone, Debug, PartialEq, Eq, Hash)]
pub struct Big {
    pub neg: bool,
    pub mag: Vec<u32>,
}

fn trim(v: &mut Vec<u32>) {
    while v.last() == Some(&0) {
        v.pop();
    }
}

fn cmp_mag(a: &[u32], b: &[u32]) -> Ordering {
    if a.len() != b.len() {
        return a.len().cmp(&b.len());
    }
    for i in (0..a.len()).rev() {
        if a[i] != b[i] {
            return a[i].cmp(&b[i]);
        }
    }
    Ordering::Equal
}

fn add_mag(a: &[u32], b: &[u32]) -> Vec<u32> {
    let mut out = Vec::with_capacity(a.len().max(b.len()) + 1);
    let mut carry = 0u64;
    for i in 0..a.len().max(b.len()) {
        let s = carry + *a.get(i).unwrap_or(&0) as u64 + *b.get(i).unwrap_or(&0) as u64;
        out.push(s as u32);
        carry = s >> 32;
    }
    if carry > 0 {
        out.push(carry as u32);
    }
    out
}

/// a - b, requires a >= b
fn sub_mag(a: &[u32], b: &[u32]) -> Vec<u32> {
    let mut out = Vec::with_capacity(a.len());
    let mut borrow = 0i64;
    for i in 0..a.len() {
        let mut d = a[i] as i64 - borrow - *b.get(i).unwrap_or(&0) as i64;
        if d < 0 {
            d += 1 << 32;
            borrow = 1;
        } else {
            borrow = 0;
        }
        out.push(d as u32);
    }
    assert_eq!(borrow, 0);
    trim(&mut out);
    out
}

fn mul_mag(a: &[u32], b: &[u32]) -> Vec<u32> {
    if a.is_empty() || b.is_empty() {
        return vec![];
    }
    let mut out = vec![0u32; a.len() + b.len()];
    for i in 0..a.len() {
        let mut carry = 0u64;
        for j in 0..b.len() {
            let t = out[i + j] as u64 + a[i] as u64 * b[j] as u64 + carry;
            out[i + j] = t as u32;
            carry = t >> 32;
        }
        let mut k = i + b.len();
        while carry > 0 {
            let t = out[k] as u64 + carry;
            out[k] = t as u32;
            carry = t >> 32;
            k += 1;
        }
    }
    trim(&mut out);
    out
}

fn bits_mag(a: &[u32]) -> usize {
    match a.last() {
        None => 0,
        Some(top) => (a.len() - 1) * 32 + (32 - top.leading_zeros() as usize),
    }
}

fn shl1_add(a: &mut Vec<u32>, bit: u32) {
    let mut carry = bit;
    for limb in a.iter_mut() {
        let n = (*limb << 1) | carry;
        carry = *limb >> 31;
        *limb = n;
    }
    if carry > 0 {
        a.push(carry);
    }
}

/// magnitude division: (q, r) with a = q*b + r, 0 <= r < b; b != 0
fn divmod_mag(a: &[u32], b: &[u32]) -> (Vec<u32>, Vec<u32>) {
    assert!(!b.is_empty());
    let nbits = bits_mag(a);
    let mut q = vec![0u32; a.len()];
    let mut r: Vec<u32> = vec![];
    for i in (0..nbits).rev() {
        let bit = (a[i / 32] >> (i % 32)) & 1;
        shl1_add(&mut r, bit);
        trim(&mut r);
        if cmp_mag(&r, b) != Ordering::Less {
            r = sub_mag(&r, b);
            q[i / 32] |= 1 << (i % 32);
        }
    }
    trim(&mut q);
    (q, r)
}

impl Big {
    pub fn zero() -> Big {
        Big { neg: false, mag: vec![] }
    }
    pub fn from_u128(v: u128) -> Big {
        let mut mag = vec![v as u32, (v >> 32) as u32, (v >> 64) as u32, (v >> 96) as u32];
        trim(&mut mag);
        Big { neg: false, mag }
    }
    pub fn from_i128(v: i128) -> Big {
        let mut b = Big::from_u128(v.unsigned_abs());
        b.neg = v < 0;
        b
    }
    pub fn is_zero(&self) -> bool {
        self.mag.is_empty()
    }
    pub fn bits(&self) -> usize {
        bits_mag(&self.mag)
    }
    fn norm(mut self) -> Big {
        trim(&mut self.mag);
        if self.mag.is_empty() {
            self.neg = false;
        }
        self
    }
    pub fn negate(&self) -> Big {
        Big { neg: !self.neg, mag: self.mag.clone() }.norm()
    }
    pub fn abs(&self) -> Big {
        Big { neg: false, mag: self.mag.clone() }
    }
    pub fn add(&self, o: &Big) -> Big {
        if self.neg == o.neg {
            return Big { neg: self.neg, mag: add_mag(&self.mag, &o.mag) }.norm();
        }
        match cmp_mag(&self.mag, &o.mag) {
            Ordering::Equal => Big::zero(),
            Ordering::Greater => Big { neg: self.neg, mag: sub_mag(&self.mag, &o.mag) }.norm(),
            Ordering::Less => Big { neg: o.neg, mag: sub_mag(&o.mag, &self.mag) }.norm(),
        }
    }
    pub fn sub(&self, o: &Big) -> Big {
        self.add(&o.negate())
    }
    pub fn mul(&self, o: &Big) -> Big {
        Big { neg: self.neg != o.neg, mag: mul_mag(&self.mag, &o.mag) }.norm()
    }
    /// Euclidean division: self = q*o + r with 0 <= r < |o|
    pub fn div_rem_euclid(&self, o: &Big) -> Option<(Big, Big)> {
        if o.is_zero() {
            return None;
        }
        let (q, r) = divmod_mag(&self.mag, &o.mag);
        let mut q = Big { neg: self.neg != o.neg, mag: q }.norm();
        let mut r = Big { neg: self.neg, mag: r }.norm();
        if r.neg {
            // r < 0: make it positive by adding |o| and adjusting q away from zero
            r = r.add(&o.abs());
            q = if o.neg { q.add(&Big::from_i128(1)) } else { q.sub(&Big::from_i128(1)) };
        }
        Some((q, r))
    }
    /// self ** e; None when the result would exceed `max_bits`
    pub fn pow(&self, e: u64, max_bits: usize) -> Option<Big> {
        let mut result = Big::from_i128(1);
        if e == 0 {
            return Some(result);
        }
        if self.is_zero() {
            return Some(Big::zero());
        }
        if self.mag == [1] {
            return Some(if self.neg && e % 2 == 1 { Big::from_i128(-1) } else { Big::from_i128(1) });
        }
        // |self| >= 2 so the result has at least e bits
        if e as usize > max_bits {
            return None;
        }
        for _ in 0..e {
            result = result.mul(self);
            if result.bits() > max_bits {
                return None;
            }
        }
        Some(result)
    }
    pub fn parse(s: &str) -> Option<Big> {
        let (neg, digits) = match s.strip_prefix('-') {
            Some(r) => (true, r),
            None => (false, s),
        };
        if digits.is_empty() || !digits.bytes().all(|b| b.is_ascii_digit()) {
            return None;
        }
        let mut mag: Vec<u32> = vec![];
        for d in digits.bytes() {
            let mut carry = (d - b'0') as u64;
            for limb in mag.iter_mut() {
                let t = *limb as u64 * 10 + carry;
                *limb = t as u32;
                carry = t >> 32;
            }
            if carry > 0 {
                mag.push(carry as u32);
            }
        }
        Some(Big { neg, mag }.norm())
    }
    pub fn to_i128(&self) -> Option<i128> {
        if self.bits() > 128 {
            return None;
        }
        let mut v: u128 = 0;
        for (i, l) in self.mag.iter().enumerate() {
            v |= (*l as u128) << (32 * i);
        }
        if self.neg {
            if v <= (1u128 << 127) {
                Some((v as i128).wrapping_neg())
            } else {
                None
            }
        } else if v < (1u128 << 127) {
            Some(v as i128)
        } else {
            None
        }
    }
    pub fn fits_i128(&self) -> bool {
        self.to_i128().is_some()
    }
    /// exact value of a finite float with zero fractional part
    pub fn from_f64_integral(f: f64) -> Option<Big> {
        if !f.is_finite() || f.fract() != 0.0 {
            return None;
        }
        let bits = f.to_bits();
        let exp = ((bits >> 52) & 0x7ff) as i64;
        let frac = bits & ((1u64 << 52) - 1);
        if exp == 0 {
            return Some(Big::zero()); // zero or subnormal with zero fract => 0
        }
        let mant = frac | (1u64 << 52);
        let e = exp - 1075;
        let mut b = Big::from_u128(mant as u128);
        if e >= 0 {
            for _ in 0..e {
                b = b.add(&b.clone());
            }
        } else {
            let (q, _r) = b.div_rem_euclid(&Big::from_i128(2).pow((-e) as u64, 4096)?)?;
            b = q;
        }
        b.neg = f < 0.0 && !b.is_zero();
        Some(b)
    }
}

impl PartialOrd for Big {
    fn partial_cmp(&self, o: &Big) -> Option<Ordering> {
        Some(self.cmp(o))
    }
}

impl Ord for Big {
    fn cmp(&self, o: &Big) -> Ordering {
        match (self.neg, o.neg) {
            (false, true) => Ordering::Greater,
            (true, false) => Ordering::Less,
            (false, false) => cmp_mag(&self.mag, &o.mag),
            (true, true) => cmp_mag(&o.mag, &self.mag),
        }
    }
}

impl std::fmt::Display for Big {
    fn fmt(&self, f: &mut std::fmt::Formatter<'_>) -> std::fmt::Result {
        if self.is_zero() {
            return write!(f, "0");
        }
        let mut digits = vec![];
        let mut mag = self.mag.clone();
        while !mag.is_empty() {
            let mut rem = 0u64;
            for limb in mag.iter_mut().rev() {
                let t = (rem << 32) | *limb as u64;
                *limb = (t / 10) as u32;
                rem = t % 10;
            }
            trim(&mut mag);
            digits.push(b'0' + rem as u8);
        }
        if self.neg {
            digits.push(b'-');
        }
        digits.reverse();
        write!(f, "{}", String::from_utf8(digits).unwrap())
    }
}

/// Self-test against native i128 arithmetic on a boundary grid (run at start of C08).
pub fn self_test() {
    let vals: Vec<i128> = vec![
        0, 1, -1, 2, -2, 3, 7, -7, 10, 255, 256, 65535, 65536, 1 << 31, (1 << 32) - 1, 1 << 32, (1 << 32) + 1,
        -(1 << 32), 1 << 53, (1 << 63) - 1, 1 << 63, -(1 << 63), (1 << 64) - 1, 1 << 64, 1 << 100,
        i128::MAX / 3, i128::MAX, i128::MIN, i128::MIN + 1, 999999999999999999999, -123456789012345678901234567890,
    ];
    for &a in &vals {
        let ba = Big::from_i128(a);
        assert_eq!(ba.to_string(), a.to_string());
        assert_eq!(Big::parse(&a.to_string()).unwrap(), ba);
        assert_eq!(ba.to_i128(), Some(a));
        for &b in &vals {
            let bb = Big::from_i128(b);
            assert_eq!(ba.cmp(&bb), a.cmp(&b));
            match a.checked_add(b) {
                Some(c) => assert_eq!(ba.add(&bb).to_i128(), Some(c)),
                None => assert_eq!(ba.add(&bb).to_i128(), None),
            }
            match a.checked_sub(b) {
                Some(c) => assert_eq!(ba.sub(&bb).to_i128(), Some(c)),
                None => assert_eq!(ba.sub(&bb).to_i128(), None),
            }
            match a.checked_mul(b) {
                Some(c) => assert_eq!(ba.mul(&bb).to_i128(), Some(c), "{} * {}", a, b),
                None => assert_eq!(ba.mul(&bb).to_i128(), None),
            }
            if b != 0 {
                let (q, r) = ba.div_rem_euclid(&bb).unwrap();
                match a.checked_div_euclid(b) {
                    Some(c) => assert_eq!(q.to_i128(), Some(c), "{} // {}", a, b),
                    None => assert_eq!(q.to_i128(), None),
                }
                match a.checked_rem_euclid(b) {
                    Some(c) => assert_eq!(r.to_i128(), Some(c), "{} % {}", a, b),
                    None => {
                        // i128::MIN % -1 overflows natively, the exact answer is 0
                        assert!(r.is_zero());
                    }
                }
                assert_eq!(q.mul(&bb).add(&r), ba);
            } else {
                assert!(ba.div_rem_euclid(&bb).is_none());
            }
        }
        for e in 0..6u32 {
            match a.checked_pow(e) {
                Some(c) => assert_eq!(ba.pow(e as u64, 1000).unwrap().to_i128(), Some(c)),
                None => assert!(!ba.pow(e as u64, 1000).unwrap().fits_i128()),
            }
        }
    }
    assert_eq!(Big::from_f64_integral(9223372036854775808.0).unwrap().to_string(), "9223372036854775808");
    assert_eq!(Big::from_f64_integral(-3.0).unwrap().to_string(), "-3");
    assert_eq!(Big::from_f64_integral(1e22).unwrap().to_string(), "10000000000000000000000");
    assert_eq!(
        Big::from_u128(u128::MAX).add(&Big::from_u128(u128::MAX)).to_string(),
        "680564733841876926926749214863536422910"
    );
}
