//! C06 — inheritance, super(), include and import compose templates as specified.
//! Reference resolver for block chains + enumerated include/import/error families.
use crate::core::*;
use minijinja::value::Value;
use minijinja::{context, Environment, ErrorKind};
use serde_json::json;
use std::collections::BTreeMap;

// ---------------------------------------------------------------------------------------------
// reference resolver

#[derive(Clone, Debug)]
enum Item {
    Text(String),
    /// `{{ flaky() }}`: prints nothing, but the call with the configured number fails
    Flaky,
    Super,
    Block(String, Vec<Item>),
}

#[derive(Clone, Debug)]
struct Tmpl {
    name: String,
    /// source text of the extends tag (empty when none) and the parent it resolves to when taken
    extends_src: String,
    parent: Option<usize>,
    top: Vec<Item>,
}

fn collect_blocks(items: &[Item], out: &mut Vec<(String, Vec<Item>)>) {
    for it in items {
        if let Item::Block(n, body) = it {
            out.push((n.clone(), body.clone()));
            collect_blocks(body, out);
        }
    }
}

fn items_src(items: &[Item]) -> String {
    let mut s = String::new();
    for it in items {
        match it {
            Item::Text(t) => s.push_str(t),
            Item::Flaky => s.push_str("{{ flaky() }}"),
            Item::Super => s.push_str("{{ super() }}"),
            Item::Block(n, body) => {
                s.push_str(&format!("{{% block {} %}}", n));
                s.push_str(&items_src(body));
                s.push_str("{% endblock %}");
            }
        }
    }
    s
}

fn tmpl_src(t: &Tmpl) -> String {
    format!("{}{}", t.extends_src, items_src(&t.top))
}

/// what the flaky() calls do: the call with number `fail_at` (1-based, counted over the whole life of
/// the state) fails, every other one prints nothing
struct Flaky {
    calls: u32,
    fail_at: u32,
}

fn block_defs(templates: &[Tmpl]) -> Result<(Vec<usize>, BTreeMap<String, Vec<Vec<Item>>>), String> {
    // chain from most derived to root
    let mut chain = vec![0usize];
    while let Some(p) = templates[*chain.last().unwrap()].parent {
        if chain.contains(&p) {
            return Err("cycle".into());
        }
        chain.push(p);
    }
    let mut defs: BTreeMap<String, Vec<Vec<Item>>> = BTreeMap::new();
    for &ti in &chain {
        let mut bl = vec![];
        collect_blocks(&templates[ti].top, &mut bl);
        for (n, body) in bl {
            defs.entry(n).or_default().push(body);
        }
    }
    Ok((chain, defs))
}

fn render_block_ref(name: &str, depth: usize, defs: &BTreeMap<String, Vec<Vec<Item>>>, out: &mut String, fl: &mut Flaky) -> Result<(), String> {
    let body = defs.get(name).and_then(|d| d.get(depth)).ok_or_else(|| "no parent block exists".to_string())?;
    for it in body {
        match it {
            Item::Text(t) => out.push_str(t),
            Item::Flaky => {
                fl.calls += 1;
                if fl.calls == fl.fail_at {
                    return Err("flaky".into());
                }
            }
            Item::Super => render_block_ref(name, depth + 1, defs, out, fl)?,
            // a block tag inside a block body renders the most derived definition of that block
            Item::Block(n, _) => render_block_ref(n, 0, defs, out, fl)?,
        }
    }
    Ok(())
}

fn resolve_with(templates: &[Tmpl], fl: &mut Flaky) -> Result<String, String> {
    let (chain, defs) = block_defs(templates)?;
    let root = &templates[*chain.last().unwrap()];
    let mut out = String::new();
    for it in &root.top {
        match it {
            Item::Text(t) => out.push_str(t),
            Item::Flaky => {
                fl.calls += 1;
                if fl.calls == fl.fail_at {
                    return Err("flaky".into());
                }
            }
            Item::Super => return Err("super outside of block".into()),
            Item::Block(n, _) => render_block_ref(n, 0, &defs, &mut out, fl)?,
        }
    }
    Ok(out)
}

/// expected output of rendering templates[0]; Err = the render must fail
fn resolve(templates: &[Tmpl]) -> Result<String, String> {
    resolve_with(templates, &mut Flaky { calls: 0, fail_at: 0 })
}

// ---------------------------------------------------------------------------------------------
// chain enumeration

const MODES: usize = 5; // absent, override, super-before, super-after, super-twice

fn block_def(name: &str, level: usize, mode: usize) -> Option<Item> {
    let tag = format!("{}{}", name.to_uppercase(), level);
    let body = match mode {
        0 => return None,
        1 => vec![Item::Text(format!("[{}]", tag))],
        2 => vec![Item::Super, Item::Text(format!("[{}]", tag))],
        3 => vec![Item::Text(format!("[{}", tag)), Item::Super, Item::Text("]".into())],
        _ => vec![Item::Super, Item::Text(format!("|{}|", tag)), Item::Super],
    };
    Some(Item::Block(name.to_string(), body))
}

fn base_template(level: usize, with_c: bool) -> Tmpl {
    let mut top = vec![
        Item::Text("H".into()),
        Item::Block(
            "a".into(),
            vec![Item::Text(format!("<A{}", level)), Item::Block("b".into(), vec![Item::Text(format!("(B{})", level))]), Item::Text(">".into())],
        ),
        Item::Text("M".into()),
    ];
    if with_c {
        top.push(Item::Block("c".into(), vec![Item::Text(format!("<C{}>", level))]));
    }
    top.push(Item::Text("F".into()));
    Tmpl { name: format!("t{}", level), extends_src: String::new(), parent: None, top }
}

#[derive(Clone, Copy, Debug, PartialEq)]
enum ExtForm {
    Static,
    Dynamic,
    CondTaken,
    CondNotTaken,
}

fn build_chain(len: usize, code: u64, with_c: bool, form: ExtForm) -> Vec<Tmpl> {
    // templates t0 (most derived) .. t(len-1) (base); `code` assigns a mode to (level, block)
    let mut v = vec![];
    let mut k = code;
    for level in 0..len - 1 {
        let mut top = vec![Item::Text(format!("junk{}", level))];
        for name in ["a", "b", "c"] {
            let mode = (k % MODES as u64) as usize;
            k /= MODES as u64;
            if let Some(b) = block_def(name, level, mode) {
                top.push(b);
            }
        }
        let parent_name = format!("t{}", level + 1);
        let (src, parent) = if level == 0 {
            match form {
                ExtForm::Static => (format!("{{% extends '{}' %}}", parent_name), Some(level + 1)),
                ExtForm::Dynamic => ("{% extends parent %}".to_string(), Some(level + 1)),
                ExtForm::CondTaken => (format!("{{% if yes %}}{{% extends '{}' %}}{{% endif %}}", parent_name), Some(level + 1)),
                ExtForm::CondNotTaken => (format!("{{% if no %}}{{% extends '{}' %}}{{% endif %}}", parent_name), None),
            }
        } else {
            (format!("{{% extends '{}' %}}", parent_name), Some(level + 1))
        };
        v.push(Tmpl { name: format!("t{}", level), extends_src: src, parent, top });
    }
    v.push(base_template(len - 1, with_c));
    v
}

/// how the chain's most derived template is reached and its output observed:
/// (name, host template `h` ("" = render t0 directly), host base `hb`, expected output from the chain's)
const REACHES: &[(&str, &str, &str)] = &[
    ("direct", "", ""),
    ("included", "x{% include 't0' %}y", ""),
    ("included_in_child_block", "{% extends 'hb' %}{% block hbk %}{% include 't0' %}{% endblock %}", "<{% block hbk %}{% endblock %}>"),
    ("captured_at_top_of_extending_host", "{% extends 'hb' %}{% set cap %}{% include 't0' %}{% endset %}{% block hbk %}{{ cap }}{% endblock %}", "<{% block hbk %}{% endblock %}>"),
    ("captured", "{% set cap %}{% include 't0' %}{% endset %}[{{ cap }}]", ""),
    ("in_macro_twice", "{% macro q() %}{% include 't0' %}{% endmacro %}{{ q() }}|{{ q() }}", ""),
    ("in_loop_twice", "{% for i in [1, 2] %}{% include 't0' %}{% endfor %}", ""),
    ("filtered_capture_at_top_of_extending_host", "{% extends 'hb' %}{% set cap %}{% filter lower %}{% include 't0' %}{% endfilter %}{% endset %}{% block hbk %}{{ cap }}{% endblock %}", "<{% block hbk %}{% endblock %}>"),
    ("call_block_capture_at_top_of_extending_host", "{% extends 'hb' %}{% macro w() %}{{ caller() }}{% endmacro %}{% set cap %}{% call w() %}{% include 't0' %}{% endcall %}{% endset %}{% block hbk %}{{ cap }}{% endblock %}", "<{% block hbk %}{% endblock %}>"),
    // the host's own inheritance chain is loaded while the chain under test is included, twice, from a
    // host whose names sort before (hb) and after (zzb) the names of the chain (t0, t1, ...)
    ("included_twice_in_child_block", "{% extends 'hb' %}{% block hbk %}{% include 't0' %}|{% include 't0' %}{% endblock %}", "<{% block hbk %}{% endblock %}>"),
    ("included_twice_in_child_block_of_late_named_host", "{% extends 'zzb' %}{% block hbk %}{% include 't0' %}|{% include 't0' %}{% endblock %}", "ZZB:<{% block hbk %}{% endblock %}>"),
    ("imported_twice_in_late_named_host", "{% extends 'zzb' %}{% block hbk %}{% import 't0' as ma %}{% import 't0' as mb %}{% include 't0' %}{% endblock %}", "ZZB:<{% block hbk %}{% endblock %}>"),
    // the host shares ancestors with the chain it includes: it extends the chain's root (ROOT = the
    // root's name), or the chain's most derived template itself, and includes t0 from its own block a -
    // a page and a widget built on the same layout.  An include starts an inheritance chain of its own.
    ("included_in_block_of_host_extending_the_chains_root", "{% extends 'ROOT' %}{% block a %}{% include 't0' %}{% endblock %}", ""),
    ("included_twice_in_block_of_host_extending_the_chain", "{% extends 't0' %}{% block a %}{% include 't0' %}|{% include 't0' %}{% endblock %}", ""),
    // the most derived template comes as a string (render_named_str) under a name that a template of
    // the environment already has: its own parent's (a page rendered from an edited copy), or its own
    ("from_string_under_its_parents_name", "", ""),
    ("from_string_under_its_own_name", "", ""),
];

/// expectation for the reaches whose host is itself part of the chain's family: the host is one more
/// template on top of the chain (or of its root) whose block a holds the chain's own rendering
fn reach_expect_shared(reach: usize, templates: &[Tmpl], out: &str) -> Result<String, String> {
    let root = templates.len() - 1;
    let (body, mut rest): (Vec<Item>, Vec<Tmpl>) = if reach == 12 {
        (vec![Item::Text(out.to_string())], vec![templates[root].clone()])
    } else {
        (vec![Item::Text(format!("{}|{}", out, out))], templates.to_vec())
    };
    // parents are indices into the slice: shift by one for the host in front
    for t in rest.iter_mut() {
        t.parent = if reach == 12 { None } else { t.parent.map(|p| p + 1) };
    }
    let mut v = vec![Tmpl { name: "h".into(), extends_src: String::new(), parent: Some(1), top: vec![Item::Block("a".into(), body)] }];
    v.append(&mut rest);
    resolve(&v)
}

fn reach_expect(reach: usize, out: &str) -> String {
    match reach {
        0 => out.to_string(),
        1 => format!("x{}y", out),
        2 | 3 | 8 => format!("<{}>", out),
        9 => format!("<{}|{}>", out, out),
        10 => format!("<{}|{}>", out, out),
        11 => format!("<{}>", out),
        4 => format!("[{}]", out),
        5 => format!("{}|{}", out, out),
        6 => format!("{}{}", out, out),
        14 | 15 => out.to_string(),
        _ => format!("<{}>", out.to_lowercase()),
    }
}

fn render_chain(templates: &[Tmpl], reach: usize) -> Result<Result<String, ErrorKind>, String> {
    catch(|| {
        let mut env = Environment::new();
        for t in templates {
            env.add_template_owned(t.name.clone(), tmpl_src(t)).map_err(|e| e.kind())?;
        }
        let (_, host, base) = REACHES[reach];
        let host_src = host.replace("ROOT", &templates[templates.len() - 1].name);
        if !host.is_empty() {
            env.add_template_owned("h", host_src).map_err(|e| e.kind())?;
        }
        if !base.is_empty() {
            // the reach's host template names its base itself: "hb" or "zzb"
            let base_name = if host.contains("'zzb'") { "zzb" } else { "hb" };
            let base_src = base.strip_prefix("ZZB:").unwrap_or(base);
            env.add_template(base_name, base_src).map_err(|e| e.kind())?;
        }
        if reach == 14 || reach == 15 {
            let name = if reach == 14 && templates.len() > 1 { templates[1].name.clone() } else { "t0".to_string() };
            return env.render_named_str(&name, &tmpl_src(&templates[0]), context! { parent => "t1", yes => true, no => false }).map_err(|e| e.kind());
        }
        let tm = env.get_template(if host.is_empty() { "t0" } else { "h" }).map_err(|e| e.kind())?;
        tm.render(context! { parent => "t1", yes => true, no => false }).map_err(|e| e.kind())
    })
}

fn check_chain(len: usize, code: u64, with_c: bool, form: ExtForm, reach: usize, acc: &Acc, l: &mut Local) {
    let templates = build_chain(len, code, with_c, form);
    l.evals += 1;
    let want = resolve(&templates).and_then(|o| if reach == 12 || reach == 13 { reach_expect_shared(reach, &templates, &o) } else { Ok(reach_expect(reach, &o)) });
    let got = render_chain(&templates, reach);
    let mk = |clause: &str, detail: String| Failure {
        key: format!("inheritance {} chain_len={} extends={:?} reach={}", clause, len, form, REACHES[reach].0),
        case: format!("len={} code={} with_c={} form={:?} reach={}", len, code, with_c, form, REACHES[reach].0),
        detail,
        replay: json!({"kind": "chain", "len": len, "code": code, "with_c": with_c, "form": format!("{:?}", form), "reach": reach, "host": REACHES[reach].1, "host_base": REACHES[reach].2, "templates": templates.iter().map(|t| (t.name.clone(), tmpl_src(t))).collect::<Vec<_>>()}),
    };
    match (got, want) {
        (Err(p), _) => acc.fail(mk("panic", format!("{} at {}", p, last_panic_loc()))),
        (Ok(Ok(a)), Ok(b)) => {
            if a == b {
                l.outcome("chain renders as resolved");
                l.nontrivial.insert(fnv(format!("{}|{}|{}|{:?}|{}", len, code, with_c, form, reach).as_bytes()));
            } else {
                acc.fail(mk("output_differs", format!("engine {:?} but resolver {:?}", a, b)));
            }
        }
        (Ok(Err(_)), Err(_)) => l.outcome("both fail (super without parent)"),
        (Ok(Err(k)), Ok(b)) => acc.fail(mk("engine_fails", format!("engine error {:?} but resolver renders {:?}", k, b))),
        (Ok(Ok(a)), Err(why)) => acc.fail(mk("engine_succeeds", format!("engine renders {:?} but the chain must fail: {}", a, why))),
    }
}

/// block fragments through a reused state: after a full render the embedder renders single blocks
/// through the same state, each twice, once with a call in the root's block `a` that fails exactly
/// once; a fragment that failed must leave the state as it was
fn check_fragments(len: usize, code: u64, with_c: bool, fail_at: u32, acc: &Acc, l: &mut Local) {
    let mut templates = build_chain(len, code, with_c, ExtForm::Static);
    // the root's block a gets the flaky call behind its own text
    let root = templates.len() - 1;
    for it in templates[root].top.iter_mut() {
        if let Item::Block(n, body) = it {
            if n == "a" {
                body.push(Item::Flaky);
            }
        }
    }
    l.evals += 1;
    // reference: the same counter runs through the full render and the fragments that follow
    let mut fl = Flaky { calls: 0, fail_at };
    let want_main = resolve_with(&templates, &mut fl);
    let mut want = vec![];
    if want_main.is_ok() {
        if let Ok((_, defs)) = block_defs(&templates) {
            for name in ["a", "b", "c", "a", "b"] {
                let mut out = String::new();
                let r = render_block_ref(name, 0, &defs, &mut out, &mut fl).map(|_| out);
                want.push((name, if defs.contains_key(name) { r } else { Err("unknown block".into()) }));
            }
        }
    }
    let got = catch(|| {
        let mut env = Environment::new();
        let calls = std::sync::Arc::new(std::sync::atomic::AtomicU32::new(0));
        env.add_function("flaky", move || -> Result<String, minijinja::Error> {
            let n = calls.fetch_add(1, std::sync::atomic::Ordering::SeqCst) + 1;
            if n == fail_at {
                Err(minijinja::Error::new(ErrorKind::InvalidOperation, "flaky"))
            } else {
                Ok(String::new())
            }
        });
        for t in &templates {
            env.add_template_owned(t.name.clone(), tmpl_src(t)).map_err(|e| format!("{:?}", e.kind()))?;
        }
        let tm = env.get_template("t0").map_err(|e| format!("{:?}", e.kind()))?;
        let mut cap = tm.render_captured(context! { parent => "t1", yes => true, no => false }).map_err(|e| format!("{:?}", e.kind()))?;
        let mut frags = vec![];
        for name in ["a", "b", "c", "a", "b"] {
            frags.push((name, cap.with_state_mut(|st| st.render_block(name)).map_err(|e| format!("{:?}", e.kind()))));
        }
        Ok::<_, String>((cap.output().to_string(), frags))
    });
    let mk = |clause: &str, detail: String| Failure {
        key: format!("inheritance fragments_{} chain_len={} flaky_call={}", clause, len, fail_at),
        case: format!("len={} code={} with_c={} fail_at={}", len, code, with_c, fail_at),
        detail,
        replay: json!({"kind": "fragments", "len": len, "code": code, "with_c": with_c, "fail_at": fail_at, "templates": templates.iter().map(|t| (t.name.clone(), tmpl_src(t))).collect::<Vec<_>>()}),
    };
    match (got, want_main) {
        (Err(p), _) => acc.fail(mk("panic", format!("{} at {}", p, last_panic_loc()))),
        (Ok(Err(_)), Err(_)) => l.outcome("full render fails as resolved"),
        (Ok(Err(e)), Ok(w)) => acc.fail(mk("engine_fails", format!("full render fails with {} but resolves to {:?}", e, w))),
        (Ok(Ok((out, _))), Err(why)) => acc.fail(mk("engine_succeeds", format!("full render gives {:?} but must fail: {}", out, why))),
        (Ok(Ok((out, frags))), Ok(w)) => {
            if out != w {
                acc.fail(mk("output_differs", format!("full render {:?} but resolver {:?}", out, w)));
                return;
            }
            for ((name, g), (_, e)) in frags.iter().zip(want.iter()) {
                let same = match (g, e) {
                    (Ok(a), Ok(b)) => a == b,
                    (Err(_), Err(_)) => true,
                    _ => false,
                };
                if !same {
                    acc.fail(mk("differ", format!("fragments in order a, b, c, a, b: engine {:?} but resolver {:?} (first difference at block {})", frags, want, name)));
                    return;
                }
            }
            l.outcome("fragments through the reused state as resolved");
            l.nontrivial.insert(fnv(format!("frag|{}|{}|{}|{}", len, code, with_c, fail_at).as_bytes()));
        }
    }
}

// ---------------------------------------------------------------------------------------------
// include / import / error families (expected values written out by hand)

struct Case {
    name: &'static str,
    templates: Vec<(&'static str, &'static str)>,
    main: &'static str,
    /// Ok(output) or Err(kind name)
    expect: Result<&'static str, &'static str>,
}

fn fixed_cases() -> Vec<Case> {
    let inc = ("inc", "[{{ v }}|{{ w }}]");
    let lib = ("lib", "{% macro m(x) %}<{{ x }}>{% endmacro %}{% set exported = 7 %}{% set _private = 8 %}text{% macro n() %}N{% endmacro %}");
    vec![
        // includes see the includer's current variables
        Case { name: "include_top", templates: vec![("main", "{% set w = 2 %}{% include 'inc' %}"), inc], main: "main", expect: Ok("[1|2]") },
        Case { name: "include_in_loop", templates: vec![("main", "{% for w in [1, 2] %}{% include 'inc' %}{% endfor %}"), inc], main: "main", expect: Ok("[1|1][1|2]") },
        Case { name: "include_in_macro", templates: vec![("main", "{% macro q(w) %}{% include 'inc' %}{% endmacro %}{{ q(5) }}"), inc], main: "main", expect: Ok("[1|5]") },
        Case { name: "include_in_block", templates: vec![("main", "{% block b %}{% set w = 3 %}{% include 'inc' %}{% endblock %}"), inc], main: "main", expect: Ok("[1|3]") },
        Case { name: "include_in_with", templates: vec![("main", "{% with w = 4 %}{% include 'inc' %}{% endwith %}{% include 'inc' %}"), inc], main: "main", expect: Ok("[1|4][1|]") },
        Case { name: "include_in_child_block", templates: vec![("main", "{% extends 'base' %}{% block b %}{% set w = 6 %}{% include 'inc' %}{% endblock %}"), ("base", "<{% block b %}{% endblock %}>"), inc], main: "main", expect: Ok("<[1|6]>") },
        // name forms
        Case { name: "include_list_first_existing", templates: vec![("main", "{% include ['nope', 'inc2', 'inc'] %}"), inc, ("inc2", "second")], main: "main", expect: Ok("second") },
        Case { name: "include_list_none_existing", templates: vec![("main", "{% include ['nope', 'nada'] %}")], main: "main", expect: Err("TemplateNotFound") },
        Case { name: "include_list_none_existing_ignore", templates: vec![("main", "a{% include ['nope', 'nada'] ignore missing %}b")], main: "main", expect: Ok("ab") },
        Case { name: "include_missing", templates: vec![("main", "a{% include 'nope' %}b")], main: "main", expect: Err("TemplateNotFound") },
        Case { name: "include_missing_ignore", templates: vec![("main", "a{% include 'nope' ignore missing %}b")], main: "main", expect: Ok("ab") },
        Case { name: "include_dynamic_name", templates: vec![("main", "{% include name %}"), inc], main: "main", expect: Ok("[1|]") },
        Case { name: "include_non_string", templates: vec![("main", "{% include 42 %}")], main: "main", expect: Err("InvalidOperation") },
        // (an empty list names no template; the engine renders nothing.  Jinja2 raises here, but the
        // property only speaks about named templates that are missing, so this is not demanded)
        Case { name: "include_empty_list", templates: vec![("main", "a{% include [] %}b")], main: "main", expect: Ok("ab") },
        Case { name: "include_empty_list_ignore", templates: vec![("main", "a{% include [] ignore missing %}b")], main: "main", expect: Ok("ab") },
        Case { name: "include_that_extends", templates: vec![("main", "x{% include 'child' %}y"), ("child", "{% extends 'base' %}{% block b %}C{% endblock %}"), ("base", "<{% block b %}{% endblock %}>")], main: "main", expect: Ok("x<C>y") },
        Case { name: "include_twice_with_inheritance", templates: vec![("main", "{% for i in [1, 2] %}{% include 'child' %}{% endfor %}"), ("child", "{% extends 'base' %}{% block b %}{{ i }}{{ super() }}{% endblock %}"), ("base", "<{% block b %}B{% endblock %}>")], main: "main", expect: Ok("<1B><2B>") },
        // imports expose exactly the top-level macros and variables
        Case { name: "import_module", templates: vec![("main", "{% import 'lib' as l %}{{ l.m(1) }}{{ l.n() }}{{ l.exported }}{{ l.nope is undefined }}"), lib], main: "main", expect: Ok("<1>N7True") },
        Case { name: "import_private_is_exposed_like_any_variable", templates: vec![("main", "{% import 'lib' as l %}{{ l._private }}"), lib], main: "main", expect: Ok("8") },
        Case { name: "import_does_not_render", templates: vec![("main", "a{% import 'lib' as l %}b"), lib], main: "main", expect: Ok("ab") },
        Case { name: "from_import", templates: vec![("main", "{% from 'lib' import m, n as nn, exported %}{{ m(2) }}{{ nn() }}{{ exported }}"), lib], main: "main", expect: Ok("<2>N7") },
        Case { name: "from_import_missing_name", templates: vec![("main", "{% from 'lib' import nope %}[{{ nope is undefined }}]"), lib], main: "main", expect: Ok("[True]") },
        Case { name: "import_in_loop", templates: vec![("main", "{% for i in [1, 2] %}{% import 'lib' as l %}{{ l.m(i) }}{% endfor %}"), lib], main: "main", expect: Ok("<1><2>") },
        Case { name: "import_in_macro", templates: vec![("main", "{% macro q() %}{% from 'lib' import m %}{{ m(9) }}{% endmacro %}{{ q() }}"), lib], main: "main", expect: Ok("<9>") },
        Case { name: "import_in_block", templates: vec![("main", "{% block b %}{% import 'lib' as l %}{{ l.m(3) }}{% endblock %}"), lib], main: "main", expect: Ok("<3>") },
        Case { name: "import_missing", templates: vec![("main", "{% import 'nope' as l %}")], main: "main", expect: Err("TemplateNotFound") },
        Case { name: "import_sees_context", templates: vec![("main", "{% import 'ctxlib' as l %}{{ l.show() }}"), ("ctxlib", "{% set captured = v %}{% macro show() %}{{ captured }}{% endmacro %}")], main: "main", expect: Ok("1") },
        // error family: each must fail with an error and terminate
        Case { name: "extends_self", templates: vec![("main", "{% extends 'main' %}")], main: "main", expect: Err("InvalidOperation") },
        Case { name: "extends_cycle_2", templates: vec![("main", "{% extends 'p' %}"), ("p", "{% extends 'main' %}")], main: "main", expect: Err("InvalidOperation") },
        Case { name: "extends_cycle_3", templates: vec![("main", "{% extends 'p' %}"), ("p", "{% extends 'q' %}"), ("q", "{% extends 'main' %}")], main: "main", expect: Err("InvalidOperation") },
        Case { name: "extends_cycle_not_through_main", templates: vec![("main", "{% extends 'p' %}"), ("p", "{% extends 'q' %}"), ("q", "{% extends 'p' %}")], main: "main", expect: Err("InvalidOperation") },
        Case { name: "include_self", templates: vec![("main", "x{% include 'main' %}")], main: "main", expect: Err("BadInclude") },
        Case { name: "include_cycle_2", templates: vec![("main", "x{% include 'p' %}"), ("p", "y{% include 'main' %}")], main: "main", expect: Err("BadInclude") },
        Case { name: "include_cycle_3", templates: vec![("main", "{% include 'p' %}"), ("p", "{% include 'q' %}"), ("q", "{% include 'main' %}")], main: "main", expect: Err("BadInclude") },
        Case { name: "double_extends", templates: vec![("main", "{% extends 'p' %}{% extends 'q' %}"), ("p", "P"), ("q", "Q")], main: "main", expect: Err("InvalidOperation") },
        Case { name: "double_extends_conditional", templates: vec![("main", "{% if true %}{% extends 'p' %}{% endif %}{% if true %}{% extends 'q' %}{% endif %}"), ("p", "P"), ("q", "Q")], main: "main", expect: Err("InvalidOperation") },
        Case { name: "missing_parent", templates: vec![("main", "{% extends 'nope' %}")], main: "main", expect: Err("TemplateNotFound") },
        Case { name: "extends_non_string", templates: vec![("main", "{% extends 42 %}")], main: "main", expect: Err("InvalidOperation") },
        Case { name: "super_without_parent", templates: vec![("main", "{% block b %}{{ super() }}{% endblock %}")], main: "main", expect: Err("InvalidOperation") },
        Case { name: "super_outside_block", templates: vec![("main", "{{ super() }}")], main: "main", expect: Err("InvalidOperation") },
        Case { name: "super_in_macro_outside_block", templates: vec![("main", "{% macro q() %}{{ super() }}{% endmacro %}{% block b %}{{ q() }}{% endblock %}")], main: "main", expect: Err("InvalidOperation") },
        Case { name: "required_block_unfilled", templates: vec![("main", "{% extends 'p' %}"), ("p", "{% block b required %}{% endblock %}")], main: "main", expect: Err("InvalidOperation") },
        Case { name: "required_block_filled", templates: vec![("main", "{% extends 'p' %}{% block b %}ok{% endblock %}"), ("p", "<{% block b required %}{% endblock %}>")], main: "main", expect: Ok("<ok>") },
        Case { name: "required_block_rendered_directly", templates: vec![("main", "{% block b required %}{% endblock %}")], main: "main", expect: Err("InvalidOperation") },
        Case { name: "error_in_parent_after_child_output", templates: vec![("main", "{% extends 'p' %}{% block b %}child{% endblock %}"), ("p", "P{% block b %}{% endblock %}{{ 1 // 0 }}")], main: "main", expect: Err("InvalidOperation") },
        Case { name: "self_block_call", templates: vec![("main", "{% block b %}B{% endblock %}|{{ self.b() }}|{{ self.b() }}")], main: "main", expect: Ok("B|B|B") },
        Case { name: "self_block_call_unknown", templates: vec![("main", "{{ self.nope() }}")], main: "main", expect: Err("UnknownBlock") },
        Case { name: "self_block_call_in_child", templates: vec![("main", "{% extends 'p' %}{% block t %}T{% endblock %}"), ("p", "<{% block t %}{% endblock %}>{{ self.t() }}")], main: "main", expect: Ok("<T>T") },
        Case { name: "block_sees_child_toplevel_set", templates: vec![("main", "{% extends 'p' %}{% set z = 5 %}{% block b %}{{ z }}{% endblock %}"), ("p", "<{% block b %}{% endblock %}>")], main: "main", expect: Ok("<5>") },
        Case { name: "text_outside_blocks_discarded", templates: vec![("main", "A{% extends 'p' %}B{% block b %}x{% endblock %}C{{ 1 }}"), ("p", "<{% block b %}{% endblock %}>")], main: "main", expect: Ok("A<x>") },
    ]
}


// ---------------------------------------------------------------------------------------------
// name-form family (generated): every composition tag x every way the target value comes about x
// every placement.  The property says "the named template (or the first existing one of a list)":
// what counts is which names the value holds, not how it is stored or produced.

const LONG_NAME: &str = "partials/a_rather_long_directory_name/inc_long_template.txt";

enum Target {
    /// candidate names in order
    Names(Vec<&'static str>),
    /// not a name at all: must be an error
    Invalid,
}

fn name_forms() -> Vec<(&'static str, &'static str, Target, bool)> {
    use Target::*;
    // (label, expression, target, single-use value)
    vec![
        ("lit", "'inc'", Names(vec!["inc"]), false),
        ("lit_missing", "'nope'", Names(vec!["nope"]), false),
        ("ctx_inline", "s_inc", Names(vec!["inc"]), false),
        ("ctx_heap", "s_long", Names(vec![LONG_NAME]), false),
        ("ctx_safe", "s_safe", Names(vec!["inc2"]), false),
        ("concat", "'in' ~ 'c'", Names(vec!["inc"]), false),
        ("concat_ctx", "s_in ~ 'c2'", Names(vec!["inc2"]), false),
        ("filter_lower", "'INC'|lower", Names(vec!["inc"]), false),
        ("filter_default", "nothing|default('inc2')", Names(vec!["inc2"]), false),
        ("cond", "'inc' if v == 1 else 'inc2'", Names(vec!["inc"]), false),
        ("subscript", "names[1]", Names(vec!["inc2"]), false),
        ("attr", "cfg.partial", Names(vec!["inc"]), false),
        ("list_lit", "['nope', 'inc2', 'inc']", Names(vec!["nope", "inc2", "inc"]), false),
        ("list_lit_single", "['inc']", Names(vec!["inc"]), false),
        ("tuple_lit", "('nope', 'inc')", Names(vec!["nope", "inc"]), false),
        ("list_lit_dynamic", "['nope', s_inc]", Names(vec!["nope", "inc"]), false),
        ("list_all_missing", "['nope', 'nada']", Names(vec!["nope", "nada"]), false),
        ("ctx_list", "names", Names(vec!["nope", "inc2", "inc"]), false),
        ("ctx_tuple", "names_t", Names(vec!["nope", "inc"]), false),
        ("ctx_list_heap_first", "names_long", Names(vec!["nope", LONG_NAME, "inc"]), false),
        ("slice_tail", "names[1:]", Names(vec!["inc2", "inc"]), false),
        ("slice_head", "names[:2]", Names(vec!["nope", "inc2"]), false),
        ("slice_last", "names[2:]", Names(vec!["inc"]), false),
        ("slice_rev", "names[::-1]", Names(vec!["inc", "inc2", "nope"]), false),
        ("reverse", "names|reverse", Names(vec!["inc", "inc2", "nope"]), false),
        ("list_filter", "names|list", Names(vec!["nope", "inc2", "inc"]), false),
        ("map_string", "names|map('string')", Names(vec!["nope", "inc2", "inc"]), false),
        ("map_lower", "['NOPE', 'INC']|map('lower')", Names(vec!["nope", "inc"]), false),
        ("select", "names|select('string')", Names(vec!["nope", "inc2", "inc"]), false),
        ("reject", "names|reject('eq', 'inc2')", Names(vec!["nope", "inc"]), false),
        ("concat_lists", "['nope'] + names[2:]", Names(vec!["nope", "inc"]), false),
        ("unique", "['nope', 'nope', 'inc']|unique", Names(vec!["nope", "inc"]), false),
        ("sort", "['nope', 'inc']|sort", Names(vec!["inc", "nope"]), false),
        ("batch_first", "names|batch(2)|first", Names(vec!["nope", "inc2"]), false),
        ("host_iterable", "lazy", Names(vec!["nope", "inc2", "inc"]), false),
        ("host_iterable_unsized", "lazy_unsized", Names(vec!["nope", "inc"]), false),
        ("host_one_shot", "oneshot", Names(vec!["nope", "inc"]), true),
        ("split", "'nope,inc'|split(',')", Names(vec!["nope", "inc"]), false),
        ("int", "42", Invalid, false),
        ("float", "4.5", Invalid, false),
        ("bool", "true", Invalid, false),
    ]
}

fn name_form_family(acc: &Acc) {
    let exists = |n: &str| n == "inc" || n == "inc2" || n == LONG_NAME;
    let body = |n: &str| -> (String, String) {
        let tag = if n == "inc" { "I" } else if n == "inc2" { "J" } else { "K" };
        (format!("[{}{{{{ v }}}}]{{% macro m() %}}<{}>{{% endmacro %}}", tag, tag), tag.to_string())
    };
    // (tag label, tag text with EXPR, what it renders for the template tagged T, accepts lists)
    let tags: [(&str, &str, fn(&str) -> String); 5] = [
        ("include", "{% include EXPR %}", |t| format!("[{}1]", t)),
        ("include_ignore", "{% include EXPR ignore missing %}", |t| format!("[{}1]", t)),
        ("import", "{% import EXPR as l %}{{ l.m() }}", |t| format!("<{}>", t)),
        ("from_import", "{% from EXPR import m %}{{ m() }}", |t| format!("<{}>", t)),
        ("extends", "{% extends EXPR %}", |t| format!("[{}1]", t)),
    ];
    let placements: [(&str, &str, usize); 6] = [
        ("top", "a|TAG|b", 1),
        ("loop", "a|{% for i_ in [1, 2] %}TAG{% endfor %}|b", 2),
        ("macro", "{% macro q() %}TAG{% endmacro %}a|{{ q() }}|b", 1),
        ("block", "a|{% block blk %}TAG{% endblock %}|b", 1),
        ("set_block", "{% set cap %}TAG{% endset %}a|{{ cap }}|b", 1),
        ("if_with", "a|{% if v == 1 %}{% with z = 2 %}TAG{% endwith %}{% endif %}|b", 1),
    ];
    for (flabel, expr, target, single_use) in name_forms() {
        for (tlabel, tag, rendered) in tags {
            for (plabel, wrap, times) in placements {
                let string_form = matches!(flabel, "lit" | "lit_missing" | "ctx_inline" | "ctx_heap" | "ctx_safe" | "concat" | "concat_ctx" | "filter_lower" | "filter_default" | "cond" | "subscript" | "attr" | "int" | "float" | "bool");
                if tlabel == "extends" && (plabel != "top" || !string_form) {
                    // inheritance takes one name and is a top-level statement
                    continue;
                }
                if single_use && times > 1 {
                    continue;
                }
                acc.eval(1);
                let src = if tlabel == "extends" { tag.replace("EXPR", expr) } else { wrap.replace("TAG", &tag.replace("EXPR", expr)) };
                let expect: Result<String, &str> = match &target {
                    Target::Invalid => Err("any"),
                    Target::Names(ns) => match ns.iter().find(|n| exists(n)) {
                        Some(n) => {
                            let inner = rendered(&body(n).1).repeat(times);
                            Ok(if tlabel == "extends" { inner } else { format!("a|{}|b", inner) })
                        }
                        None if tlabel == "include_ignore" => Ok("a||b".to_string()),
                        None => Err("TemplateNotFound"),
                    },
                };
                let (tx, rx) = std::sync::mpsc::channel();
                let src2 = src.clone();
                std::thread::Builder::new()
                    .stack_size(8 << 20)
                    .spawn(move || {
                        let r = catch(|| {
                            let mut env = Environment::new();
                            for n in ["inc", "inc2", LONG_NAME] {
                                let tag = if n == "inc" { "I" } else if n == "inc2" { "J" } else { "K" };
                                env.add_template_owned(n.to_string(), format!("[{}{{{{ v }}}}]{{% macro m() %}}<{}>{{% endmacro %}}", tag, tag)).map_err(|e| format!("{:?}", e.kind()))?;
                            }
                            env.add_template_owned("main".to_string(), src2).map_err(|e| format!("{:?}", e.kind()))?;
                            let names = vec!["nope", "inc2", "inc"];
                            let ctx = context! {
                                v => 1,
                                s_inc => "inc",
                                s_in => "in",
                                s_long => LONG_NAME,
                                s_safe => Value::from_safe_string("inc2".into()),
                                names => names.clone(),
                                names_t => Value::from(minijinja::value::Tuple::from(vec![Value::from("nope"), Value::from("inc")])),
                                names_long => vec!["nope", LONG_NAME, "inc"],
                                cfg => context! { partial => "inc" },
                                lazy => Value::make_iterable(|| vec!["nope", "inc2", "inc"].into_iter()),
                                lazy_unsized => Value::make_iterable(|| vec!["nope", "skip", "inc"].into_iter().filter(|x| *x != "skip")),
                                oneshot => Value::make_one_shot_iterator(vec!["nope", "inc"].into_iter()),
                            };
                            env.get_template("main").map_err(|e| format!("{:?}", e.kind()))?.render(ctx).map_err(|e| format!("{:?}", e.kind()))
                        });
                        let _ = tx.send(r);
                    })
                    .unwrap();
                let got: Result<Result<String, String>, String> = match rx.recv_timeout(std::time::Duration::from_secs(10)) {
                    Ok(r) => r,
                    Err(_) => Err("HANG: no result within 10 s".into()),
                };
                let ok = match (&got, &expect) {
                    (Ok(Ok(o)), Ok(e)) => o == e,
                    (Ok(Err(_)), Err("any")) => true,
                    (Ok(Err(k)), Err(e)) => k == e,
                    _ => false,
                };
                if ok {
                    acc.outcome(if expect.is_ok() { "name form resolves to the first existing template" } else { "name form fails with the expected error" });
                    acc.nontrivial(fnv(format!("nf:{}:{}:{}", flabel, tlabel, plabel).as_bytes()));
                } else {
                    let class = match &got {
                        Err(m) if m.starts_with("HANG") => "hang",
                        Err(_) => "panic",
                        Ok(Ok(_)) if expect.is_err() => "reported_as_success",
                        Ok(Err(_)) if expect.is_ok() => "unexpected_error",
                        Ok(Err(_)) => "wrong_error_kind",
                        _ => "output_differs",
                    };
                    acc.fail(Failure {
                        key: format!("compose name_form {} tag={} form={}", class, tlabel, flabel),
                        case: format!("{} / {} / {}", flabel, tlabel, plabel),
                        detail: format!("main = {:?}: got {:?}, expected {:?}", src, got, expect),
                        replay: json!({"kind": "name_form", "form": flabel, "tag": tlabel, "placement": plabel}),
                    });
                }
            }
        }
    }
}

/// relative names: with a path-join callback a template is named differently by different referrers
/// (`./b`, `../d/b`, `b`, `x/../b`).  What the property says about chains, cycles and missing
/// templates is about the templates, not about the spelling of their names: chains of 1..3 links
/// through every spelling render like the plainly named chain, cycles of length 1..3 are errors.
struct RelCase {
    name: String,
    templates: Vec<(String, String)>,
    expect: Result<String, &'static str>,
}

fn relative_cases() -> Vec<RelCase> {
    let spell = |form: usize, k: usize| -> String {
        match form {
            0 => format!("./t{}", k),
            1 => format!("../d/t{}", k),
            2 => format!("t{}", k),
            3 => format!("x/../t{}", k),
            _ => format!("./././t{}", k),
        }
    };
    let mut v = vec![];
    for tag in ["extends", "include", "import"] {
        for len in 1..=3usize {
            for form in 0..5usize {
                for cyclic in [false, true] {
                    // d/t0 refers to d/t1 ... d/t(len-1) refers to d/t(len) (or, cyclic, back to d/t0);
                    // every reference uses a different spelling, starting at `form`
                    let mut templates = vec![];
                    let n = if cyclic { len } else { len + 1 };
                    for k in 0..n {
                        let last = k + 1 == n;
                        let target = if last && cyclic { 0 } else { k + 1 };
                        let r = spell((form + k) % 5, target);
                        let src = if last && !cyclic {
                            match tag {
                                "extends" => "<{% block b %}B{% endblock %}>".to_string(),
                                "include" => "[leaf]".to_string(),
                                _ => "{% macro m() %}(leaf){% endmacro %}".to_string(),
                            }
                        } else {
                            match tag {
                                "extends" => format!("{{% extends '{}' %}}{{% block b %}}{{{{ super() }}}}{}{{% endblock %}}", r, k),
                                "include" => format!("{}({{% include '{}' %}})", k, r),
                                _ => format!("{{% import '{}' as lib %}}{{% macro m() %}}{}{{{{ lib.m() }}}}{{% endmacro %}}", r, k),
                            }
                        };
                        templates.push((format!("d/t{}", k), src));
                    }
                    if tag == "import" {
                        templates.push(("d/main".into(), "{% import 't0' as lib %}{{ lib.m() }}".into()));
                    }
                    let expect: Result<String, &'static str> = if cyclic {
                        Err(if tag == "extends" { "InvalidOperation" } else { "any error but OutOfFuel" })
                    } else {
                        Ok(match tag {
                            "extends" => format!("<B{}>", (0..len).rev().map(|k| k.to_string()).collect::<String>()),
                            "include" => {
                                let mut s = "[leaf]".to_string();
                                for k in (0..len).rev() {
                                    s = format!("{}({})", k, s);
                                }
                                s
                            }
                            _ => format!("{}(leaf)", (0..len).map(|k| k.to_string()).collect::<String>()),
                        })
                    };
                    v.push(RelCase { name: format!("{} len={} spelling#{} {}", tag, len, form, if cyclic { "cyclic" } else { "chain" }), templates, expect });
                }
            }
        }
    }
    v
}

fn relative_family(acc: &Acc, only: Option<&str>) {
    let cases = relative_cases();
    acc.count("relative_name_cases", cases.len() as u64);
    for c in cases {
        if only.map_or(false, |o| o != c.name) {
            continue;
        }
        acc.eval(1);
        let main = if c.name.starts_with("import") { "d/main" } else { "d/t0" };
        let got = run_templates_opts(c.templates.clone(), main.to_string(), true);
        let ok = match (&got, &c.expect) {
            (Ok(Ok(s)), Ok(e)) => s == e,
            (Ok(Err(k)), Err(e)) => k != "OutOfFuel" && (*e == "any error but OutOfFuel" || k == e),
            _ => false,
        };
        if ok {
            acc.outcome(if c.expect.is_ok() { "relative chain renders as the plain one" } else { "relative cycle is an error" });
            acc.nontrivial(fnv(c.name.as_bytes()));
        } else {
            let class = match &got {
                Err(m) if m.starts_with("HANG") => "hang",
                Err(_) => "panic",
                Ok(Err(k)) if k == "OutOfFuel" => "never_ends",
                Ok(Ok(_)) if c.expect.is_err() => "reported_as_success",
                Ok(Err(_)) if c.expect.is_ok() => "unexpected_error",
                Ok(Err(_)) => "wrong_error_kind",
                _ => "output_differs",
            };
            let tag = c.name.split(' ').next().unwrap().to_string();
            acc.fail(Failure {
                key: format!("relative {} tag={} {}", class, tag, if c.expect.is_ok() { "chain" } else { "cyclic" }),
                case: c.name.clone(),
                detail: format!("templates {:?}: got {:?}, expected {:?}", c.templates, got, c.expect),
                replay: json!({"kind": "relative", "name": c.name}),
            });
        }
    }
}

fn run_case(c: &Case) -> Result<Result<String, String>, String> {
    run_templates(c.templates.iter().map(|(a, b)| (a.to_string(), b.to_string())).collect(), c.main.to_string())
}

fn run_templates(templates: Vec<(String, String)>, main: String) -> Result<Result<String, String>, String> {
    run_templates_opts(templates, main, false)
}

/// `rel`: the environment joins template names relative to the referring template's directory (the
/// callback of the documentation) and carries a fuel budget, so that a chain that never ends comes
/// back as OutOfFuel instead of eating the machine
fn run_templates_opts(templates: Vec<(String, String)>, main: String, rel: bool) -> Result<Result<String, String>, String> {
    // in a helper thread with a wall cap: "rather than hangs" is part of the statement
    let (tx, rx) = std::sync::mpsc::channel();
    std::thread::Builder::new()
        .stack_size(8 << 20)
        .spawn(move || {
            let r = catch(|| {
                let mut env = Environment::new();
                if rel {
                    env.set_fuel(Some(2_000_000));
                    env.set_path_join_callback(|name, parent| {
                        let mut segs: Vec<&str> = parent.split('/').collect();
                        segs.pop();
                        for seg in name.split('/') {
                            match seg {
                                "." => {}
                                ".." => {
                                    segs.pop();
                                }
                                s => segs.push(s),
                            }
                        }
                        segs.join("/").into()
                    });
                }
                for (n, s) in &templates {
                    env.add_template_owned(n.clone(), s.clone()).map_err(|e| format!("{:?}", e.kind()))?;
                }
                env.get_template(&main).map_err(|e| format!("{:?}", e.kind()))?.render(context! { v => 1, name => "inc" }).map_err(|e| format!("{:?}", e.kind()))
            });
            let _ = tx.send(r);
        })
        .unwrap();
    match rx.recv_timeout(std::time::Duration::from_secs(10)) {
        Ok(r) => r,
        Err(_) => Err("HANG: no result within 10 s".into()),
    }
}

pub fn main(args: Args) -> i32 {
    let start_t = std::time::Instant::now();
    install_quiet_panic_hook();
    let acc = Acc::new();
    if let Some(p) = &args.replay {
        let doc = load_replay(p);
        let j = &doc["replay"];
        if j["kind"] == "chain" {
            let form = match j["form"].as_str().unwrap() {
                "Static" => ExtForm::Static,
                "Dynamic" => ExtForm::Dynamic,
                "CondTaken" => ExtForm::CondTaken,
                _ => ExtForm::CondNotTaken,
            };
            let mut l = Local::default();
            let templates = build_chain(j["len"].as_u64().unwrap() as usize, j["code"].as_u64().unwrap(), j["with_c"].as_bool().unwrap(), form);
            for t in &templates {
                println!("{}: {}", t.name, tmpl_src(t));
            }
            let reach = j["reach"].as_u64().unwrap_or(0) as usize;
            println!("reach: {:?}\nresolver: {:?}\nengine:   {:?}", REACHES[reach], resolve(&templates).and_then(|o| if reach == 12 || reach == 13 { reach_expect_shared(reach, &templates, &o) } else { Ok(reach_expect(reach, &o)) }), render_chain(&templates, reach));
            check_chain(j["len"].as_u64().unwrap() as usize, j["code"].as_u64().unwrap(), j["with_c"].as_bool().unwrap(), form, reach, &acc, &mut l);
        } else if j["kind"] == "name_form" {
            name_form_family(&acc);
        } else if j["kind"] == "relative" {
            relative_family(&acc, j["name"].as_str());
        } else {
            for c in fixed_cases().iter().filter(|c| Some(c.name) == j["name"].as_str()) {
                println!("{:?}", run_case(c));
            }
        }
        let fs = acc.take_failures();
        return if fs.is_empty() {
            println!("replay: case passes");
            0
        } else {
            for f in &fs {
                println!("VIOLATION property=C06 replay={}  # {} :: {}", p, f.key, f.detail);
            }
            1
        };
    }
    // chains
    let max_len = args.tier.pick(3usize, 4usize);
    let reach_len = args.tier.pick(2, 3);
    let forms = [ExtForm::Static, ExtForm::Dynamic, ExtForm::CondTaken, ExtForm::CondNotTaken];
    for len in 1..=max_len {
        let codes = (MODES as u64).pow(3 * (len as u32 - 1));
        acc.count(&format!("chains_len{}", len), codes * 2 * if len > 1 { 4 } else { 1 });
        par_chunks(codes, 64, &acc, |r, l| {
            for code in r {
                for with_c in [true, false] {
                    // every reach for chains up to length 2 (quick) / 3 (thorough); direct rendering beyond
                    let reaches = if len <= reach_len { REACHES.len() } else { 1 };
                    for reach in 0..reaches {
                        if len == 1 {
                            check_chain(len, code, with_c, ExtForm::Static, reach, &acc, l);
                        } else {
                            for form in forms {
                                // all four extends forms for chains up to length 3; the static form beyond
                                if (len <= 3 && (reach == 0 || form != ExtForm::Dynamic)) || form == ExtForm::Static {
                                    check_chain(len, code, with_c, form, reach, &acc, l);
                                }
                            }
                        }
                    }
                }
            }
        });
    }
    // block fragments through a reused state, with a call that fails once at every position
    for len in 1..=args.tier.pick(2usize, 3usize) {
        let codes = (MODES as u64).pow(3 * (len as u32 - 1));
        par_chunks(codes, 64, &acc, |r, l| {
            for code in r {
                for with_c in [true, false] {
                    for fail_at in 0..=6u32 {
                        check_fragments(len, code, with_c, fail_at, &acc, l);
                    }
                }
            }
        });
    }
    // include / import / error families
    for c in fixed_cases() {
        acc.eval(1);
        let got = run_case(&c);
        let ok = match (&got, &c.expect) {
            (Ok(Ok(s)), Ok(e)) => s == e,
            (Ok(Err(k)), Err(e)) => k == e,
            _ => false,
        };
        if ok {
            acc.outcome(if c.expect.is_ok() { "fixed case renders as specified" } else { "fixed case fails as specified" });
            acc.nontrivial(fnv(c.name.as_bytes()));
        } else {
            let class = match &got {
                Err(m) if m.starts_with("HANG") => "hang",
                Err(_) => "panic",
                Ok(Ok(_)) if c.expect.is_err() => "reported_as_success",
                Ok(Err(_)) if c.expect.is_ok() => "unexpected_error",
                Ok(Err(_)) => "wrong_error_kind",
                _ => "output_differs",
            };
            acc.fail(Failure {
                key: format!("compose {} case={}", class, c.name),
                case: c.name.to_string(),
                detail: format!("templates {:?}: got {:?}, expected {:?}", c.templates, got, c.expect),
                replay: json!({"kind": "fixed", "name": c.name}),
            });
        }
    }
    name_form_family(&acc);
    relative_family(&acc, None);
    // composition does not wear out: every fixed case that renders is included REPEAT times from one
    // host render and must give its output REPEAT times (includes, imports and inheritance charge and
    // release per-render resources such as the recursion budget; nothing may be left behind)
    const REPEAT: usize = 120;
    for c in fixed_cases() {
        let Ok(expected) = c.expect else { continue };
        acc.eval(1);
        let mut templates: Vec<(String, String)> = c.templates.iter().map(|(a, b)| (a.to_string(), b.to_string())).collect();
        templates.push(("rep_host".into(), format!("{{% for r_ in range({}) %}}{{% include '{}' %}}{{% endfor %}}", REPEAT, c.main)));
        let got = run_templates(templates, "rep_host".into());
        if got == Ok(Ok(expected.repeat(REPEAT))) {
            acc.outcome("fixed case repeats without wear");
            acc.nontrivial(fnv(format!("rep:{}", c.name).as_bytes()));
        } else {
            let short = |r: &Result<Result<String, String>, String>| match r {
                Ok(Ok(s)) => format!("Ok({} bytes, {} repetitions of the expected output at the start)", s.len(), if expected.is_empty() { 0 } else { s.matches(expected).count() }),
                other => format!("{:?}", other),
            };
            acc.fail(Failure {
                key: format!("compose wears_out case={}", c.name),
                case: format!("{} x{}", c.name, REPEAT),
                detail: format!("included {} times from one render: {} (a single render gives {:?})", REPEAT, short(&got), expected),
                replay: json!({"kind": "fixed_repeated", "name": c.name}),
            });
        }
    }
    let sample = build_chain(3, 1234, true, ExtForm::Static);
    acc.sample(json!({"chain": sample.iter().map(|t| (t.name.clone(), tmpl_src(t))).collect::<Vec<_>>(), "resolver": format!("{:?}", resolve(&sample))}));
    acc.sample(json!({"fixed_case": "include_list_first_existing", "templates": fixed_cases()[6].templates, "expect": "second"}));
    finish(
        Finish {
            property: "C06",
            level: "exploration",
            tier: args.tier,
            seed: args.seed,
            rule: format!("all inheritance chains of length 1..={} in which every non-root template assigns each block of the alphabet {{a, b (nested in a in the root), c}} one of {{absent, override, override + super() before, override around super(), super() twice}} (5^3 per level), x root with/without block c, x extends form of the most derived template (static name, name from the context, inside a taken if, inside a not-taken if), x 12 ways of reaching the most derived template for chains up to length {} (rendered directly; included at top level, in a child block, in a macro called twice, in a loop body; include captured by a set block in a plain host and at the top level of an extending host, there also below a filter block and below a call block; included / imported twice from the block of an extending host whose own names sort before and after the names of the chain); expected output from a 60-line resolver (most derived definition, per-block parent cursor for super(), nested block tags render the most derived definition, text outside blocks of extending templates discarded, super() without parent fails); plus block fragments through a reused state (after a full render of every chain up to length {} the blocks a, b, c, a, b are rendered through State::render_block, with a call in the root's block a that fails exactly once at every position 1..6 or never; every fragment must equal the resolver's, and a fragment that failed must leave the state as it was); plus 50 hand-written include / import / error cases (include placements and name forms incl. lists and ignore missing, what an import exposes, extends and include cycles of length 1..3, double extends, missing parent, super() without parent or outside a block, required blocks, self.block()) each run under a 10 s wall cap so that a hang is a failure; every fixed case that renders is also included 120 times from one host render and must give its output 120 times. distinct non-trivial = chains that render as resolved + fixed cases", max_len, reach_len, args.tier.pick(2, 3)),
            exhaustive: true,
            bound: json!({"max_chain_len": max_len, "modes": ["absent", "override", "super_before", "super_inside", "super_twice"]}),
            assumptions: vec!["the resolver in c06.rs is the trusted base for chains; the expectations of the fixed cases were written by hand from the documentation".into()],
            extra: Default::default(),
            start: start_t,
        },
        &acc,
    )
}
