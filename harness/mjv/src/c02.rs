//! C02 — HTML auto-escaping is sound: unsafe data is escaped exactly once.
//!
//! Three exhaustively enumerated families, all rendered under `*.html` / `*.xml` names, none using
//! `safe`, `autoescape false` or a function documented to return markup:
//!
//!  F1 carriers  — a source value flows through every chain of k identity carriers (set, set-block,
//!                 macro argument, macro closure, call block, caller argument, filter block,
//!                 include, loop, namespace, if-expression, list/map round trip, with, block +
//!                 self, imported macro, autoescape block, `e`, `string`) in every layout and is
//!                 printed; oracle (exact): the output is the value's text escaped exactly once.
//!  F2 transforms — every value expression over tainted and captured (already escaped) atoms through
//!                 every registered filter / pycompat method / operator with every argument tuple
//!                 from the atom pool; oracle S1: no raw `< > " '` in the output.
//!  F3 programs  — the program space of G (and the include/extends/import corpus) rendered under an
//!                 HTML name over tainted contexts; oracle: S1, and agreement with the reference
//!                 interpreter R, which tracks a safe bit per string.
use crate::core::*;
use crate::gen;
use crate::refint::{self, RErr, V};
use crate::reg;
use minijinja::value::{Object, Value};
use minijinja::{AutoEscape, Environment};
use serde_json::json;
use std::collections::BTreeMap;
use std::sync::Arc;

const T: &str = "<m\"1'&>";

fn esc(s: &str) -> String {
    let mut o = String::new();
    for c in s.chars() {
        match c {
            '<' => o.push_str("&lt;"),
            '>' => o.push_str("&gt;"),
            '&' => o.push_str("&amp;"),
            '"' => o.push_str("&quot;"),
            '\'' => o.push_str("&#x27;"),
            '/' => o.push_str("&#x2f;"),
            c => o.push(c),
        }
    }
    o
}

#[derive(Debug)]
struct Tainted;
impl std::fmt::Display for Tainted {
    fn fmt(&self, f: &mut std::fmt::Formatter<'_>) -> std::fmt::Result {
        f.write_str("<o'&>")
    }
}
impl Object for Tainted {
    fn render(self: &Arc<Self>, f: &mut std::fmt::Formatter<'_>) -> std::fmt::Result {
        f.write_str("<o'&>")
    }
}

/// host objects whose text reaches the formatter in every way a `Display` / `Debug` implementation
/// can hand it over: whole, piecewise, character by character, through format arguments, padded,
/// debug-quoted, through the derived Debug of a struct with a string field
const OBJ_TEXT: &str = "<o\"'&>";

#[derive(Debug)]
struct Emit(u8);
impl Object for Emit {
    fn render(self: &Arc<Self>, f: &mut std::fmt::Formatter<'_>) -> std::fmt::Result {
        use std::fmt::Write;
        match self.0 {
            1 => OBJ_TEXT.chars().try_for_each(|c| f.write_char(c)),
            2 => OBJ_TEXT.chars().try_for_each(|c| f.write_str(c.encode_utf8(&mut [0; 4]))),
            3 => write!(f, "{}", OBJ_TEXT),
            4 => write!(f, "{:?}", OBJ_TEXT),
            5 => f.pad(OBJ_TEXT),
            6 => write!(f, "{:>12}|{:<9}|", OBJ_TEXT, '"'),
            7 => f.debug_struct("S").field("k", &OBJ_TEXT).field("c", &'"').finish(),
            8 => write!(f, "{}{}{}{}", '"', '<', '\'', '&'),
            9 => f.debug_list().entries(OBJ_TEXT.chars()).finish(),
            _ => f.write_str(OBJ_TEXT),
        }
    }
}

/// plain object that keeps the default rendering (its derived Debug)
#[derive(Debug)]
#[allow(dead_code)]
struct DebugUser {
    name: String,
    initial: char,
    path: std::path::PathBuf,
}
impl Object for DebugUser {}

/// an iterable without a length that keeps the default rendering
#[derive(Debug)]
struct LazyTexts;
impl Object for LazyTexts {
    fn repr(self: &Arc<Self>) -> minijinja::value::ObjectRepr {
        minijinja::value::ObjectRepr::Iterable
    }
    fn enumerate(self: &Arc<Self>) -> minijinja::value::Enumerator {
        minijinja::value::Enumerator::Iter(Box::new(vec![Value::from(OBJ_TEXT), Value::from(1)].into_iter().filter(|_| true)))
    }
}

/// a sequence object with its own rendering, written character by character
#[derive(Debug)]
struct SeqCustom;
impl Object for SeqCustom {
    fn repr(self: &Arc<Self>) -> minijinja::value::ObjectRepr {
        minijinja::value::ObjectRepr::Seq
    }
    fn get_value(self: &Arc<Self>, key: &Value) -> Option<Value> {
        (key.as_usize() == Some(0)).then(|| Value::from(OBJ_TEXT))
    }
    fn enumerate(self: &Arc<Self>) -> minijinja::value::Enumerator {
        minijinja::value::Enumerator::Seq(1)
    }
    fn render(self: &Arc<Self>, f: &mut std::fmt::Formatter<'_>) -> std::fmt::Result {
        use std::fmt::Write;
        f.write_char('<')?;
        f.write_char('"')?;
        f.write_str("seq")?;
        f.write_char('\'')?;
        f.write_char('>')
    }
}

fn ctx_values() -> Vec<(&'static str, Value)> {
    let mut zoo: Vec<(&'static str, Value)> = vec![
        ("ob1", Value::from_object(Emit(1))), ("ob2", Value::from_object(Emit(2))), ("ob3", Value::from_object(Emit(3))), ("ob4", Value::from_object(Emit(4))), ("ob5", Value::from_object(Emit(5))),
        ("ob6", Value::from_object(Emit(6))), ("ob7", Value::from_object(Emit(7))), ("ob8", Value::from_object(Emit(8))), ("ob9", Value::from_object(Emit(9))),
        ("obdbg", Value::from_object(DebugUser { name: OBJ_TEXT.to_string(), initial: '"', path: std::path::PathBuf::from("/a<b>\"c'") })),
        ("oblazy", Value::from_object(LazyTexts)),
        ("obseq", Value::from_object(SeqCustom)),
        ("byt", Value::from_bytes(b"<b\"'&>\xff".to_vec())),
    ];
    let mut v = ctx_values_base();
    v.append(&mut zoo);
    v
}

fn ctx_values_base() -> Vec<(&'static str, Value)> {
    vec![
        ("u", Value::from(T)),
        ("us", Value::from(vec![T, "ok"])),
        ("mp", Value::from_pairs([("<k>", Value::from(T)), ("k", Value::from("\"v\""))])),
        ("nest", Value::from(vec![Value::from(vec![T]), Value::from_pairs([("k", T)])])),
        ("ob", Value::from_object(Tainted)),
        ("n", Value::from(2)),
        ("yes", Value::from(true)),
    ]
}

fn base_env() -> Environment<'static> {
    let mut env = Environment::new();
    minijinja_contrib::add_to_environment(&mut env);
    env.set_unknown_method_callback(minijinja_contrib::pycompat::unknown_method_callback);
    env.add_filter("ident", |v: Value| v);
    env.add_function("probe", || "");
    env
}

fn raw_meta(s: &str, relaxed: bool) -> Option<char> {
    s.chars().find(|c| matches!(c, '<' | '>' | '\'') || (*c == '"' && !relaxed))
}

// ------------------------------------------------------------------------------------------
// F1

struct Carrier {
    name: &'static str,
    code: &'static str,
    needs_top: bool,
}

const CARRIERS: &[Carrier] = &[
    Carrier { name: "set", code: "{% set @o = @i %}", needs_top: false },
    Carrier { name: "set_block", code: "{% set @o %}{{ @i }}{% endset %}", needs_top: false },
    Carrier { name: "macro_arg", code: "{% macro m@k(a) %}{{ a }}{% endmacro %}{% set @o = m@k(@i) %}", needs_top: false },
    Carrier { name: "macro_closure", code: "{% macro m@k() %}{{ @i }}{% endmacro %}{% set @o = m@k() %}", needs_top: false },
    Carrier { name: "call_block", code: "{% macro w@k() %}{{ caller() }}{% endmacro %}{% set @o %}{% call w@k() %}{{ @i }}{% endcall %}{% endset %}", needs_top: false },
    Carrier { name: "caller_arg", code: "{% macro w@k(a) %}{{ caller(a) }}{% endmacro %}{% set @o %}{% call(b) w@k(@i) %}{{ b }}{% endcall %}{% endset %}", needs_top: false },
    Carrier { name: "filter_block", code: "{% set @o %}{% filter ident %}{{ @i }}{% endfilter %}{% endset %}", needs_top: false },
    Carrier { name: "include", code: "{% set @o %}{% include 'echo_@i.html' %}{% endset %}", needs_top: false },
    Carrier { name: "for", code: "{% set @o %}{% for it in [@i] %}{{ it }}{% endfor %}{% endset %}", needs_top: false },
    Carrier { name: "namespace", code: "{% set ns@k = namespace(v=0) %}{% for it in [@i] %}{% set ns@k.v = it %}{% endfor %}{% set @o = ns@k.v %}", needs_top: false },
    Carrier { name: "if_expr", code: "{% set @o = @i if yes else 0 %}", needs_top: false },
    Carrier { name: "list_index", code: "{% set @o = [@i][0] %}", needs_top: false },
    Carrier { name: "map_attr", code: "{% set @o = {'k': @i}.k %}", needs_top: false },
    Carrier { name: "first", code: "{% set @o = [@i, 0]|first %}", needs_top: false },
    Carrier { name: "with", code: "{% set @o %}{% with t = @i %}{{ t }}{% endwith %}{% endset %}", needs_top: false },
    Carrier { name: "block_self", code: "{% set junk@k %}{% block b@k %}{{ @i }}{% endblock %}{% endset %}{% set @o = self.b@k() %}", needs_top: true },
    Carrier { name: "from_import", code: "{% from 'lib.html' import echo %}{% set @o = echo(@i) %}", needs_top: false },
    Carrier { name: "import_as", code: "{% import 'lib.html' as l@k %}{% set @o = l@k.echo(@i) %}", needs_top: false },
    Carrier { name: "autoescape_block", code: "{% set @o %}{% autoescape true %}{{ @i }}{% endautoescape %}{% endset %}", needs_top: false },
    Carrier { name: "escape_filter", code: "{% set @o = @i|e %}", needs_top: false },
    Carrier { name: "string_filter", code: "{% set @o = @i|string %}", needs_top: false },
    Carrier { name: "join_single", code: "{% set @o = [@i]|join %}", needs_top: false },
    Carrier { name: "if_stmt", code: "{% if yes %}{% set @o = @i %}{% endif %}", needs_top: false },
    Carrier { name: "default", code: "{% set @o = nope|default(@i) %}", needs_top: false },
];

const SOURCES: &[(&str, &str)] = &[
    ("ctx_string", "u"),
    ("literal_dq", "\"<l'&>\""),
    ("literal_sq", "'<l\"&>'"),
    ("list", "us"),
    ("map", "mp"),
    ("nested", "nest"),
    ("object", "ob"),
    ("int", "n"),
    ("list_display", "[u, 1]"),
    ("object_write_char", "ob1"),
    ("object_write_str_pieces", "ob2"),
    ("object_format_args", "ob3"),
    ("object_debug_quoted", "ob4"),
    ("object_pad", "ob5"),
    ("object_padded_args", "ob6"),
    ("object_debug_struct", "ob7"),
    ("object_char_args", "ob8"),
    ("object_debug_list", "ob9"),
    ("object_default_debug", "obdbg"),
    ("object_lazy_iterable", "oblazy"),
    ("object_seq_custom_render", "obseq"),
    ("bytes_invalid_utf8", "byt"),
    ("list_of_objects", "[ob1, obdbg, ob4]"),
    ("map_of_objects", "{'k': ob1, 'd': obdbg}"),
];

const LAYOUTS: &[&str] = &["flat_html", "flat_xml", "extends_child", "included", "loop_body", "macro_body"];

fn f1_templates(src: &str, chain: &[usize], layout: &str) -> Option<(BTreeMap<String, String>, String)> {
    let mut body = format!("{{% set v0 = {} %}}", src);
    for (k, c) in chain.iter().enumerate() {
        let car = &CARRIERS[*c];
        if car.needs_top && matches!(layout, "loop_body" | "macro_body") {
            return None;
        }
        body.push_str(&car.code.replace("@i", &format!("v{}", k)).replace("@o", &format!("v{}", k + 1)).replace("@k", &k.to_string()));
    }
    body.push_str(&format!("{{{{ v{} }}}}", chain.len()));
    let mut t = BTreeMap::new();
    for k in 0..4 {
        t.insert(format!("echo_v{}.html", k), format!("{{{{ v{} }}}}", k));
    }
    t.insert("lib.html".to_string(), "{% macro echo(a) %}{{ a }}{% endmacro %}".to_string());
    let main = match layout {
        "flat_html" => {
            t.insert("t.html".into(), body);
            "t.html"
        }
        "flat_xml" => {
            t.insert("t.xml".into(), body);
            "t.xml"
        }
        "extends_child" => {
            t.insert("base.html".into(), "{% block body %}{% endblock %}".into());
            t.insert("t.html".into(), format!("{{% extends 'base.html' %}}{{% block body %}}{}{{% endblock %}}", body));
            "t.html"
        }
        "included" => {
            t.insert("t.html".into(), "{% include 'part.html' %}".into());
            t.insert("part.html".into(), body);
            "t.html"
        }
        "loop_body" => {
            t.insert("t.html".into(), format!("{{% for once in [1] %}}{}{{% endfor %}}", body));
            "t.html"
        }
        _ => {
            t.insert("t.html".into(), format!("{{% macro run() %}}{}{{% endmacro %}}{{{{ run() }}}}", body));
            "t.html"
        }
    };
    Some((t, main.to_string()))
}

fn render(templates: &BTreeMap<String, String>, main: &str) -> Result<Result<String, String>, String> {
    let mut env = base_env();
    for (n, s) in templates {
        if let Err(e) = env.add_template_owned(n.clone(), s.clone()) {
            return Ok(Err(format!("compile: {}", e)));
        }
    }
    let ctx = Value::from_pairs(ctx_values());
    catch(|| env.get_template(main).and_then(|t| t.render(ctx)).map_err(|e| e.to_string()))
}

fn source_text(src: &str) -> String {
    let env = base_env();
    let e = env.compile_expression(src).unwrap();
    e.eval(Value::from_pairs(ctx_values())).unwrap().to_string()
}

fn f1_case(si: usize, chain: &[usize], li: usize, acc: &Acc, l: &mut Local) {
    let (sname, src) = SOURCES[si];
    let layout = LAYOUTS[li];
    let Some((templates, main)) = f1_templates(src, chain, layout) else {
        return;
    };
    l.evals += 1;
    let want = esc(&source_text(src));
    let names: Vec<&str> = chain.iter().map(|c| CARRIERS[*c].name).collect();
    let got = render(&templates, &main);
    let fail = |clause: &str, detail: String| Failure {
        key: format!("carriers {} last={} layout={}", clause, names.last().copied().unwrap_or("print"), layout),
        case: format!("source={} chain=[{}] layout={}", sname, names.join(","), layout),
        detail,
        replay: json!({"family": "carriers", "templates": templates, "main": main, "expect": want}),
    };
    match got {
        Ok(Ok(s)) if s == want => {
            l.outcome("escaped exactly once");
            l.nontrivial.insert(fnv(format!("{}|{:?}|{}", si, chain, li).as_bytes()));
        }
        Ok(Ok(s)) => {
            let clause = if raw_meta(&s, false).is_some() {
                "raw_metachar"
            } else if s.contains("&amp;") && !want.contains("&amp;amp;") && s.replace("&amp;", "&") != want || s.contains("&amp;lt;") || s.contains("&amp;#x27;") {
                "double_escape"
            } else {
                "output_differs"
            };
            acc.fail(fail(clause, format!("got {:?} expected {:?}", s, want)));
        }
        Ok(Err(e)) => acc.fail(fail("render_fails", e)),
        Err(p) => acc.fail(fail("panics", p)),
    }
}

fn f1(tier: Tier, acc: &Acc) {
    let maxk = tier.pick(2, 3);
    let nc = CARRIERS.len();
    let mut chains: Vec<Vec<usize>> = vec![vec![]];
    let mut frontier = vec![vec![]];
    for _ in 0..maxk {
        let mut next = vec![];
        for c in &frontier {
            for k in 0..nc {
                let mut d: Vec<usize> = c.clone();
                d.push(k);
                next.push(d);
            }
        }
        chains.extend(next.iter().cloned());
        frontier = next;
    }
    acc.count("f1_chains", chains.len() as u64);
    par_items(&chains, acc, |_, chain, l| {
        for si in 0..SOURCES.len() {
            for li in 0..LAYOUTS.len() {
                f1_case(si, chain, li, acc, l);
            }
        }
    });
}

/// F4: every spelling of an HTML / XML template name, in every role a template can have
fn f4(acc: &Acc) {
    let prefixes = ["", "dir/", "v1.2/", "./", "a.b/c.d/", ".hidden/", "x.json/", "page.txt/"];
    let stems = ["t", "t.min", "t.tar.gz", "index.html", ".t", "t.", "t.txt", "t.json", "T.MIN"];
    let exts = [".html", ".htm", ".xml"];
    let suffixes = ["", ".j2", ".jinja", ".jinja2"];
    let mut names = vec![];
    for p in prefixes {
        for st in stems {
            for e in exts {
                for su in suffixes {
                    names.push(format!("{}{}{}{}", p, st, e, su));
                }
            }
        }
    }
    acc.count("f4_names", names.len() as u64);
    let want = esc(T);
    par_items(&names, acc, |_, name, l| {
        let roles: Vec<(&str, Vec<(String, String)>, String, String)> = vec![
            ("main", vec![(name.clone(), "{{ u }}".into())], name.clone(), want.clone()),
            ("main_with_capture", vec![(name.clone(), "{% set c %}{{ u }}{% endset %}{% macro m(a) %}{{ a }}{% endmacro %}{{ c }}|{{ m(u) }}".into())], name.clone(), format!("{}|{}", want, want)),
            ("included_fragment", vec![("page.html".into(), format!("[{{% include '{}' %}}]", name)), (name.clone(), "{{ u }}".into())], "page.html".into(), format!("[{}]", want)),
            ("imported_library", vec![("page.html".into(), format!("{{% from '{}' import show %}}[{{{{ show(u) }}}}]", name)), (name.clone(), "{% macro show(a) %}{{ a }}{% endmacro %}".into())], "page.html".into(), format!("[{}]", want)),
            ("layout_of_child", vec![("page.html".into(), format!("{{% extends '{}' %}}{{% block b %}}{{{{ u }}}}{{% endblock %}}", name)), (name.clone(), "{{ u }}<{% block b %}{% endblock %}>".into())], "page.html".into(), format!("{}<{}>", want, want)),
            ("child_of_layout", vec![(name.clone(), "{% extends 'layout.html' %}{% block b %}{{ u }}{% endblock %}".into()), ("layout.html".into(), "{{ u }}<{% block b %}{% endblock %}>".into())], name.clone(), format!("{}<{}>", want, want)),
        ];
        for (role, templates, main, expect) in roles {
            l.evals += 1;
            let t: BTreeMap<String, String> = templates.into_iter().collect();
            let got = render(&t, &main);
            // the frames of two roles contain '<' '>' as template text
            if got == Ok(Ok(expect.clone())) {
                l.outcome("named template escapes exactly once");
                l.nontrivial.insert(fnv(format!("{}|{}", name, role).as_bytes()));
            } else {
                let ext = name.trim_end_matches(".j2").trim_end_matches(".jinja2").trim_end_matches(".jinja").rsplit('.').next().unwrap_or("").to_string();
                acc.fail(Failure {
                    key: format!("names {} role={} ext={} dots_before_ext={}", if matches!(&got, Ok(Ok(o)) if raw_meta(&o.replace(['<', '>'], ""), false).is_some() || o.contains(T)) { "raw_metachar" } else { "output_differs" }, role, ext, name.matches('.').count() > 1 + usize::from(name.ends_with(".j2") || name.ends_with(".jinja") || name.ends_with(".jinja2"))),
                    case: format!("{} as {}", name, role),
                    detail: format!("got {:?} expected {:?}", got, expect),
                    replay: json!({"family": "carriers", "templates": t, "main": main, "expect": expect}),
                });
            }
        }
    });
}

// ------------------------------------------------------------------------------------------
// F2

const PRELUDE: &str = "{% set cap %}{{ u }}{% endset %}{% macro mk(a) %}[{{ a }}]{% endmacro %}{% set sep %}, {% endset %}{% set fmt %}[%s|%s]{% endset %}{% set fmtk %}[%(k)s]{% endset %}";

/// (expression, is it a safe string)
fn base_atoms() -> Vec<&'static str> {
    vec!["u", "\"<l'&>\"", "cap", "mk(u)", "sep", "fmt", "fmtk", "us", "mp", "nest", "ob", "ob1", "obdbg", "n", "nope", "none"]
}

fn value_exprs(tier: Tier) -> Vec<String> {
    let a = base_atoms();
    let mut v: Vec<String> = a.iter().map(|s| s.to_string()).collect();
    let strs = ["u", "cap", "mk(u)", "sep", "us", "nest", "ob", "ob1", "ob4", "obdbg", "oblazy", "byt", "mp"];
    for x in strs {
        for y in strs {
            v.push(format!("[{}, {}]", x, y));
            if tier == Tier::Thorough || (x != y && (x == "cap" || y == "cap" || x == "sep")) {
                v.push(format!("({} ~ {})", x, y));
                v.push(format!("({} + {})", x, y));
            }
        }
        v.push(format!("{{'k': {}}}", x));
        v.push(format!("{{{}: 1}}", if matches!(x, "us" | "nest" | "mp" | "ob" | "ob1" | "ob4" | "obdbg" | "oblazy" | "byt") { "'<q>'" } else { x }));
        v.push(format!("({} * n)", x));
        v.push(format!("{}[0]", x));
        v.push(format!("{}[:3]", x));
        v.push(format!("{}[1:]", x));
        v.push(format!("{}[::-1]", x));
        v.push(format!("({} if yes else 0)", x));
        v.push(format!("{}.k", x));
        v.push(format!("{}['<k>']", x));
        v.push(format!("dict(k={}).k", x));
        v.push(format!("dict(k={})", x));
        v.push(format!("namespace(v={}).v", x));
        v.push(format!("cycler({}, u).next()", x));
        v.push(format!("[{}, [{}]]", x, x));
    }
    v.sort();
    v.dedup();
    v
}

const CONTRIB_FILTERS: &[&str] = &["pluralize", "filesizeformat", "truncate", "striptags", "wordcount", "wordwrap"];
const METHODS: &[&str] = &[
    "capitalize", "count", "endswith", "find", "format", "get", "isalnum", "isalpha", "isascii", "islower", "isspace", "isupper", "items", "join", "keys", "lower", "lstrip", "replace", "rfind", "rstrip", "split",
    "splitlines", "startswith", "strip", "title", "upper", "values",
];
const KWARGS: &[&str] = &["k", "end", "fill_with", "default", "attribute", "start", "d", "wrapstring", "first", "blank", "leeway", "case_sensitive", "reverse", "by", "width", "length", "count"];

fn arg_atoms() -> Vec<&'static str> {
    vec!["u", "\"<l'&>\"", "cap", "sep", "us", "mp", "n", "'k'", "'upper'", "'&lt;'", "yes"]
}

fn arg_tuples(max_arity: usize) -> Vec<String> {
    let a = arg_atoms();
    let mut v = vec![String::new()];
    for x in &a {
        v.push(x.to_string());
    }
    if max_arity >= 2 {
        for x in &a {
            for y in &a {
                v.push(format!("{}, {}", x, y));
            }
        }
    }
    for k in KWARGS {
        for x in ["u", "cap", "sep", "n", "us", "mp"] {
            v.push(format!("{}={}", k, x));
        }
    }
    v
}

/// application forms of a filter/method `f` with argument list `args` to `val`
fn apply(form: usize, val: &str, f: &str, args: &str) -> String {
    match form {
        0 => {
            if args.is_empty() {
                format!("{{{{ {}|{} }}}}", val, f)
            } else {
                format!("{{{{ {}|{}({}) }}}}", val, f, args)
            }
        }
        1 => {
            if args.is_empty() {
                format!("{{% filter {} %}}{{{{ {} }}}}{{% endfilter %}}", f, val)
            } else {
                format!("{{% filter {}({}) %}}{{{{ {} }}}}{{% endfilter %}}", f, args, val)
            }
        }
        2 => format!("{{{{ {}.{}({}) }}}}", val, f, args),
        _ => {
            if args.is_empty() {
                format!("{{% set r = {}|{} %}}{{% for it in [r] %}}{{{{ it }}}}{{% endfor %}}", val, f)
            } else {
                format!("{{% set r = {}|{}({}) %}}{{% for it in [r] %}}{{{{ it }}}}{{% endfor %}}", val, f, args)
            }
        }
    }
}

fn f2_render(env: &Environment, body: &str) -> Result<Result<String, String>, String> {
    let src = format!("{}{}", PRELUDE, body);
    let ctx = Value::from_pairs(ctx_values());
    catch(|| env.template_from_named_str("t.html", &src).and_then(|t| t.render(ctx)).map_err(|e| e.to_string()))
}

fn f2_judge(env: &Environment, via: &str, body: &str, relaxed: bool, acc: &Acc, l: &mut Local) {
    l.evals += 1;
    let fail = |clause: &str, detail: String| Failure {
        key: format!("transforms {} via={}", clause, via),
        case: body.to_string(),
        detail,
        replay: json!({"family": "transforms", "templates": {"t.html": format!("{}{}", PRELUDE, body)}, "main": "t.html", "relaxed": relaxed}),
    };
    match f2_render(env, body) {
        Ok(Ok(s)) => {
            // the prelude prints nothing; the separators it defines are metachar free
            if let Some(c) = raw_meta(&s, relaxed) {
                acc.fail(fail("raw_metachar", format!("output {:?} contains a raw {:?}", s, c)));
            } else if s.contains("&amp;lt;") || s.contains("&amp;#x27;") || s.contains("&amp;amp;") {
                l.outcome("renders, escaped, some part escaped twice (transformed value; not judged)");
                l.nontrivial.insert(fnv(body.as_bytes()));
            } else if s.contains("&lt;") || s.contains("&#x27;") || s.contains("&amp;") {
                l.outcome("renders, tainted text escaped once");
                l.nontrivial.insert(fnv(body.as_bytes()));
            } else {
                l.outcome("renders, no tainted text in the output");
            }
        }
        Ok(Err(_)) => l.outcome("error"),
        Err(p) => acc.fail(fail("panics", p)),
    }
}

fn f2(tier: Tier, acc: &Acc) {
    let r = reg::discover();
    let mut filters: Vec<String> = r.filters.iter().filter(|f| *f != "safe").cloned().collect();
    filters.extend(CONTRIB_FILTERS.iter().map(|s| s.to_string()));
    let env0 = base_env();
    filters.retain(|f| env0.compile_expression(&format!("'{}' is filter", f)).and_then(|e| e.eval(())).map(|v| v.is_true()).unwrap_or(false));
    acc.count("f2_filters", filters.len() as u64);
    let vals = value_exprs(tier);
    acc.count("f2_value_expressions", vals.len() as u64);
    let args = arg_tuples(2);
    acc.count("f2_argument_tuples", args.len() as u64);
    // (kind, name): filters in 3 forms, methods in 1
    let mut ops: Vec<(usize, String)> = vec![];
    for f in &filters {
        ops.push((0, f.clone()));
        ops.push((1, f.clone()));
        ops.push((3, f.clone()));
    }
    for m in METHODS {
        ops.push((2, m.to_string()));
    }
    // depth 1: every value expression x every op x every argument tuple (forms 1 and 3 with the
    // base atoms only in the quick tier)
    let base: Vec<String> = base_atoms().iter().map(|s| s.to_string()).collect();
    let jobs: Vec<(usize, String, &String)> = ops.iter().flat_map(|(form, f)| vals.iter().map(move |v| (*form, f.clone(), v))).collect();
    par_items(&jobs, acc, |_, (form, f, v), l| {
        if tier == Tier::Quick && *form != 0 && *form != 2 && !base.contains(v) {
            return;
        }
        let env = base_env();
        let relaxed = f == "tojson";
        for a in &args {
            let body = apply(*form, v, f, a);
            let via = format!("{}{}", ["filter:", "filter_block:", "method:", "filter_then_loop:"][*form], f);
            f2_judge(&env, &via, &body, relaxed, acc, l);
        }
    });
    // plain printing of every value expression, directly and through each capture
    par_items(&vals, acc, |_, v, l| {
        let env = base_env();
        for (i, w) in ["{{ @ }}", "{{ mk(@) }}", "{% set r %}{{ @ }}{% endset %}{{ r }}", "{% for it in [@] %}{{ it }}{% endfor %}", "{{ [@, cap]|join(sep) }}", "{{ '%s'|format(@) }}", "{{ fmt|format(@, @) }}", "{{ fmtk|format(k=@) }}", "{{ fmt|format(cap, @) }}", "{{ fmt % (@, 1) if false else fmt|format(@, u) }}"].iter().enumerate() {
            f2_judge(&env, &format!("print_form{}", i), &w.replace('@', v), false, acc, l);
        }
    });
    // depth 2: filter after filter, arguments of arity <= 1 (thorough: all value expressions of the
    // base pool and the pair lists; quick: base atoms only, second filter without arguments)
    let args1 = arg_tuples(1);
    let fl: Vec<&String> = filters.iter().collect();
    let pairs: Vec<(&String, &String)> = fl.iter().flat_map(|f| fl.iter().map(move |g| (*f, *g))).collect();
    acc.count("f2_filter_pairs", pairs.len() as u64);
    let vals2: Vec<String> = if tier == Tier::Thorough { vals.iter().filter(|v| v.starts_with('[') || base.contains(v)).cloned().collect() } else { base.clone() };
    par_items(&pairs, acc, |_, (f, g), l| {
        let env = base_env();
        let relaxed = *f == "tojson" || *g == "tojson";
        for v in &vals2 {
            for a in &args1 {
                if a.contains('=') {
                    continue;
                }
                let inner = if a.is_empty() { format!("{}|{}", v, f) } else { format!("{}|{}({})", v, f, a) };
                let bs: Vec<&String> = if tier == Tier::Thorough { args1.iter().filter(|b| !b.contains('=')).collect() } else { args1.iter().take(4).collect() };
                for b in bs {
                    let body = if b.is_empty() { format!("{{{{ {}|{} }}}}", inner, g) } else { format!("{{{{ {}|{}({}) }}}}", inner, g, b) };
                    f2_judge(&env, &format!("filter:{}>filter:{}", f, g), &body, relaxed, acc, l);
                }
            }
        }
    });
}

// ------------------------------------------------------------------------------------------
// F3

fn f3_contexts() -> Vec<BTreeMap<String, V>> {
    let s = |x: &str| V::Str(x.to_string());
    let map = |kv: &[(&str, V)]| V::Map(kv.iter().map(|(k, v)| (k.to_string(), v.clone())).collect());
    let leaf = |v: &str| map(&[("v", s(v)), ("c", V::List(vec![]))]);
    let mk = |x: V, xs: V, m: V, tree: V| -> BTreeMap<String, V> { [("x".to_string(), x), ("xs".to_string(), xs), ("m".to_string(), m), ("tree".to_string(), tree)].into_iter().collect() };
    vec![
        mk(V::Int(2), V::List(vec![s(T), s("a&b"), s("\"q\"")]), map(&[("a", s(T)), ("<k>", V::Int(2))]), V::List(vec![map(&[("v", s("<r>")), ("c", V::List(vec![leaf("'l'"), leaf("<l2>")]))]), leaf("&")])),
        mk(s(T), V::List(vec![s("<only>")]), map(&[("<k'>", s("\"v\""))]), V::List(vec![leaf("<t>")])),
    ]
}

fn f3_program(env: &Environment, prog: &gen::Program, depth: usize, acc: &Acc, l: &mut Local) {
    let src = prog.source();
    let Ok(tmpl) = env.template_from_named_str("t.html", &src) else {
        l.outcome("does not compile");
        return;
    };
    for (ci, rctx) in f3_contexts().into_iter().enumerate() {
        l.evals += 1;
        let ectx = Value::from_pairs(rctx.iter().map(|(k, v)| (k.clone(), refint::to_engine(v))));
        let got = catch(|| tmpl.render(ectx));
        let want = refint::Interp::new_html(rctx).run(&prog.nodes);
        let mk = |clause: &str, detail: String| Failure {
            key: format!("programs {}", clause),
            case: format!("d{}#{} ctx#{} :: {}", depth, prog.index, ci, src),
            detail,
            replay: json!({"family": "programs", "depth": depth, "index": prog.index, "ctx": ci, "source": src}),
        };
        match (got, want) {
            (Err(p), _) => acc.fail(mk("engine_panics", p)),
            (Ok(Ok(a)), w) => {
                if let Some(c) = raw_meta(&a, false) {
                    acc.fail(mk("raw_metachar", format!("output {:?} contains a raw {:?}", a, c)));
                    continue;
                }
                match w {
                    Ok(b) if a == b => {
                        l.outcome("same output as R, no raw metacharacter");
                        if a.contains("&lt;") || a.contains("&amp;") || a.contains("&quot;") {
                            l.nontrivial.insert(fnv(format!("{}|{}", src, ci).as_bytes()));
                        }
                    }
                    Ok(b) => acc.fail(mk("output_differs_from_R", format!("engine {:?} but reference {:?}", a, b))),
                    Err(RErr::Undefined(_)) => l.outcome("outside R, no raw metacharacter"),
                    Err(RErr::Fail(why)) => acc.fail(mk("engine_succeeds", format!("engine renders {:?} but the reference fails: {}", a, why))),
                }
            }
            (Ok(Err(_)), Err(_)) => l.outcome("both fail"),
            (Ok(Err(e)), Ok(b)) => acc.fail(mk("engine_fails", format!("engine error {:#} but reference renders {:?}", e, b))),
        }
    }
}

fn f3(tier: Tier, acc: &Acc) {
    let opts = |d| gen::Opts { depth: d, max_programs: u64::MAX, multi_template: false, loop_controls: true, extra_leaves: false };
    let run = |depth: usize, stride: u64| {
        let o = opts(depth);
        let size = gen::Gen::new(o).size();
        let n_prog = (size + stride - 1) / stride;
        acc.count(&format!("f3_programs_depth{}", depth), n_prog);
        par_chunks(n_prog, 128, acc, |r, l| {
            let g = gen::Gen::new(o);
            let env = base_env();
            for k in r {
                f3_program(&env, &g.program(k * stride), depth, acc, l);
            }
        });
    };
    run(1, 1);
    run(2, tier.pick(7, 1));
    // include / extends / import corpus: S1 only, every template HTML escaped
    let multi = gen::multi_corpus(tier.pick(3, 1));
    acc.count("f3_multi_template_cases", multi.len() as u64);
    par_items(&multi, acc, |_, m, l| {
        let mut env = base_env();
        env.set_auto_escape_callback(|_| AutoEscape::Html);
        for (n, s) in &m.templates {
            if env.add_template_owned(n.to_string(), s.clone()).is_err() {
                l.outcome("does not compile");
                return;
            }
        }
        for (ci, rctx) in f3_contexts().into_iter().enumerate() {
            l.evals += 1;
            let ectx = Value::from_pairs(rctx.iter().map(|(k, v)| (k.clone(), refint::to_engine(v))));
            match catch(|| env.get_template(m.main).and_then(|t| t.render(ectx))) {
                Ok(Ok(s)) => {
                    let templates: BTreeMap<String, String> = m.templates.iter().map(|(n, s)| (n.to_string(), s.clone())).collect();
                    // the hand written frames of this corpus contain '<' '>' as text in two families
                    let own: String = m.templates.iter().map(|(_, s)| s.as_str()).collect();
                    let frame_has_angle = own.contains("%}<{{") || own.contains("}}>{%");
                    let stripped = if frame_has_angle { s.replacen('<', "", 1).replacen('>', "", 1) } else { s.clone() };
                    if let Some(c) = raw_meta(&stripped, false) {
                        acc.fail(Failure {
                            key: format!("programs raw_metachar family={}", m.name.split(':').nth(1).unwrap_or("")),
                            case: format!("{} ctx#{}", m.name, ci),
                            detail: format!("output {:?} contains a raw {:?}", s, c),
                            replay: json!({"family": "multi", "templates": templates, "main": m.main, "ctx": ci, "all_html": true}),
                        });
                    } else {
                        l.outcome("multi-template render, no raw metacharacter");
                        if s.contains("&lt;") {
                            l.nontrivial.insert(fnv(format!("{}|{}", m.name, ci).as_bytes()));
                        }
                    }
                }
                Ok(Err(_)) => l.outcome("error"),
                Err(p) => acc.fail(Failure { key: "programs engine_panics".into(), case: m.name.clone(), detail: p, replay: json!({"family": "multi", "name": m.name}) }),
            }
        }
    });
}

pub fn main(args: Args) -> i32 {
    let start_t = std::time::Instant::now();
    install_quiet_panic_hook();
    let acc = Acc::new();
    if let Some(p) = &args.replay {
        let doc = load_replay(p);
        let j = &doc["replay"];
        let fam = j["family"].as_str().unwrap_or("");
        let mut bad: Vec<String> = vec![];
        match fam {
            "carriers" | "transforms" | "multi" => {
                let templates: BTreeMap<String, String> = j["templates"].as_object().unwrap().iter().map(|(k, v)| (k.clone(), v.as_str().unwrap().to_string())).collect();
                let main = j["main"].as_str().unwrap();
                let got = if fam == "multi" {
                    let mut env = base_env();
                    env.set_auto_escape_callback(|_| AutoEscape::Html);
                    for (n, s) in &templates {
                        env.add_template_owned(n.clone(), s.clone()).unwrap();
                    }
                    let rctx = f3_contexts().swap_remove(j["ctx"].as_u64().unwrap_or(0) as usize);
                    let ectx = Value::from_pairs(rctx.iter().map(|(k, v)| (k.clone(), refint::to_engine(v))));
                    catch(|| env.get_template(main).and_then(|t| t.render(ectx)).map_err(|e| e.to_string()))
                } else {
                    render(&templates, main)
                };
                println!("templates: {:#?}\noutput: {:?}", templates, got);
                match got {
                    Ok(Ok(s)) => {
                        if let Some(e) = j["expect"].as_str() {
                            if s != e {
                                bad.push(format!("got {:?} expected {:?}", s, e));
                            }
                        } else if fam != "multi" {
                            if let Some(c) = raw_meta(&s, j["relaxed"].as_bool().unwrap_or(false)) {
                                bad.push(format!("raw {:?} in {:?}", c, s));
                            }
                        } else if s.matches('<').count() > 1 || s.contains('\'') || s.contains('"') {
                            bad.push(format!("raw metacharacter in {:?}", s));
                        }
                    }
                    Ok(Err(e)) => {
                        if fam == "carriers" {
                            bad.push(format!("render fails: {}", e));
                        }
                    }
                    Err(p) => bad.push(format!("panic: {}", p)),
                }
            }
            _ => {
                let depth = j["depth"].as_u64().unwrap() as usize;
                let g = gen::Gen::new(gen::Opts { depth, max_programs: u64::MAX, multi_template: false, loop_controls: true, extra_leaves: false });
                let prog = g.program(j["index"].as_u64().unwrap());
                println!("source: {}", prog.source());
                let mut l = Local::default();
                f3_program(&base_env(), &prog, depth, &acc, &mut l);
                bad.extend(acc.take_failures().into_iter().map(|f| format!("{} :: {}", f.key, f.detail)));
            }
        }
        return if bad.is_empty() {
            println!("replay: case passes");
            0
        } else {
            for b in &bad {
                println!("VIOLATION property=C02 replay={}  # {}", p, b);
            }
            1
        };
    }
    f1(args.tier, &acc);
    f4(&acc);
    f2(args.tier, &acc);
    f3(args.tier, &acc);
    acc.sample(json!({"family": "carriers", "example": f1_templates("us", &[4, 15, 7], "extends_child").map(|t| t.0)}));
    acc.sample(json!({"family": "transforms", "example": format!("{}{}", PRELUDE, apply(0, "[cap, nest]", "join", "sep"))}));
    let mut extra = serde_json::Map::new();
    extra.insert("carriers".into(), json!(CARRIERS.iter().map(|c| c.name).collect::<Vec<_>>()));
    extra.insert("sources".into(), json!(SOURCES.iter().map(|c| c.0).collect::<Vec<_>>()));
    extra.insert("layouts".into(), json!(LAYOUTS));
    finish(
        Finish {
            property: "C02",
            level: "exploration",
            tier: args.tier,
            seed: args.seed,
            rule: format!(
                "F1: every chain of k <= {} identity carriers out of {} x {} sources x {} layouts, exact oracle: output == HTML-escape-once(text of the source); F4: 864 spellings of an HTML / XML template name (directories and stems with dots, dot files, other extensions in front, .j2 / .jinja / .jinja2 behind) in 6 roles (main template, with captures, included fragment, imported macro library, layout of a child, child of a layout), exact oracle; F2: every value expression of the atom pool (tainted string, literal, captured safe strings, lists, maps, nested, object, operators, displays) x every registered filter except `safe` in 3 application forms + every pycompat method x every argument tuple of arity <= 2 and 16 keyword names over the atom pool, then filter pairs with arity <= 1, oracle S1: no raw < > \" ' in the output (`tojson`: no raw < > '); F3: every depth-1 and {} depth-2 program of G under t.html x 2 tainted contexts, oracle S1 + identical output with R (safe bit per string), and the include/extends/import corpus (every {} program) with S1. distinct non-trivial = cases whose output contains escaped tainted text",
                args.tier.pick(2, 3),
                CARRIERS.len(),
                SOURCES.len(),
                LAYOUTS.len(),
                args.tier.pick("every 7th", "every"),
                args.tier.pick("3rd", ""),
            ),
            exhaustive: true,
            bound: json!({"carrier_chain": args.tier.pick(2, 3), "filter_depth": 2, "arity": 2}),
            assumptions: vec![
                "taint alphabet: one string containing all of < > \" ' &, plus literals, keys, nested members and an object whose Display contains them".into(),
                "double escaping after a transformation (~, slicing, a filter that returns a plain string) is counted as an outcome, not judged: the property's second sentence is about printing what was captured".into(),
            ],
            extra,
            start: start_t,
        },
        &acc,
    )
}
