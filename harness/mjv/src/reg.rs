//! Discovery of the built-in filter / test / function names.  The names are scanned from
//! /repo/minijinja/src/defaults.rs at run time (so a new built-in is picked up) and validated
//! against the engine (`'name' is filter`, `'name' is test`, Environment::globals).
use minijinja::Environment;

pub struct Registry {
    pub filters: Vec<String>,
    pub tests: Vec<String>,
    pub functions: Vec<String>,
}

fn scan(section_start: &str, text: &str) -> Vec<String> {
    let Some(at) = text.find(section_start) else { return vec![] };
    let rest = &text[at..];
    let end = rest.find("\n}\n").unwrap_or(rest.len());
    let body = &rest[..end];
    let mut names = vec![];
    let mut i = 0;
    let bytes = body.as_bytes();
    while let Some(p) = body[i..].find("insert(") {
        let start = i + p + "insert(".len();
        // skip whitespace/newlines
        let mut q = start;
        while q < bytes.len() && (bytes[q] as char).is_whitespace() {
            q += 1;
        }
        if q < bytes.len() && bytes[q] == b'"' {
            if let Some(e) = body[q + 1..].find('"') {
                names.push(body[q + 1..q + 1 + e].to_string());
            }
        }
        i = start;
    }
    names
}

pub fn discover() -> Registry {
    let text = std::fs::read_to_string("/repo/minijinja/src/defaults.rs").unwrap_or_default();
    let env = Environment::new();
    let ask = |name: &str, what: &str| -> bool {
        env.compile_expression(&format!("n is {}", what))
            .and_then(|e| e.eval(minijinja::context! { n => name }))
            .map(|v| v.is_true())
            .unwrap_or(false)
    };
    let mut filters = scan("fn build_builtin_filters()", &text);
    let mut tests = scan("fn build_builtin_tests()", &text);
    // fall back to a static list when the source layout changed
    if filters.len() < 10 {
        filters = "safe escape e lower upper title capitalize replace length count dictsort items reverse trim join split lines default d round abs int float attr first last min max sort list string bool batch slice sum indent select reject selectattr rejectattr map groupby unique chain zip pprint format tojson urlencode"
            .split(' ').map(|s| s.to_string()).collect();
    }
    if tests.len() < 10 {
        tests = "undefined defined none safe escaped boolean odd even divisibleby number integer int float string sequence iterable mapping startingwith endingwith lower upper sameas eq equalto ne lt lessthan le gt greaterthan ge in true false filter test"
            .split(' ').map(|s| s.to_string()).collect();
    }
    filters.retain(|f| ask(f, "filter"));
    tests.retain(|t| ask(t, "test"));
    filters.sort();
    filters.dedup();
    tests.sort();
    tests.dedup();
    let mut functions: Vec<String> = env.globals().map(|(k, _)| k.to_string()).collect();
    functions.sort();
    Registry { filters, tests, functions }
}
