//! C14 — errors point at the right template line; reported ranges are valid slices; formatting
//! never fails.  Syntax errors at every byte / token boundary of a corpus, run-time errors planted in
//! every construct kind, each under vertical and horizontal offsets.
use crate::core::*;
use crate::gen;
use minijinja::{Environment, Error, ErrorKind, UndefinedBehavior};
use serde_json::json;
use std::fmt::Write as _;

#[derive(Clone, Debug)]
struct Case {
    family: &'static str,
    name: String,
    templates: Vec<(String, String)>,
    main: String,
    /// template that contains the failing construct (vertical filler is inserted at its top)
    target: String,
    /// 1-based line of the failing construct inside `target` when known
    expect_line: Option<usize>,
}

#[derive(Clone, Debug, PartialEq)]
struct Entry {
    name: Option<String>,
    line: Option<usize>,
    kind: ErrorKind,
    range: Option<(usize, usize)>,
}

#[derive(Clone, Debug, PartialEq)]
struct Loc {
    kind: ErrorKind,
    detail: Option<String>,
    name: Option<String>,
    line: Option<usize>,
    range: Option<(usize, usize)>,
    /// the error itself followed by every minijinja error in its cause chain
    entries: Vec<Entry>,
}

fn lines_of(s: &str) -> usize {
    s.matches('\n').count() + 1
}

struct Guard(String, std::time::Instant);
impl Drop for Guard {
    fn drop(&mut self) {
        prof(&self.0, self.1);
    }
}
static PROFILE: std::sync::Mutex<std::collections::BTreeMap<String, (u64, u128)>> = std::sync::Mutex::new(std::collections::BTreeMap::new());
fn prof(key: &str, t0: std::time::Instant) {
    let mut p = PROFILE.lock().unwrap();
    let e = p.entry(key.to_string()).or_insert((0, 0));
    e.0 += 1;
    e.1 += t0.elapsed().as_micros();
}

fn run_case(c: &Case) -> Result<Option<(Error, Vec<(String, String)>)>, String> {
    let templates = c.templates.clone();
    let main = c.main.clone();
    catch(move || {
        let mut env = Environment::new();
        env.set_debug(true);
        env.set_undefined_behavior(UndefinedBehavior::Strict);
        env.add_function("probe", || minijinja::Value::from(""));
        let t2 = templates.clone();
        env.set_loader(move |name| Ok(t2.iter().find(|(n, _)| n == name).map(|(_, s)| s.clone())));
        match env.get_template(&main) {
            Err(e) => Some((e, templates)),
            Ok(t) => match t.render(minijinja::context! { xs => vec![1, 2], x => 1 }) {
                Ok(_) => None,
                Err(e) => Some((e, templates)),
            },
        }
    })
}

fn formats_ok(e: &Error) -> Result<(), String> {
    let r = catch(|| {
        let mut s = String::new();
        let mut bad = vec![];
        if write!(s, "{}", e).is_err() {
            bad.push("{}");
        }
        if write!(s, "{:#}", e).is_err() {
            bad.push("{:#}");
        }
        if write!(s, "{:?}", e).is_err() {
            bad.push("{:?}");
        }
        if write!(s, "{:#?}", e).is_err() {
            bad.push("{:#?}");
        }
        if write!(s, "{}", e.display_debug_info()).is_err() {
            bad.push("display_debug_info");
        }
        bad
    });
    match r {
        Err(p) => Err(format!("formatting panicked: {} at {}", p, last_panic_loc())),
        Ok(bad) if !bad.is_empty() => Err(format!("fmt::Error from {:?}", bad)),
        Ok(_) => Ok(()),
    }
}

fn loc_of(e: &Error) -> Loc {
    let ent = |me: &Error| Entry { name: me.name().map(|s| s.to_string()), line: me.line(), kind: me.kind(), range: me.range().map(|r| (r.start, r.end)) };
    let mut entries = vec![ent(e)];
    let mut cur: Option<&(dyn std::error::Error + 'static)> = std::error::Error::source(e);
    while let Some(c) = cur {
        if let Some(me) = c.downcast_ref::<Error>() {
            entries.push(ent(me));
        }
        cur = c.source();
    }
    Loc {
        kind: e.kind(),
        detail: e.detail().map(|s| s.to_string()),
        name: e.name().map(|s| s.to_string()),
        line: e.line(),
        range: e.range().map(|r| (r.start, r.end)),
        entries,
    }
}

/// checks that hold for one error by itself; returns the location
fn check_single(c: &Case, e: &Error, templates: &[(String, String)], variant: &str, big: bool, acc: &Acc) -> Loc {
    let loc = loc_of(e);
    let mk = |clause: &str, detail: String| Failure {
        key: format!("location {} family={} variant={}", clause, c.family, variant.split(':').next().unwrap_or("")),
        case: format!("{} [{}]", c.name, variant),
        detail,
        replay: if big { json!({"main": c.main, "note": "huge variant of the named base case"}) } else { json!({"templates": templates, "main": c.main}) },
    };
    if let Err(m) = formats_ok(e) {
        acc.fail(mk("formatting", m));
    }
    let src_of = |n: &str| templates.iter().find(|(x, _)| x == n).map(|(_, s)| s.as_str());
    match (&loc.name, loc.line) {
        (Some(n), Some(line)) => match src_of(n) {
            None => acc.fail(mk("unknown_template_name", format!("error names template {:?}", n))),
            Some(src) => {
                if line < 1 || line > lines_of(src) {
                    acc.fail(mk("line_out_of_bounds", format!("line {} but template {:?} has {} lines", line, n, lines_of(src))));
                }
            }
        },
        _ => acc.fail(mk("no_location", format!("name={:?} line={:?} kind={:?}", loc.name, loc.line, loc.kind))),
    }
    for ent in loc.entries.iter().skip(1) {
        if let (Some(n), Some(line)) = (&ent.name, &ent.line) {
            match src_of(n) {
                None => acc.fail(mk("chain_unknown_template_name", format!("cause names template {:?}", n))),
                Some(src) => {
                    if *line < 1 || *line > lines_of(src) {
                        acc.fail(mk("chain_line_out_of_bounds", format!("cause line {} but template {:?} has {} lines", line, n, lines_of(src))));
                    }
                }
            }
        }
    }
    if let Some((s, en)) = loc.range {
        match e.template_source() {
            None => acc.fail(mk("range_without_source", format!("range {}..{} but no template_source()", s, en))),
            Some(ts) => {
                if let Some(n) = &loc.name {
                    if src_of(n).is_some() && src_of(n) != Some(ts) {
                        acc.fail(mk("template_source_mismatch", "template_source() is not the source of the named template".into()));
                    }
                }
                if !(s <= en && en <= ts.len()) {
                    acc.fail(mk("range_out_of_bounds", format!("range {}..{} of a {}-byte source", s, en, ts.len())));
                } else if !ts.is_char_boundary(s) || !ts.is_char_boundary(en) {
                    acc.fail(mk("range_not_on_char_boundary", format!("range {}..{} splits a character of {:?}", s, en, ts.chars().take(60).collect::<String>())));
                }
            }
        }
    }
    loc
}

/// lines to surround a failing construct with (plain text: no delimiter characters)
fn neighbour_zoo(tier: Tier) -> Vec<String> {
    let fill: [&str; 4] = ["x", "é", "☃", "😀"];
    let mut lens: Vec<usize> = (0..=300).collect();
    for p in 9..=16u32 {
        let b = 1usize << p;
        lens.extend([b - 1, b, b + 1]);
    }
    let mut v = vec![];
    let make = |len: usize, k: usize, c: usize| -> String {
        // k ASCII characters, then c-byte characters up to at least `len` bytes
        let mut s = "abc"[..k.min(3)].to_string();
        while s.len() < len {
            s.push_str(fill[c - 1]);
        }
        s
    };
    for &len in &lens {
        // three compositions per length; all twelve at the long lengths and in the thorough tier
        let combos: Vec<(usize, usize)> = if len > 300 || tier == Tier::Thorough { (0..4).flat_map(|k| (1..=4).map(move |c| (k, c))).collect() } else { vec![(1, 2), (0, 3), (2, 4)] };
        for (k, c) in combos {
            if len > 40_000 && tier == Tier::Quick && !(k == 1 && c == 2) {
                continue;
            }
            v.push(make(len, k, c));
        }
    }
    v
}

fn shifted(c: &Case, filler: &str, n: usize, hprefix: &str) -> Case {
    let mut c2 = c.clone();
    for (name, src) in c2.templates.iter_mut() {
        if *name == c.target {
            let mut s = String::with_capacity(src.len() + filler.len() * n + hprefix.len());
            for _ in 0..n {
                s.push_str(filler);
            }
            s.push_str(hprefix);
            s.push_str(src);
            *src = s;
        }
    }
    c2
}

fn check_case(c: &Case, tier: Tier, acc: &Acc, l: &mut Local) {
    let mk = |clause: &str, variant: &str, detail: String, templates: &[(String, String)]| Failure {
        key: format!("location {} family={} variant={}", clause, c.family, variant.split(':').next().unwrap_or("")),
        case: format!("{} [{}]", c.name, variant),
        detail,
        replay: json!({"templates": templates, "main": c.main}),
    };
    l.evals += 1;
    let base = match run_case(c) {
        Err(p) => {
            acc.fail(mk("panic", "base", format!("{} at {}", p, last_panic_loc()), &c.templates));
            return;
        }
        Ok(None) => {
            l.outcome("does not fail (skipped)");
            return;
        }
        Ok(Some(x)) => x,
    };
    let base_loc = check_single(c, &base.0, &base.1, "base", false, acc);
    l.outcome(&format!("fails: {:?}", base_loc.kind));
    l.nontrivial.insert(fnv(format!("{:?}", c.templates).as_bytes()));
    if let Some(exp) = c.expect_line {
        if !base_loc.entries.iter().any(|e| e.line == Some(exp) && e.name.as_deref() == Some(c.target.as_str())) {
            acc.fail(mk(
                "wrong_line",
                "base",
                format!("construct is on line {} of {:?} but the error and its causes are located at {:?}", exp, c.target, base_loc.entries.iter().map(|e| (e.name.clone(), e.line)).collect::<Vec<_>>()),
                &c.templates,
            ));
        }
    }
    // vertical offsets
    let target_lines = c.templates.iter().find(|(n, _)| *n == c.target).map(|(_, s)| lines_of(s)).unwrap_or(1);
    // the largest filler keeps the template at exactly 65 535 lines (the property's bound)
    let vmax = 65535usize.saturating_sub(target_lines);
    let vs: Vec<usize> = if tier == Tier::Thorough { vec![1, 2, 17, vmax] } else { vec![1, 17, vmax] };
    // fillers: text lines (one instruction however many), and lines of code (three and more
    // instructions each, so the largest filler puts the failing construct behind some 200 000
    // instructions; for run-time errors and the hand-written syntax faults)
    for (filler, fname) in [("x\n", "lf"), ("x\r\n", "crlf"), ("{{ 1 }}\n", "code"), ("{% if 1 %}{{ [1][0]|string|upper }}{% endif %}{# c #}\n", "code_mixed")] {
        for &n in &vs {
            if fname == "crlf" && n == 17 && tier == Tier::Quick {
                continue;
            }
            if fname.starts_with("code") && (!(c.family == "runtime" || c.family == "syntax_classic") || (n != vmax && n != 17) || (fname == "code_mixed" && tier == Tier::Quick && n == 17)) {
                continue;
            }
            // the largest mixed-code filler costs 0.6 s per case: the quick tier runs it for every fourth case
            if fname == "code_mixed" && n == vmax && tier == Tier::Quick && fnv(c.name.as_bytes()) % 4 != 0 {
                continue;
            }
            let c2 = shifted(c, filler, n, "");
            l.evals += 1;
            let variant = format!("v{}{}:{}", fname, if n > 60000 { "_max" } else { "" }, n);
            let t0 = std::time::Instant::now();
            let rc = run_case(&c2);
            prof(&format!("{} run {}{}", c.family, fname, if n > 60000 { "_max" } else { "" }), t0);
            let t0 = std::time::Instant::now();
            let _g = Guard(format!("{} check {}{}", c.family, fname, if n > 60000 { "_max" } else { "" }), t0);
            match rc {
                Err(p) => acc.fail(mk("panic", &variant, format!("{} at {}", p, last_panic_loc()), &[])),
                Ok(None) => acc.fail(mk("failure_disappears", &variant, "template fails without filler lines but not with them".into(), &[])),
                Ok(Some((e, tpls))) => {
                    let loc = check_single(&c2, &e, &tpls, &variant, n > 100, acc);
                    if loc.kind != base_loc.kind || loc.detail != base_loc.detail || loc.name != base_loc.name || loc.entries.len() != base_loc.entries.len() {
                        acc.fail(mk("error_changes_with_offset", &variant, format!("base {:?}/{:?}/{:?} shifted {:?}/{:?}/{:?}", base_loc.kind, base_loc.detail, base_loc.name, loc.kind, loc.detail, loc.name), &[]));
                        continue;
                    }
                    // only errors located in the shifted template move
                    for (b0, b1) in base_loc.entries.iter().zip(loc.entries.iter()) {
                        let moves = b0.name.as_deref() == Some(c.target.as_str());
                        let dl = if moves { n } else { 0 };
                        if b0.name != b1.name || b0.kind != b1.kind {
                            acc.fail(mk("error_changes_with_offset", &variant, format!("chain entry {:?} became {:?}", b0, b1), &[]));
                        }
                        if let (Some(a), Some(b)) = (b0.line, b1.line) {
                            if b != a + dl {
                                acc.fail(mk("line_shift", &variant, format!("{:?}: base line {} + {} inserted lines but shifted error reports line {}", b0.name, a, dl, b), &[]));
                            }
                        }
                        if let (Some((s0, e0)), Some((s1, e1))) = (b0.range, b1.range) {
                            let db = if moves { filler.len() * n } else { 0 };
                            if s1 != s0 + db || e1 != e0 + db {
                                acc.fail(mk("range_shift", &variant, format!("base range {}..{} + {} bytes but got {}..{}", s0, e0, db, s1, e1), &[]));
                            }
                        }
                    }
                }
            }
        }
    }
    let _gr = Guard(format!("{} residue+horizontal", c.family), std::time::Instant::now());
    // residue: what was compiled before on the same thread must not change the report.  Each prior is
    // compiled with its construct on the line of the failing one and the case is run straight after it
    // on the same thread; the full location (every chain entry, lines and ranges) must equal the base
    // one.  The worker thread's own history (every earlier case and prior) is one more start state; a
    // truly fresh OS thread is the anchor for every run-time / classic case, for every 16th case of the
    // other families in the quick tier and for every case in the thorough tier (thread creation is
    // the expensive step in this sandbox, so it is not spent thirteen times per case)
    {
        let run_prior = |p: &str| {
            let _ = catch(|| {
                let env = Environment::new();
                let _ = env.template_from_str(p).map(|t| t.render(minijinja::context! { xs => vec![1, 2] }).ok());
                let _ = env.compile_expression("ns.a if b else [c, {'d': e}]|f(g=h)");
            });
        };
        let line = base_loc.entries.iter().filter_map(|e| e.line).next().unwrap_or(1);
        let fresh_anchor = tier == Tier::Thorough || c.family == "runtime" || c.family == "syntax_classic" || l.evals % 16 == 0;
        if fresh_anchor {
            let c3 = c.clone();
            l.evals += 1;
            let fresh = std::thread::spawn(move || run_case(&c3).map(|r| r.map(|(e, _)| loc_of(&e)))).join().unwrap_or_else(|_| Err("thread died".into()));
            match fresh {
                Ok(Some(ref loc)) if *loc == base_loc => {}
                other => acc.fail(Failure {
                    key: format!("location depends_on_earlier_compilation family={} prior=worker_history", c.family),
                    case: format!("{} after the worker's history", c.name),
                    detail: format!("on a fresh thread {:?}; on a thread that compiled other templates before {:?}", other, base_loc),
                    replay: json!({"templates": c.templates, "main": c.main}),
                }),
            }
        }
        for (pname, stmt) in PRIORS {
            l.evals += 1;
            let prior = format!("{}{}", "\n".repeat(line.saturating_sub(1)), stmt);
            run_prior(&prior);
            match run_case(c).map(|r| r.map(|(e, _)| loc_of(&e))) {
                Ok(Some(loc)) if loc == base_loc => {}
                other => acc.fail(Failure {
                    key: format!("location depends_on_earlier_compilation family={} prior={}", c.family, pname),
                    case: format!("{} after {}", c.name, pname),
                    detail: format!("base report {:?}; after compiling {:?} on the same thread {:?}", base_loc, prior, other),
                    replay: json!({"templates": c.templates, "main": c.main, "prior": prior}),
                }),
            }
        }
    }
    // neighbour lines: the excerpt a report shows is made of the lines around the failing one.  Lines of
    // every length 0..=300 and of lengths around every power of two up to 65 537, made of 1- to 4-byte
    // characters behind 0..3 ASCII characters (so that for every byte offset some line has a character
    // straddling it), are placed directly above the failing construct (three per case) and, for
    // run-time errors, also below it; the report must still format in all five forms, keep its kind,
    // and move by the number of lines inserted above
    if c.family == "runtime" || c.family == "syntax_classic" || fnv(c.name.as_bytes()) % 64 == 0 {
        let zoo = neighbour_zoo(tier);
        let per_case = 3usize;
        let stride = if c.family == "runtime" || c.family == "syntax_classic" { 1 } else { 4 };
        let mut k = 0usize;
        while k < zoo.len() {
            let lines: Vec<&String> = zoo[k..(k + per_case).min(zoo.len())].iter().collect();
            k += per_case * stride;
            let above: String = lines.iter().map(|l| format!("{}\n", l)).collect();
            for below in [false, true] {
                if below && c.family != "runtime" {
                    continue;
                }
                let mut c2 = shifted(c, "", 0, &above);
                if below {
                    let tail: String = lines.iter().map(|l| format!("\n{}", l)).collect();
                    for (name, src) in c2.templates.iter_mut() {
                        if *name == c.target {
                            src.push_str(&tail);
                        }
                    }
                }
                l.evals += 1;
                let variant = format!("neighbours{}:{}", if below { "_both" } else { "_above" }, k);
                match run_case(&c2) {
                    Err(p) => acc.fail(mk("panic", &variant, format!("{} at {}", p, last_panic_loc()), &c2.templates)),
                    Ok(None) => acc.fail(mk("failure_disappears", &variant, "template fails without neighbour lines but not with them".into(), &c2.templates)),
                    Ok(Some((e, tpls))) => {
                        let loc = check_single(&c2, &e, &tpls, &variant, true, acc);
                        if loc.kind != base_loc.kind || loc.name != base_loc.name {
                            acc.fail(mk("error_changes_with_offset", &variant, format!("base {:?}/{:?} with neighbours {:?}/{:?}", base_loc.kind, base_loc.name, loc.kind, loc.name), &c2.templates));
                            continue;
                        }
                        for (b0, b1) in base_loc.entries.iter().zip(loc.entries.iter()) {
                            let moves = b0.name.as_deref() == Some(c.target.as_str());
                            if let (Some(a), Some(b), true) = (b0.line, b1.line, moves) {
                                if b != a + lines.len() {
                                    acc.fail(mk("line_shift", &variant, format!("base line {} + {} neighbour lines above but the error reports line {}", a, lines.len(), b), &c2.templates));
                                }
                            }
                        }
                    }
                }
            }
        }
    }
    // horizontal offsets: a prefix on the first line of the target template
    for (hp, hname) in [("abc", "h3"), ("é☃", "h_multibyte"), (&*"a".repeat(70_000), "h70000")] {
        let c2 = shifted(c, "", 0, hp);
        l.evals += 1;
        match run_case(&c2) {
            Err(p) => acc.fail(mk("panic", hname, format!("{} at {}", p, last_panic_loc()), &[])),
            Ok(None) => {
                // a text prefix can legitimately change the meaning (e.g. `extends` must come first)
                l.outcome("horizontal prefix removes the failure");
            }
            Ok(Some((e, tpls))) => {
                let loc = check_single(&c2, &e, &tpls, hname, hp.len() > 100, acc);
                if loc.kind == base_loc.kind && loc.detail == base_loc.detail && loc.name == base_loc.name {
                    if loc.line != base_loc.line {
                        acc.fail(mk("line_changes_with_horizontal_prefix", hname, format!("{:?} -> {:?}", base_loc.line, loc.line), &[]));
                    }
                    let moves = base_loc.name.as_deref() == Some(c.target.as_str());
                    if let (Some((s0, e0)), Some((s1, e1)), true) = (base_loc.range, loc.range, moves) {
                        if s1 != s0 + hp.len() || e1 != e0 + hp.len() {
                            acc.fail(mk("range_shift_horizontal", hname, format!("base range {}..{} + {} bytes but got {}..{}", s0, e0, hp.len(), s1, e1), &[]));
                        }
                    }
                }
                let _ = tpls;
            }
        }
    }
}

fn valid_corpus() -> Vec<String> {
    let mut v: Vec<String> = [
        "a{{ x }}b",
        "{{ x|upper }}{{ 'é☃' ~ \"q\" }}",
        "{% if x %}a{% elif y %}b{% else %}c{% endif %}",
        "{% for i in xs %}{{ i }}{% else %}e{% endfor %}",
        "{% for a, b in m|items if a %}{{ loop.index }}{% endfor %}",
        "{% set x = 1 %}{% set a, b = 1, 2 %}{% set y %}z{% endset %}",
        "{% with a = 1, b = 2 %}{{ a }}{% endwith %}",
        "{% macro m(a, b=2) %}{{ a }}{% endmacro %}{{ m(1, b=3) }}",
        "{% call(q) m(1) %}{{ q }}{% endcall %}",
        "{% filter upper %}a{% endfilter %}",
        "{% autoescape true %}{{ x }}{% endautoescape %}",
        "{% raw %}{{ raw }}{% endraw %}",
        "{# comment é #}text",
        "{% block b %}x{% endblock %}",
        "{% extends 'p' %}{% block b %}{{ super() }}{% endblock b %}",
        "{% include 'i' %}{% include ['a', 'b'] ignore missing %}",
        "{% import 'l' as l %}{% from 'l' import a as b, c %}",
        "{{ [1, 2, (3, 4), {'a': 1}] }}{{ x[1:2] }}{{ x.y[0]['z'] }}",
        "{{ 1 + 2 * 3 // 4 % 5 ** 6 - -7 }}{{ a and b or not c }}{{ a < b <= c != d }}",
        "{{ a if b else c }}{{ x is defined }}{{ x is not none }}{{ 1 in [1] }}{{ 2 not in [1] }}",
        "{{ f(1, *a, k=2, **kw) }}{{ 0x1f }}{{ 1.5e3 }}{{ 1_000 }}",
        "{% do x.append(1) %}",
        "{%- if x -%} a {%+ endif +%}",
        "é☃😀{{ 'é☃😀' }}é☃😀",
        "{{ 'a\\n\\u00e9\\x41' }}",
        "{% for i in xs recursive %}{{ loop(i) }}{% endfor %}",
        "{% for i in xs %}{% break %}{% continue %}{% endfor %}",
        "line1\nline2 {{ x }}\nline3 {% if x %}\n{{ y }}\n{% endif %}\n",
        "line1\r\nline2 {{ x }}\r\n{% for i in xs %}\r\n{{ i }}\r\n{% endfor %}",
    ]
    .iter()
    .map(|s| s.to_string())
    .collect();
    let g = gen::Gen::new(gen::Opts { depth: 1, max_programs: u64::MAX, multi_template: false, loop_controls: true, extra_leaves: false });
    let mut n = 0;
    while n < g.size() {
        v.push(g.program(n).source());
        n += 13;
    }
    v
}

fn syntax_cases(tier: Tier) -> Vec<Case> {
    let mut out = vec![];
    let inserts: &[&str] = &["{{", "}}", "{%", "%}", "'", "\"", "{#", "\\", "é", "{% endfor %}", "{{ 1 +", "{% set %}"];
    for (ti, t) in valid_corpus().iter().enumerate() {
        let stride = if ti < 29 || tier == Tier::Thorough { 1 } else { 3 };
        let mut positions: Vec<usize> = (0..=t.len()).filter(|p| t.is_char_boundary(*p)).collect();
        positions = positions.into_iter().step_by(stride).collect();
        for &p in &positions {
            // truncation
            out.push(Case { family: "syntax_truncate", name: format!("corpus#{} cut@{}", ti, p), templates: vec![("main".into(), t[..p].to_string())], main: "main".into(), target: "main".into(), expect_line: None });
            // multi-byte text right before the fault
            out.push(Case { family: "syntax_truncate_mb", name: format!("corpus#{} cut@{} +mb", ti, p), templates: vec![("main".into(), format!("é☃{}", &t[..p]))], main: "main".into(), target: "main".into(), expect_line: None });
        }
        let ins_stride = if tier == Tier::Thorough { 1 } else { 2 };
        for &p in positions.iter().step_by(ins_stride) {
            for (ii, ins) in inserts.iter().enumerate() {
                if tier == Tier::Quick && ti >= 29 && ii % 3 != 0 {
                    continue;
                }
                out.push(Case { family: "syntax_insert", name: format!("corpus#{} ins#{}@{}", ti, ii, p), templates: vec![("main".into(), format!("{}{}{}", &t[..p], ins, &t[p..]))], main: "main".into(), target: "main".into(), expect_line: None });
            }
        }
    }
    // classic single faults
    for (i, s) in [
        "{% set true = 1 %}", "{% set loop = 1 %}", "{% block a %}{% endblock %}{% block a %}{% endblock %}", "{% for %}", "{% endif %}", "{{ 1 +* 2 }}", "{{ 'unterminated",
        "{# unterminated", "{% raw %}unterminated", "{{ \"\\uZZZZ\" }}", "{{ 99999999999999999999999999999999999999999 }}", "{{ 1.2.3 }}", "{% macro m(a, a) %}{% endmacro %}",
        "{% extends 'a' %}{% extends 'b' %}", "{% include %}", "{% from 'x' import %}", "{% call %}{% endcall %}", "{{ x | }}", "{{ x is }}", "{{ [1, 2 }}", "{{ {1: } }}", "{{ f(a=1, 2) }}",
        "{% if x %}{% else %}{% else %}{% endif %}", "{% for i in x %}{% endfor i %}", "{% block a %}{% endblock b %}", "{% unknown_tag %}", "{%%}", "{{}}", "{{ é }}", "abc {{ é }}", "abc {{ 'x",
        "{{ x.é }}", "{{ x['é'].☃ }}", "{% set é = 1 %}", "{{ 1 }} {{ ☃ }}", "a\nb\n{{ é }}", "{{ 'é' 'é' }}",
    ]
    .iter()
    .enumerate()
    {
        out.push(Case { family: "syntax_classic", name: format!("classic#{}", i), templates: vec![("main".into(), s.to_string())], main: "main".into(), target: "main".into(), expect_line: None });
        out.push(Case { family: "syntax_classic", name: format!("classic#{} tail", i), templates: vec![("main".into(), format!("l1\nl2 é\n{}\nl4", s))], main: "main".into(), target: "main".into(), expect_line: None });
    }
    out
}

/// templates compiled before a case on the same thread (one per statement kind, plus ones that fail
/// to compile half way): the compiler's thread-local scratch pools must come back clean
const PRIORS: &[(&str, &str)] = &[
    ("set_namespace_attr", "{% set ns = namespace() %}{% set ns.a = 1 %}{% set ns.b = ns.a %}"),
    ("set_unpack", "{% set a, (b, c) = 1, (2, 3) %}{% set d %}x{% endset %}"),
    ("for_else", "{% for i, j in xs|map('list') if i %}{{ loop.index }}{% else %}e{% endfor %}"),
    ("macro_call", "{% macro m(a, b=1) %}{{ a }}{{ caller() if caller }}{% endmacro %}{{ m(1) }}{% call(q) m(2) %}{{ q }}{% endcall %}"),
    ("with_filter_autoescape", "{% with a = 1, b = 2 %}{% filter upper|trim %}{% autoescape 'html' %}{{ a }}{% endautoescape %}{% endfilter %}{% endwith %}"),
    ("if_chain", "{% if a.b %}b{% elif c[0] %}d{% else %}{{ 1 if x }}{% endif %}"),
    ("blocks", "{% block b %}{{ super() if false }}{% block inner %}{% endblock %}{% endblock %}{{ self.b() }}"),
    ("include_import", "{% include ['nope'] ignore missing %}{% if false %}{% from 'nope' import y %}{% import 'nope' as n %}{% extends 'nope' %}{% endif %}"),
    ("expression_zoo", "{{ a.b[c](d, *e, **f)|g(h=i) is j(k) and not l or m ~ n in o }}{{ [1, (2, 3), {'k': -p ** 2}] }}"),
    ("fails_in_expression", "{% set ns.a = 1 + %}"),
    ("fails_in_nested_blocks", "{% for i in xs %}{% with a = 1 %}{% set ns.b = i %}{% if %}"),
    ("fails_unclosed", "{% macro m() %}{% set ns.c = 1 %}{% for i in xs %}"),
];

fn runtime_cases() -> Vec<Case> {
    let faults = [
        "{{ 1|nofilter }}", "{{ 1 is notest }}", "{{ nofunc() }}", "{{ 1 // 0 }}", "{{ xs|join(1, 2, 3, 4) }}", "{% for a, b in [1] %}{% endfor %}", "{% include 'missing' %}",
        "{{ 'é☃' + 1 }}", "{{ undefined_var }}", "{{ xs.nope.deeper }}", "{{ range(10, 0, 0) }}", "{{ xs[1:2:0] }}", "{% set a, b = 1 %}", "{{ x() }}", "{{ 'é' ~ (1 // 0) ~ 'é' }}",
        "{% if undefined_var %}{% endif %}", "{{ xs|map('nofilter')|list }}", "{{ dict(1) }}", "{% do nofunc() %}", "{% import 'missing' as m %}", "{{ 1 is divisibleby }}",
        // calls that are instructions of their own (block calls through self, super, caller) failing as
        // such: unknown block, no parent block, no caller - as the whole expression and inside one
        "{{ self.missing() }}", "{{ self.missing()|upper }}", "{% set q = self.missing() %}", "{{ super() }}", "{{ super()|upper }}", "{{ caller() }}", "{% if self.missing() %}{% endif %}",
        // faults raised by instructions that carry no span of their own
        "{% autoescape 'bogus' %}x{% endautoescape %}", "{% set q = not undefined_var %}", "{% set q = 1 if undefined_var %}", "{% for i in undefined_var %}{% endfor %}",
        "{% with a = undefined_var.x %}{% endwith %}", "{% set q = xs|sort(attribute=undefined_var.y) %}",
        // the same kind of instruction after a nested sub-expression that has a span of its own
        "{% autoescape xs.nope %}x{% endautoescape %}", "{% set q = not xs.nope %}", "{% set q = 1 if xs.nope %}", "{% with a = not xs[9] %}{% endwith %}", "{% filter indent(xs.nope) %}x{% endfilter %}",
    ];
    // wrappers: (label, templates with {F} on a line of its own, main, target)
    let wrappers: Vec<(&str, Vec<(&str, &str)>, &str, &str)> = vec![
        ("plain", vec![("main", "a\n{F}\nb")], "main", "main"),
        ("in_for", vec![("main", "{% for i in xs %}\nx\n{F}\n{% endfor %}")], "main", "main"),
        ("in_if_else", vec![("main", "{% if false %}\n{% else %}\n\n{F}\n{% endif %}")], "main", "main"),
        ("in_with", vec![("main", "{% with q = 1 %}\n{F}{% endwith %}")], "main", "main"),
        ("in_macro", vec![("main", "{% macro mm() %}\n\n{F}\n{% endmacro %}\nx\n{{ mm() }}")], "main", "main"),
        ("in_call_block", vec![("main", "{% macro mm() %}{{ caller() }}{% endmacro %}\n{% call mm() %}\n{F}\n{% endcall %}")], "main", "main"),
        ("in_set_block", vec![("main", "{% set y %}\n{F}\n{% endset %}")], "main", "main"),
        ("in_filter_block", vec![("main", "{% filter upper %}\nq\n{F}\n{% endfilter %}")], "main", "main"),
        ("in_autoescape", vec![("main", "{% autoescape true %}\n{F}\n{% endautoescape %}")], "main", "main"),
        ("in_child_block", vec![("main", "{% extends 'base' %}\n{% block b %}\n{F}\n{% endblock %}"), ("base", "top\n{% block b %}{% endblock %}\n")], "main", "main"),
        ("in_parent_block", vec![("main", "{% extends 'base' %}\n{% block c %}c{% endblock %}"), ("base", "top\n{% block b %}\n\n{F}\n{% endblock %}{% block c %}{% endblock %}")], "main", "base"),
        ("in_super", vec![("main", "{% extends 'base' %}\n{% block b %}[{{ super() }}]{% endblock %}"), ("base", "top\n{% block b %}\n{F}\n{% endblock %}")], "main", "base"),
        ("in_included", vec![("main", "a\n{% include 'inc' %}\nb"), ("inc", "i1\ni2\n{F}\ni4")], "main", "inc"),
        ("in_included_in_loop", vec![("main", "{% for i in xs %}\n{% include 'inc' %}{% endfor %}"), ("inc", "{F}")], "main", "inc"),
        ("in_imported_macro", vec![("main", "{% from 'lib' import lm %}\n\n{{ lm() }}"), ("lib", "{% macro lm() %}\nq\n{F}\n{% endmacro %}")], "main", "lib"),
        ("in_imported_toplevel", vec![("main", "x\n{% import 'lib' as l %}"), ("lib", "q\n{F}\n")], "main", "lib"),
        ("in_recursive_loop", vec![("main", "{% for i in [[1]] recursive %}\n{% if i is iterable %}{{ loop(i) }}{% else %}\n{F}\n{% endif %}{% endfor %}")], "main", "main"),
        // multi-line tokens before the failing construct: the line counter has to follow them
        ("after_multiline_string", vec![("main", "{{ 'a\nb\nc' }}\n{{ \"d\ne\" ~ 'f' }}\n{F}\nz")], "main", "main"),
        ("after_multiline_string_in_block_tag", vec![("main", "{% set q = 'a\n\nb' %}{% if 'x\ny' %}\n{F}{% endif %}")], "main", "main"),
        ("after_multiline_tag", vec![("main", "{% set q = [1,\n  2,\n  3] %}\n{{ q|join(\n',') }}\n{F}")], "main", "main"),
        ("after_multiline_comment", vec![("main", "{# a\nb\nc #}\n{F}")], "main", "main"),
        ("after_multiline_raw", vec![("main", "{% raw %}\n{{ x }}\n{% endraw %}\n{F}")], "main", "main"),
        ("after_crlf_lines", vec![("main", "a\r\nb\r\n{{ 'c\r\nd' }}\r\n{F}")], "main", "main"),
        ("after_multiline_string_in_macro_args", vec![("main", "{% macro mm(a) %}{{ a }}{{ caller() if caller is defined }}{% endmacro %}{{ mm('1\n2\n3') }}\n{% call mm('x\ny') %}{% endcall %}\n{F}")], "main", "main"),
        ("in_included_after_multiline_string", vec![("main", "{{ 'a\nb' }}{% include 'inc' %}"), ("inc", "{{ 'p\nq\nr' }}\n{F}")], "main", "inc"),
        // earlier statements of the same template (each leaves its own traces in the code generator)
        ("after_set_namespace_attr", vec![("main", "{% set ns = namespace() %}\n{% set ns.a = 1 %}\n\n{F}")], "main", "main"),
        ("after_set_namespace_attr_same_line", vec![("main", "{% set ns = namespace() %}{% set ns.a = [1,\n 2] %}{% set ns.b = ns.a %} {F}")], "main", "main"),
        ("after_set_namespace_attr_in_block", vec![("main", "{% set ns = namespace() %}{% set ns.a = 1 %}\n{% block b %}\nq\n{F}\n{% endblock %}")], "main", "main"),
        ("after_unpacking_set_and_loop", vec![("main", "{% set a, (b, c) = 1, (2, 3) %}\n{% for i, j in [(1, 2)] %}{{ i }}{% endfor %}\n{F}")], "main", "main"),
        ("after_macro_and_call", vec![("main", "{% macro mm(a, b=1) %}{{ a }}{{ caller() }}{% endmacro %}\n{% call mm(1) %}x{% endcall %}\n\n{F}")], "main", "main"),
        ("after_filter_and_set_block", vec![("main", "{% filter upper|trim %}x{% endfilter %}{% set c | upper %}y{% endset %}\n{F}")], "main", "main"),
        ("after_nested_expression", vec![("main", "{{ (xs[0] + x)|default(3, true) is defined and xs|map('string')|join(', ')|length > 2 }}\n{{ [1, (2, 3), {'k': -x ** 2}] }}\n{F}")], "main", "main"),
        ("after_if_elif_chain", vec![("main", "{% if not xs %}a{% elif xs[0] > 5 %}b{% else %}{{ 1 if x }}{% endif %}\n\n\n{F}")], "main", "main"),
        ("three_level", vec![("main", "{% extends 'mid' %}"), ("mid", "{% extends 'base' %}\n{% block b %}\n{{ super() }}\n{% endblock %}"), ("base", "{% block b %}\n\n\n{F}{% endblock %}")], "main", "base"),
    ];
    let mut out = vec![];
    for (fi, f) in faults.iter().enumerate() {
        for (label, tpls, main, target) in &wrappers {
            let templates: Vec<(String, String)> = tpls.iter().map(|(n, s)| (n.to_string(), s.replace("{F}", f))).collect();
            let tsrc = tpls.iter().find(|(n, _)| n == target).unwrap().1;
            let line = tsrc[..tsrc.find("{F}").unwrap()].matches('\n').count() + 1;
            out.push(Case { family: "runtime", name: format!("fault#{} {}", fi, label), templates, main: main.to_string(), target: target.to_string(), expect_line: Some(line) });
        }
    }
    out
}

pub fn main(args: Args) -> i32 {
    let start_t = std::time::Instant::now();
    install_quiet_panic_hook();
    let acc = Acc::new();
    if let Some(p) = &args.replay {
        let doc = load_replay(p);
        let j = &doc["replay"];
        let templates: Vec<(String, String)> = j["templates"].as_array().map(|a| a.iter().map(|t| (t[0].as_str().unwrap().to_string(), t[1].as_str().unwrap().to_string())).collect()).unwrap_or_default();
        if templates.is_empty() {
            println!("this violation class involves a 70 000-column or 65 533-line variant; re-run ./check C14 to reproduce (the replay file names the base case)");
            return 0;
        }
        let c = Case { family: "replay", name: "replay".into(), templates, main: j["main"].as_str().unwrap().to_string(), target: j["main"].as_str().unwrap().to_string(), expect_line: None };
        let mut l = Local::default();
        check_case(&c, Tier::Thorough, &acc, &mut l);
        let fs = acc.take_failures();
        return if fs.is_empty() {
            println!("replay: case passes");
            0
        } else {
            for f in &fs {
                println!("VIOLATION property=C14 replay={}  # {} :: {}", p, f.key, f.detail);
            }
            1
        };
    }
    let mut cases = syntax_cases(args.tier);
    let n_syntax = cases.len();
    cases.extend(runtime_cases());
    acc.count("syntax_cases", n_syntax as u64);
    acc.count("runtime_cases", (cases.len() - n_syntax) as u64);
    par_chunks(cases.len() as u64, 16, &acc, |r, l| {
        for i in r {
            check_case(&cases[i as usize], args.tier, &acc, l);
        }
    });
    if std::env::var("VERIF_PROFILE").is_ok() {
        for (k, (n, us)) in PROFILE.lock().unwrap().iter() {
            eprintln!("profile {:40} n={:7} total={:9.1}s mean={:8.2}ms", k, n, *us as f64 / 1e6, *us as f64 / 1e3 / *n as f64);
        }
    }
    acc.sample(json!({"case": cases[100].templates, "offsets": "vertical 1/17/65533 filler lines (LF and CRLF), horizontal prefixes 'abc', 'é☃', 70 000 x 'a'"}));
    acc.sample(json!({"case": cases[cases.len() - 5].templates, "expected_template": cases[cases.len() - 5].target, "expected_line": cases[cases.len() - 5].expect_line}));
    finish(
        Finish {
            property: "C14",
            level: "exploration",
            tier: args.tier,
            seed: args.seed,
            rule: "syntax errors: a corpus of 29 hand-written templates covering every tag and literal form plus every 13th depth-1 generator program, truncated at every character boundary (also with multi-byte text in front) and with 12 stray tokens inserted at every (quick: every other) boundary, plus 37 classic faults; run-time errors: 32 failing constructs (eleven of them raised by instructions without a span of their own, five of those after a nested sub-expression) x 34 placements (plain, for, if/else, with, macro, call block, set block, filter block, autoescape, child block, parent block, super, include, include in loop, imported macro, import top level, recursive loop, three-level inheritance, after earlier statements of the same template (namespace attribute assignments, unpacking, macros and call blocks, filter and set blocks, nested expressions, if chains), and after multi-line string literals / tags / comments / raw blocks / CRLF lines) with the expected template and line computed from the placement; every failing case is re-run with 1/17/65 533 (thorough also 2) filler lines of text above (LF and CRLF), run-time errors and classic faults also with 17 and 65 533 lines of code above (print statements; if + attribute + filter + comment, the largest of those for every fourth case in the quick tier), which puts the failing construct behind up to 5e5 instructions, and with 3-byte, multi-byte and 70 000-byte prefixes; oracle: located name+line inside the named source for the error and every located cause, kind/detail/name unchanged and line shifted by exactly N, ranges in bounds, on char boundaries, equal to the named template's source and shifted by the inserted byte count, all five formatting forms succeed; residue: every failing case is re-run straight after each of 12 prior templates (one per statement kind, three failing to compile half way) was compiled on the same thread with its construct on the failing line, and the full location (every chain entry, lines, ranges) must equal the base one; the worker thread's accumulated history is a further start state, anchored by a run on a fresh OS thread for every run-time and classic case, every 16th other case (thorough: every case). distinct non-trivial = distinct failing template sets".into(),
            exhaustive: true,
            bound: json!({"vertical": [1, 2, 17, 65533], "horizontal": [3, 5, 70000]}),
            assumptions: vec!["Strict undefined mode so that undefined reads are errors".into(), "cases that compile and render successfully are skipped (counted in the outcome histogram)".into()],
            extra: Default::default(),
            start: start_t,
        },
        &acc,
    )
}
