//! C11 — run-time recursion is cut off by the recursion limit, never by the native stack (E5).
use crate::core::*;
use crate::crash::{self, ChildCtx};
use minijinja::value::Value;
use minijinja::{context, Environment};
use serde_json::json;
use std::time::Duration;

#[derive(Clone, Debug)]
struct Shape {
    name: String,
    family: &'static str,
    templates: Vec<(String, String)>,
    main: String,
    /// true: the recursion is unbounded, the only acceptable outcome is the limit error
    infinite: bool,
    /// the same recursion without what each level attempts (and the embedding program handles) on the
    /// side: it must be cut off at the same level
    baseline: Option<String>,
}

const WRAPPERS: &[(&str, &str, &str)] = &[
    ("plain", "", ""),
    ("call_block", "{% call w() %}", "{% endcall %}"),
    ("filter_block", "{% filter upper %}", "{% endfilter %}"),
    ("set_block", "{% set cap %}", "{% endset %}{{ cap }}"),
    ("for_loop", "{% for q in [1] %}", "{% endfor %}"),
    ("with", "{% with z = 1 %}", "{% endwith %}"),
    ("if", "{% if true %}", "{% endif %}"),
    ("autoescape", "{% autoescape true %}", "{% endautoescape %}"),
];

const WORK: &[(&str, &str, &str)] = &[
    ("nowork", "", ""),
    ("nested_work", "{% for q1 in [1] %}{% with z1 = q1 %}{% if z1 %}{% for q2 in [1] %}", "{% endfor %}{% endif %}{% endwith %}{% endfor %}"),
    ("capture_work", "{% set c1 %}{% filter lower %}{% set c2 %}", "{% endset %}{{ c2|upper|trim|string }}{% endfilter %}{% endset %}{{ c1|length }}"),
];

const SIDES: &[(&str, &str)] = &[
    ("noside", ""),
    ("after_helper_macro", "{{ hp(d) }}"),
    ("after_helper_every_other_frame", "{% if d % 2 %}{{ hp(d) }}{% endif %}"),
    ("after_returned_call_block", "{% call w() %}x{% endcall %}"),
    ("after_include", "{% include 'leaf' %}"),
    ("after_imported_helper", "{% from 'lib' import ih %}{{ ih() }}"),
    ("after_filter_and_test", "{{ [d]|map('string')|join }}{{ d is even }}"),
];

fn shapes(tier: Tier) -> Vec<Shape> {
    let mut v = vec![];
    let max_cycle = tier.pick(2, 3);
    // family A: macro cycles in one template, every edge wrapped by a scoped construct
    for len in 1..=max_cycle {
        let nw = WRAPPERS.len();
        for code in 0..nw.pow(len as u32) {
            let mut ws = vec![];
            let mut k = code;
            for _ in 0..len {
                ws.push(k % nw);
                k /= nw;
            }
            for (wi, (wname, wpre, wpost)) in WORK.iter().enumerate() {
                if tier == Tier::Quick && len == 2 && wi == 2 {
                    continue;
                }
                // what a frame does (and gets back from) before it recurses: the limit must count the
                // frames on the native stack whatever returned in between
                for (si, (sname, side)) in SIDES.iter().enumerate() {
                    if si > 0 && (wi == 2 || (tier == Tier::Quick && len == 2 && wi == 1) || len == 3) {
                        continue;
                    }
                    let mut src = String::from("{% macro w() %}{{ caller() }}{% endmacro %}{% macro hp(v) %}{{ v }}{% endmacro %}");
                    for (i, w) in ws.iter().enumerate() {
                        let next = (i + 1) % len;
                        let (_, pre, post) = WRAPPERS[*w];
                        src.push_str(&format!("{{% macro m{}(d) %}}{}{}{}{{{{ m{}(d + 1) }}}}{}{}{{% endmacro %}}", i, wpre, pre, side, next, post, wpost));
                    }
                    src.push_str("{{ m0(0) }}");
                    v.push(Shape {
                        name: format!("macro_cycle[{}] {}{}", ws.iter().map(|w| WRAPPERS[*w].0).collect::<Vec<_>>().join(">"), wname, if si > 0 { format!(" {}", sname) } else { String::new() }),
                        family: "macro_cycle",
                        templates: vec![("main".into(), src), ("leaf".into(), "leaf{{ d }}".into()), ("lib".into(), "{% macro ih() %}ih{% endmacro %}".into())],
                        main: "main".into(),
                        infinite: true,
                        baseline: None,
                    });
                }
            }
        }
    }
    // family B: include cycles across templates
    let placements: &[(&str, &str, &str)] = &[
        ("top", "", ""),
        ("in_for", "{% for q in [1] %}", "{% endfor %}"),
        ("in_macro", "{% macro mm() %}", "{% endmacro %}{{ mm() }}"),
        ("in_block", "{% block b %}", "{% endblock %}"),
        ("in_with_filter", "{% with z = 1 %}{% filter upper %}", "{% endfilter %}{% endwith %}"),
    ];
    for len in 1..=max_cycle {
        let np = placements.len();
        for code in 0..np.pow(len as u32) {
            let mut ps = vec![];
            let mut k = code;
            for _ in 0..len {
                ps.push(k % np);
                k /= np;
            }
            let templates: Vec<(String, String)> = ps
                .iter()
                .enumerate()
                .map(|(i, p)| {
                    let (_, pre, post) = placements[*p];
                    (format!("t{}", i), format!("x{}{{% include 't{}' %}}{}", pre, (i + 1) % len, post))
                })
                .collect();
            v.push(Shape { name: format!("include_cycle[{}]", ps.iter().map(|p| placements[*p].0).collect::<Vec<_>>().join(">")), family: "include_cycle", templates: templates.clone(), main: "t0".into(), infinite: true, baseline: None });
            // the same cycles through every other spelling of the include tag: optional includes and
            // lists of choices have error paths of their own ("not found" is skipped, anything else is not)
            for (fname, form) in [
                ("ignore_missing", "{% include 'tN' ignore missing %}"),
                ("choices", "{% include ['nope', 'tN'] %}"),
                ("choices_ignore_missing", "{% include ['nope', 'tN'] ignore missing %}"),
                ("choices_with_fallback_ignore_missing", "{% include ['tN', 'leaf', 'nope'] ignore missing %}"),
            ] {
                let mut t2: Vec<(String, String)> = (0..len).map(|i| (templates[i].0.clone(), templates[i].1.replace(&format!("{{% include 't{}' %}}", (i + 1) % len), &form.replace("tN", &format!("t{}", (i + 1) % len))))).collect();
                t2.push(("leaf".into(), "leaf".into()));
                v.push(Shape { name: format!("include_cycle[{}] form={}", ps.iter().map(|p| placements[*p].0).collect::<Vec<_>>().join(">"), fname), family: "include_cycle", templates: t2, main: "t0".into(), infinite: true, baseline: None });
            }
            if len <= 2 {
                for (sname, side) in [("after_helper_macro", "{% macro hp() %}h{% endmacro %}{{ hp() }}"), ("after_include", "{% include 'leaf' %}"), ("after_imported_helper", "{% from 'lib' import ih %}{{ ih() }}")] {
                    let mut t2: Vec<(String, String)> = templates.iter().map(|(n, s)| (n.clone(), s.replacen("{% include 't", &format!("{}{{% include 't", side), 1))).collect();
                    t2.push(("leaf".into(), "leaf".into()));
                    t2.push(("lib".into(), "{% macro ih() %}ih{% endmacro %}".into()));
                    v.push(Shape { name: format!("include_cycle[{}] {}", ps.iter().map(|p| placements[*p].0).collect::<Vec<_>>().join(">"), sname), family: "include_cycle", templates: t2, main: "t0".into(), infinite: true, baseline: None });
                }
            }
        }
    }
    // family C: import cycles (top-level import of the next template) and macro-level imports
    for len in 1..=3usize {
        let templates: Vec<(String, String)> = (0..len).map(|i| (format!("t{}", i), format!("{{% from 't{}' import f as g %}}{{% macro f() %}}{{{{ g() }}}}{{% endmacro %}}{{{{ f() }}}}", (i + 1) % len))).collect();
        v.push(Shape { name: format!("import_cycle_toplevel[{}]", len), family: "import_cycle", templates, main: "t0".into(), infinite: true, baseline: None });
        let templates: Vec<(String, String)> = (0..len)
            .map(|i| (format!("t{}", i), format!("{{% macro f(d) %}}{{% from 't{}' import f as g %}}{{{{ g(d + 1) }}}}{{% endmacro %}}{{% if start %}}{{{{ f(0) }}}}{{% endif %}}", (i + 1) % len)))
            .collect();
        v.push(Shape { name: format!("import_in_macro_cycle[{}]", len), family: "import_cycle", templates, main: "t0".into(), infinite: true, baseline: None });
        let templates: Vec<(String, String)> = (0..len).map(|i| (format!("t{}", i), format!("{{% macro f(d) %}}{{% include 'i{}' %}}{{% endmacro %}}", i))).chain((0..len).map(|i| (format!("i{}", i), format!("{{% from 't{}' import f as g %}}{{{{ g(1) }}}}", (i + 1) % len)))).chain(std::iter::once(("main".to_string(), "{% from 't0' import f %}{{ f(0) }}".to_string()))).collect();
        v.push(Shape { name: format!("macro_include_import_cycle[{}]", len), family: "import_cycle", templates, main: "main".into(), infinite: true, baseline: None });
    }
    // family D: recursive loops over deep data (depth 10^4), with work on each level
    for (wname, wpre, wpost) in WORK {
        v.push(Shape {
            name: format!("recursive_loop_deep_data {}", wname),
            family: "recursive_loop",
            templates: vec![("main".into(), format!("{{% for x in deep recursive %}}{}{{{{ loop(x) }}}}{}{{% endfor %}}", wpre, wpost))],
            main: "main".into(),
            infinite: false,
            baseline: None,
        });
        if *wname != "nested_work" {
        v.push(Shape {
            name: format!("recursive_loop_same_data {}", wname),
            family: "recursive_loop",
            // (the work decoration must not put another loop between loop() and its loop)
            templates: vec![("main".into(), format!("{{% for x in [[1]] recursive %}}{}{{{{ loop([[1]]) }}}}{}{{% endfor %}}", wpre.replace("{% for q1 in [1] %}", "").replace("{% for q2 in [1] %}", "{% with q2 = 1 %}"), wpost.replacen("{% endfor %}", "{% endwith %}", 1).replacen("{% endfor %}", "", 1)))],
            main: "main".into(),
            infinite: true,
            baseline: None,
        });
        }
        v.push(Shape {
            name: format!("recursive_loop_in_macro {}", wname),
            family: "recursive_loop",
            templates: vec![("main".into(), format!("{{% macro walk(n) %}}{{% for x in n recursive %}}{}{{{{ walk(x) }}}}{{{{ loop(x) }}}}{}{{% endfor %}}{{% endmacro %}}{{{{ walk(deep) }}}}", wpre, wpost))],
            main: "main".into(),
            infinite: false,
            baseline: None,
        });
    }
    // family E: super() chains of various lengths (finite)
    for n in [10usize, 120, 499, 501, 1200] {
        let mut templates: Vec<(String, String)> = (0..n).map(|i| (format!("t{}", i), format!("{{% extends 't{}' %}}{{% block b %}}[{{{{ super() }}}}]{{% endblock %}}", i + 1))).collect();
        templates.push((format!("t{}", n), "{% block b %}base{% endblock %}".into()));
        v.push(Shape { name: format!("super_chain[{}]", n), family: "super_chain", templates, main: "t0".into(), infinite: false, baseline: None });
    }
    // family F: block self-calls and caller / higher-order recursion
    for (name, src) in [
        ("block_self_call", "{% block a %}x{{ self.a() }}{% endblock %}"),
        ("block_mutual_self_call", "{% block a %}{{ self.b() }}{% endblock %}{% block b %}{% for q in [1] %}{{ self.a() }}{% endfor %}{% endblock %}"),
        ("block_self_call_via_macro", "{% macro m() %}{{ self.a() }}{% endmacro %}{% block a %}{{ m() }}{% endblock %}"),
        ("macro_passed_to_itself", "{% macro m(f) %}{{ f(f) }}{% endmacro %}{{ m(m) }}"),
        ("caller_recursion", "{% macro m(d) %}{% call m(d + 1) %}x{% endcall %}{{ caller() if caller is defined else '' }}{% endmacro %}{{ m(0) }}"),
        ("caller_passes_macro", "{% macro m(d) %}{% call(q) w(d) %}{{ m(q + 1) }}{% endcall %}{% endmacro %}{% macro w(d) %}{{ caller(d) }}{% endmacro %}{{ m(0) }}"),
        ("macro_in_map_filter", "{% macro m(x) %}{{ [x]|map('string')|list }}{{ m(x + 1) }}{% endmacro %}{{ m(0) }}"),
        ("macro_via_set_alias", "{% macro m(d) %}{% set again = m %}{{ again(d + 1) }}{% endmacro %}{{ m(0) }}"),
        ("macro_default_arg_recursion", "{% macro m(d=0) %}{{ m(d + 1) }}{% endmacro %}{{ m() }}"),
        ("macro_kwargs_varargs", "{% macro m() %}{{ varargs|length }}{{ kwargs|length }}{{ m(1, 2, 3, a=varargs, b=kwargs) }}{% endmacro %}{{ m() }}"),
        ("nested_macro_definition", "{% macro outer(d) %}{% macro inner(e) %}{{ outer(e + 1) }}{% endmacro %}{{ inner(d) }}{% endmacro %}{{ outer(0) }}"),
        ("self_include_in_macro_in_loop", "{% macro m() %}{% for q in [1, 2] %}{% include 'main' %}{% endfor %}{% endmacro %}{{ m() }}"),
        // recursion that leaves the instruction stream through a host function and re-enters the engine
        // through the state: every such level is a native frame of the host's as well
        ("block_via_state_render_block", "{% block a %}x{{ rb('a') }}{% endblock %}"),
        ("block_via_state_render_block_in_loop_and_capture", "{% block a %}{% for q in [1] %}{% set c %}{{ rb('a') }}{% endset %}{{ c }}{% endfor %}{% endblock %}"),
        ("blocks_mutual_via_state_and_self", "{% block a %}{{ self.b() }}{% endblock %}{% block b %}{{ rb('a') }}{% endblock %}"),
        ("macro_via_host_call", "{% macro m(f) %}{{ callit(f) }}{% endmacro %}{{ m(m) }}"),
        ("macro_via_host_call_in_call_block", "{% macro w() %}{{ caller() }}{% endmacro %}{% macro m(f) %}{% call w() %}{{ callit(f) }}{% endcall %}{% endmacro %}{{ m(m) }}"),
        ("macro_via_host_call_and_filter", "{% macro m(f) %}{{ [f]|map('callit')|join }}{% endmacro %}{{ m(m) }}"),
        ("macro_via_host_invoke_by_name", "{% macro m(d) %}{{ invoke('m', d) }}{% endmacro %}{{ m(0) }}"),
    ] {
        // (argument binding of the varargs shape may legitimately fail before it recurses)
        v.push(Shape { name: name.into(), family: "self_reference", templates: vec![("main".into(), src.into())], main: "main".into(), infinite: name != "macro_kwargs_varargs", baseline: None });
    }
    // family H: at every level of an unbounded recursion the template attempts something on the side
    // through a host function that handles the failure (near the limit the side no longer fits and is
    // refused); whatever the refused or failed attempt had charged must be given back exactly: the
    // recursion is cut off at the same level as without the side, and never by the stack
    {
        const EDGES: &[(&str, &str, &str)] = &[
            ("block_via_state", "{% block r %}{{ tick() }}SIDE{{ rb('r') }}{% endblock %}", ""),
            ("block_self_call", "{% block r %}{{ tick() }}SIDE{{ self.r() }}{% endblock %}", ""),
            ("macro_via_host_call", "{{ r(r) }}", "{% macro r(f) %}{{ tick() }}SIDE{{ callit(f) }}{% endmacro %}"),
            ("macro_direct", "{{ r(0) }}", "{% macro r(d) %}{{ tick() }}SIDE{{ r(d + 1) }}{% endmacro %}"),
            ("macro_in_loop_and_with", "{{ r(0) }}", "{% macro r(d) %}{% for q in [1] %}{% with z = d %}{{ tick() }}SIDE{{ r(z + 1) }}{% endwith %}{% endfor %}{% endmacro %}"),
        ];
        const SIDE_BODIES: &[(&str, &str)] = &[
            ("include", "{% include 'leaf' %}"),
            ("include_of_including", "{% include 'mid' %}"),
            ("from_import_and_call", "{% from 'lib' import ih %}{{ ih() }}"),
            ("import_module", "{% import 'lib' as lb %}{{ lb.ih() }}"),
            ("helper_macro", "{{ hp(1) }}"),
            ("call_block", "{% call w() %}x{% endcall %}"),
            ("nested_constructs", "{% for q in [1] %}{% with z = 1 %}{% filter upper %}{% set c %}x{% endset %}{{ c }}{% endfilter %}{% endwith %}{% endfor %}"),
            ("recursive_loop", "{% for x in [[[1]]] recursive %}{{ loop(x) if x is iterable else x }}{% endfor %}"),
            ("failing_expression", "{{ 1 // 0 }}"),
            ("include_missing", "{% include 'nope' %}"),
        ];
        for (ename, emain, edefs) in EDGES {
            for (sname, sbody) in SIDE_BODIES {
                for (via, side_call, side_def) in [
                    ("handled_block", "{{ attempt_block('i') }}", format!("{{% if false %}}{{% block i %}}{}{{% endblock %}}{{% endif %}}", sbody)),
                    ("handled_macro", "{{ attempt(sm) }}", format!("{{% macro sm() %}}{}{{% endmacro %}}", sbody)),
                ] {
                    let prelude = "{% macro w() %}{{ caller() }}{% endmacro %}{% macro hp(v) %}{{ v }}{% endmacro %}";
                    let build = |side: &str| format!("{}{}{}{}{}", prelude, side_def, edefs.replace("SIDE", side), emain.replace("SIDE", side), "");
                    v.push(Shape {
                        name: format!("handled_side[{} {} {}]", ename, sname, via),
                        family: "handled_side",
                        templates: vec![("main".into(), build(side_call)), ("leaf".into(), "leaf".into()), ("mid".into(), "{% include 'leaf' %}".into()), ("lib".into(), "{% macro ih() %}ih{% endmacro %}".into())],
                        main: "main".into(),
                        infinite: true,
                        baseline: Some(build("")),
                    });
                }
            }
        }
    }
    v
}

thread_local! {
    static TICKS: std::cell::Cell<u64> = const { std::cell::Cell::new(0) };
}

const LIMITS_Q: &[usize] = &[1, 2, 3, 7, 50, 250, 499, 500];

fn deep_value(depth: usize) -> Value {
    let mut v = Value::from(Vec::<Value>::new());
    for _ in 0..depth {
        v = Value::from(vec![v]);
    }
    v
}

fn mentions_recursion_limit(e: &minijinja::Error) -> bool {
    let mut cur: Option<&(dyn std::error::Error + 'static)> = Some(e);
    while let Some(c) = cur {
        if c.to_string().contains("recursion limit exceeded") {
            return true;
        }
        cur = c.source();
    }
    false
}

thread_local! {
    static SHAPES: std::cell::RefCell<Option<Vec<Shape>>> = const { std::cell::RefCell::new(None) };
}

fn limits(tier: Tier) -> Vec<usize> {
    if tier == Tier::Thorough {
        (1..=500).collect()
    } else {
        LIMITS_Q.to_vec()
    }
}

fn run_case(family: &str, n: u64, cc: &mut ChildCtx) {
    let tier = if std::env::var("VERIF_TIER").ok().as_deref() == Some("thorough") { Tier::Thorough } else { Tier::Quick };
    let all_limits = family == "rec_all_limits";
    SHAPES.with(|s| {
        if s.borrow().is_none() {
            *s.borrow_mut() = Some(shapes(tier));
        }
    });
    let lims = if all_limits { limits(Tier::Thorough) } else { LIMITS_Q.to_vec() };
    let shape = SHAPES.with(|s| s.borrow().as_ref().unwrap()[(n as usize) / lims.len()].clone());
    let limit = lims[(n as usize) % lims.len()];
    let mut env = Environment::new();
    env.set_recursion_limit(limit);
    env.add_function("tick", || {
        TICKS.with(|t| t.set(t.get() + 1));
        ""
    });
    env.add_function("attempt", |state: &mut minijinja::State, f: Value| f.call(state, &[]).unwrap_or_else(|_| Value::from("~")));
    env.add_function("attempt_block", |state: &mut minijinja::State, name: String| state.render_block(&name).unwrap_or_else(|_| "~".into()));
    env.add_function("rb", |state: &mut minijinja::State, name: String| state.render_block(&name));
    env.add_function("callit", |state: &mut minijinja::State, f: Value| f.call(state, &[f.clone()]));
    env.add_filter("callit", |state: &mut minijinja::State, f: Value| f.call(state, &[f.clone()]));
    env.add_function("invoke", |state: &mut minijinja::State, name: String, d: Value| state.lookup(&name).unwrap_or_default().call(state, &[d]));
    for (name, src) in &shape.templates {
        if env.add_template_owned(name.clone(), src.clone()).is_err() {
            cc.outcome("does not compile");
            return;
        }
    }
    // the 10 000-deep list is only handed to the shapes that walk it, and it is leaked afterwards:
    // dropping it recurses once per level in the *host's* drop glue, which is not the engine's
    // recursion this property is about
    let ctx = if shape.family == "recursive_loop" { context! { deep => deep_value(10_000), start => true } } else { context! { start => true } };
    TICKS.with(|t| t.set(0));
    let r = env.get_template(&shape.main).and_then(|t| t.render(ctx.clone()));
    std::mem::forget(ctx);
    if let Some(base) = &shape.baseline {
        let with_side = TICKS.with(|t| t.replace(0));
        let rb = env.render_str(base, ());
        let without = TICKS.with(|t| t.get());
        if with_side != without || rb.is_ok() {
            cc.violation(n, "depth_reached_differs", &format!("the recursion is entered {} times when every level attempts a handled side call, {} times without it (limit {})", with_side, without, limit));
        } else {
            cc.outcome(if with_side > 1 { "same depth with and without handled side calls" } else { "same depth (limit refuses the first level)" });
        }
    }
    match r {
        Err(e) if mentions_recursion_limit(&e) => cc.outcome("recursion limit error"),
        Err(e) => {
            if shape.infinite {
                cc.violation(n, "wrong_outcome", &format!("unbounded recursion ended with {:?}: {}", e.kind(), e));
                cc.outcome("other error (unexpected)");
            } else {
                cc.outcome(&format!("finite shape: other error {:?}", e.kind()));
            }
        }
        Ok(out) => {
            if shape.infinite {
                cc.violation(n, "wrong_outcome", &format!("unbounded recursion rendered successfully ({} bytes)", out.len()));
                cc.outcome("rendered (unexpected)");
            } else {
                cc.outcome("finite shape rendered");
            }
        }
    }
}

pub fn main(args: Args) -> i32 {
    let start_t = std::time::Instant::now();
    if args.rest.iter().any(|a| a == "--child") {
        return crash::child_main(&args.rest, &run_case);
    }
    install_quiet_panic_hook();
    let acc = Acc::new();
    let all = shapes(args.tier);
    let describe = |family: &str, n: u64| -> (String, usize, Shape) {
        let lims = if family == "rec_all_limits" { limits(Tier::Thorough) } else { LIMITS_Q.to_vec() };
        let sh = all[(n as usize) / lims.len()].clone();
        (sh.name.clone(), lims[(n as usize) % lims.len()], sh)
    };
    if let Some(p) = &args.replay {
        let doc = load_replay(p);
        let j = &doc["replay"];
        let fam = j["family"].as_str().unwrap().to_string();
        let n = j["n"].as_u64().unwrap();
        let stack: &'static str = if j["stack"] == "2m" { "2m" } else { "main" };
        let profile: &'static str = if j["profile"] == "debug" { "debug" } else { "release" };
        let (name, limit, _) = describe(&fam, n);
        println!("case: {} with recursion_limit {}", name, limit);
        let r = crash::supervise("c11", vec![crash::Shard { family: fam, from: n, to: n + 1, stack, profile }], Duration::from_secs(60), 4);
        return if r.events.is_empty() {
            println!("replay: case passes");
            0
        } else {
            for e in &r.events {
                println!("VIOLATION property=C11 replay={}  # {} :: {}", p, e.kind, e.detail);
            }
            1
        };
    }
    let n_q = (all.len() * LIMITS_Q.len()) as u64;
    let mut shards = vec![];
    let chunk = 16;
    shards.extend(crash::shards_for("rec", n_q, chunk, "2m", "debug"));
    shards.extend(crash::shards_for("rec", n_q, chunk, "main", "debug"));
    let mut total = n_q * 2;
    if args.tier == Tier::Thorough {
        shards.extend(crash::shards_for("rec", n_q, chunk, "2m", "release"));
        shards.extend(crash::shards_for("rec", n_q, chunk, "main", "release"));
        total += n_q * 2;
        // every limit 1..=500 on the 2 MiB thread of the opt-level-0 build for every shape of the
        // smaller families and the length-1/2 macro cycles
        let n_all = (all.iter().filter(|_| true).count().min(all.len()) * 500) as u64;
        let selected: Vec<u64> = all.iter().enumerate().filter(|(_, s)| s.family != "macro_cycle" || s.name.matches('>').count() == 0).map(|(i, _)| i as u64).collect();
        for si in &selected {
            shards.push(crash::Shard { family: "rec_all_limits".into(), from: si * 500, to: si * 500 + 500, stack: "2m", profile: "debug" });
        }
        total += selected.len() as u64 * 500;
        let _ = n_all;
    }
    let res = crash::supervise("c11", shards, Duration::from_secs(60), 4);
    acc.eval(res.evals);
    acc.outcomes_merge(&res.outcomes);
    acc.count("shapes", all.len() as u64);
    acc.count("cases", total);
    acc.count("children_spawned", res.children_spawned);
    acc.nontrivial_counted.store(res.outcomes.get("recursion limit error").copied().unwrap_or(0), std::sync::atomic::Ordering::Relaxed);
    let mut machinery = 0;
    for ev in &res.events {
        if ev.kind == "machinery" {
            machinery += 1;
            eprintln!("machinery: {}", ev.detail);
            continue;
        }
        if ev.kind == "slow" {
            acc.count("slow_cases_over_300ms", 1);
            continue;
        }
        let (name, limit, sh) = describe(&ev.family, ev.n);
        let class = match ev.kind.as_str() {
            "signal" | "exit" => {
                if ev.detail.contains("overflowed its stack") || ev.detail.contains("signal 11") {
                    "native_stack_overflow"
                } else {
                    "abort"
                }
            }
            "timeout" => "hang",
            "panic" => "panic",
            other => other,
        };
        let limit_class = if limit <= 7 { "small" } else if limit < 499 { "medium" } else { "default" };
        acc.fail(Failure {
            key: format!("recursion {} family={} shape={} limit={} stack={} profile={}", class, sh.family, name.split(' ').next().unwrap_or(""), limit_class, ev.stack, ev.profile),
            case: format!("{} limit={} [{} {}]", name, limit, ev.stack, ev.profile),
            detail: ev.detail.clone(),
            replay: json!({"family": ev.family, "n": ev.n, "stack": ev.stack, "profile": ev.profile, "shape": name, "limit": limit, "templates": sh.templates}),
        });
    }
    if machinery > 0 {
        return 2;
    }
    acc.sample(json!({"shape": all[5].name, "templates": all[5].templates, "limits": LIMITS_Q}));
    acc.sample(json!({"shape": all[all.len() - 30].name, "templates": all[all.len() - 30].templates}));
    finish(
        Finish {
            property: "C11",
            level: "exploration",
            tier: args.tier,
            seed: args.seed,
            rule: format!("{} recursive program shapes: every macro cycle of length 1..={} whose edges are each wrapped by one of 8 scoped constructs (plain, call block, filter block, set block, for, with, if, autoescape) x 3 per-frame work decorations, x 7 things a frame does and gets back from before it recurses (nothing, a helper macro call, one on every other frame, a finished call block, an include, an imported helper, filters and tests); every include cycle of length 1..={} over 5 placements (top level, loop, macro, block, with+filter) and 5 spellings of the tag (plain, ignore missing, list of choices, both, list with an existing fallback); import cycles (top-level, inside macros, macro+include+import); recursive loops over 10 000-deep data, over self-similar data and inside macros; super() chains of 10..1200 templates; block self-calls, caller/higher-order/alias/default-argument/nested-definition recursion; x recursion_limit in {{1,2,3,7,50,250,499,500}} x {{2 MiB thread, main thread}} in an opt-level-0 build{}; each case in a supervised child process. Oracle: unbounded shapes must end with an error whose chain says 'recursion limit exceeded', bounded shapes may also succeed; never a signal, abort, panic or hang. distinct non-trivial = cases that ended in the recursion-limit error", all.len(), args.tier.pick(2, 3), args.tier.pick(2, 3), if args.tier == Tier::Thorough { " and the checked-release build, plus every limit 1..=500 for the non-macro-cycle and length-1 shapes" } else { "" }),
            exhaustive: true,
            bound: json!({"limits_quick": LIMITS_Q, "wrappers": WRAPPERS.iter().map(|w| w.0).collect::<Vec<_>>(), "work": WORK.iter().map(|w| w.0).collect::<Vec<_>>()}),
            assumptions: vec!["stack sizes: the platform's 8 MiB main thread and an explicit 2 MiB thread".into()],
            extra: Default::default(),
            start: start_t,
        },
        &acc,
    )
}
