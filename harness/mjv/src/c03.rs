//! C03 — core constructs render according to the documented semantics: every program of the
//! generator space is rendered by the engine and by the independent reference interpreter R.
use crate::core::*;
use crate::gen::{self, Node};
use crate::refint::{self, RErr};
use minijinja::value::Value;
use minijinja::{context, Environment};
use serde_json::json;

fn kinds(nodes: &[Node], out: &mut Vec<&'static str>) {
    for n in nodes {
        match n {
            Node::Text(_) | Node::Out(_) => {}
            Node::Set(..) => out.push("set"),
            Node::SetBlock(_, b) => {
                out.push("set_block");
                kinds(b, out);
            }
            Node::If(_, t, e) => {
                out.push("if");
                kinds(t, out);
                if let Some(e) = e {
                    kinds(e, out);
                }
            }
            Node::For { filter, recursive, body, else_, targets, .. } => {
                out.push(if *recursive { "for_recursive" } else if filter.is_some() { "for_filtered" } else if targets.len() > 1 { "for_unpack" } else { "for" });
                kinds(body, out);
                if let Some(e) = else_ {
                    out.push("for_else");
                    kinds(e, out);
                }
            }
            Node::With(_, b) => {
                out.push("with");
                kinds(b, out);
            }
            Node::Macro { body, .. } => {
                out.push("macro");
                kinds(body, out);
            }
            Node::CallBlock { body, .. } => {
                out.push("call_block");
                kinds(body, out);
            }
            Node::FilterBlock(_, b) => {
                out.push("filter_block");
                kinds(b, out);
            }
            Node::AutoEscape(_, b) => {
                out.push("autoescape");
                kinds(b, out);
            }
            Node::Break => out.push("break"),
            Node::Continue => out.push("continue"),
            Node::Block(_, b) => {
                out.push("block");
                kinds(b, out);
            }
            Node::Include(_) => out.push("include"),
        }
    }
}

fn check_program(env: &Environment, prog: &gen::Program, depth: usize, acc: &Acc, l: &mut Local) {
    let src = prog.source();
    let Ok(tmpl) = env.template_from_str(&src) else {
        l.outcome("does not compile");
        return;
    };
    for (ci, rctx) in refint::contexts().into_iter().enumerate() {
        l.evals += 1;
        let ectx = Value::from_pairs(rctx.iter().map(|(k, v)| (k.clone(), refint::to_engine(v))));
        let got = catch(|| tmpl.render(ectx.clone()));
        // the same template and context a second time, right away, on the same environment and
        // thread: whatever the first render left behind (pooled contexts, closures) must not show
        let again = catch(|| tmpl.render(ectx));
        let want = refint::Interp::new(rctx).run(&prog.nodes);
        let mut ks = vec![];
        kinds(&prog.nodes, &mut ks);
        ks.sort();
        ks.dedup();
        let mk = |clause: &str, detail: String| Failure {
            key: format!("semantics {} constructs={{{}}}", clause, ks.join(",")),
            case: format!("d{}#{} ctx#{} :: {}", depth, prog.index, ci, src),
            detail,
            replay: json!({"depth": depth, "index": prog.index, "ctx": ci, "source": src}),
        };
        let same = match (&got, &again) {
            (Ok(Ok(a)), Ok(Ok(b))) => a == b,
            (Ok(Err(a)), Ok(Err(b))) => a.kind() == b.kind(),
            (Err(_), Err(_)) => true,
            _ => false,
        };
        if !same {
            acc.fail(mk("second_render_differs", format!("first render {:?}, second render {:?}", got.as_ref().map(|r| r.as_ref().map_err(|e| e.to_string())), again.as_ref().map(|r| r.as_ref().map_err(|e| e.to_string())))));
            continue;
        }
        match (got, want) {
            (_, Err(RErr::Undefined(why))) => l.outcome(&format!("outside R: {}", why.split(' ').take(3).collect::<Vec<_>>().join(" "))),
            (Err(p), _) => acc.fail(mk("engine_panics", format!("{} at {}", p, last_panic_loc()))),
            (Ok(Ok(a)), Ok(b)) => {
                if a == b {
                    l.outcome("same output");
                    l.nontrivial.insert(fnv(format!("{}|{}", src, ci).as_bytes()));
                } else {
                    acc.fail(mk("output_differs", format!("engine {:?} but reference {:?}", a, b)));
                }
            }
            (Ok(Err(_)), Err(RErr::Fail(_))) => l.outcome("both fail"),
            (Ok(Err(e)), Ok(b)) => acc.fail(mk("engine_fails", format!("engine error {:#} but reference renders {:?}", e, b))),
            (Ok(Ok(a)), Err(RErr::Fail(why))) => acc.fail(mk("engine_succeeds", format!("engine renders {:?} but the reference fails: {}", a, why))),
        }
    }
}

/// closure family: a name assigned inside a scope-opening (or merely conditional) construct within a
/// macro or call-block body, then read after it — whether the body sees the outer value of the name
/// must depend only on whether the assignment ran and on the scope it ran in.
fn closure_family() -> Vec<gen::Program> {
    use gen::Expr as E;
    let s = |x: &'static str| E::Str(x);
    let v = |x: &'static str| E::Var(x);
    let cond_list = || E::Cond(Box::new(E::List(vec![E::Int(1)])), Box::new(v("c")), Box::new(E::List(vec![])));
    let mut out = vec![];
    // (assigned name, whether the template sets it before the macro)
    for (name, outer_set) in [("v", true), ("v", false), ("x", false), ("x", true)] {
        for assign in 0..4 {
            let a = |val: &'static str| -> Vec<Node> {
                match assign {
                    0 => vec![Node::Set(name, s(val))],
                    1 => vec![Node::SetBlock(name, vec![Node::Text(val)])],
                    2 => vec![Node::For { targets: vec![name], iter: E::List(vec![s(val)]), filter: None, recursive: false, body: vec![Node::Out(v(name))], else_: None }],
                    _ => vec![Node::With(vec![(name, s(val))], vec![Node::Out(v(name))])],
                }
            };
            for wrap in 0..16 {
                let rd = || Node::Out(v(name));
                let with_read = |mut b: Vec<Node>| {
                    b.push(Node::Text("<"));
                    b.push(rd());
                    b.push(Node::Text(">"));
                    b
                };
                let w: Vec<Node> = match wrap {
                    0 => a("i"),
                    1 => vec![Node::If(v("c"), with_read(a("i")), None)],
                    2 => vec![Node::If(v("c"), vec![], Some(with_read(a("i"))))],
                    3 => vec![Node::If(v("c"), with_read(a("i")), Some(with_read(a("j"))))],
                    4 => vec![Node::If(v("c"), a("i"), Some(vec![Node::Text("("), rd(), Node::Text(")")]))],
                    5 => vec![Node::For { targets: vec!["q"], iter: cond_list(), filter: None, recursive: false, body: with_read(a("i")), else_: None }],
                    6 => vec![Node::For { targets: vec!["q"], iter: cond_list(), filter: None, recursive: false, body: vec![], else_: Some(with_read(a("i"))) }],
                    7 => vec![Node::With(vec![("q", E::Int(1))], with_read(a("i")))],
                    8 => vec![Node::FilterBlock("upper", with_read(a("i")))],
                    9 => vec![Node::SetBlock("q", with_read(a("i")))],
                    10 => vec![Node::AutoEscape(true, with_read(a("i")))],
                    11 => vec![Node::If(v("c"), vec![Node::If(v("c"), a("i"), None)], None)],
                    12 => vec![Node::If(E::Not(Box::new(v("c"))), vec![], Some(vec![Node::If(v("c"), a("i"), Some(a("j")))]))],
                    // the else body of a loop runs after the loop's scope is gone: names bound by the
                    // loop (target, assignments in the body) are the outer ones again
                    13 => vec![Node::For { targets: vec![name], iter: cond_list(), filter: None, recursive: false, body: vec![Node::Text("{"), rd(), Node::Text("}")], else_: Some(vec![Node::Text("("), rd(), Node::Text(")")]) }],
                    14 => vec![Node::For { targets: vec!["q"], iter: cond_list(), filter: None, recursive: false, body: with_read(a("i")), else_: Some(vec![Node::Text("("), rd(), Node::Text(")")]) }],
                    _ => vec![Node::For { targets: vec![name], iter: E::List(vec![E::Int(1), E::Int(2)]), filter: Some(v("c")), recursive: false, body: with_read(a("i")), else_: Some(vec![Node::Text("("), rd(), Node::Text(")")]) }],
                };
                // with and without a read after the construct: a later read makes the name free in the
                // whole body, which can mask what the construct alone does to the closure
                for tail in [true, false] {
                let mut body = w.clone();
                if tail {
                    body.extend([Node::Text("["), rd(), Node::Text("]")]);
                }
                for holder in 0..4 {
                    let mut nodes = vec![];
                    if outer_set {
                        nodes.push(Node::Set(name, s("o")));
                    }
                    match holder {
                        // a macro called with both truth values
                        0 => {
                            nodes.push(Node::Macro { name: "m", params: vec![("c", None)], body: body.clone() });
                            nodes.push(Node::Out(E::Call("m", vec![E::Bool(true)], vec![])));
                            nodes.push(Node::Out(E::Call("m", vec![E::Bool(false)], vec![])));
                        }
                        // the outer value changes after the declaration
                        1 => {
                            nodes.push(Node::Macro { name: "m", params: vec![("c", None)], body: body.clone() });
                            nodes.push(Node::Set(name, s("p")));
                            nodes.push(Node::Out(E::Call("m", vec![E::Bool(false)], vec![])));
                            nodes.push(Node::Out(E::Call("m", vec![E::Bool(true)], vec![])));
                        }
                        // a call block inside a loop, deciding on the iteration
                        2 => {
                            nodes.push(Node::Macro { name: "w", params: vec![], body: vec![Node::Out(E::Call("caller", vec![], vec![]))] });
                            nodes.push(Node::For {
                                targets: vec!["c"],
                                iter: E::List(vec![E::Bool(false), E::Bool(true), E::Bool(false)]),
                                filter: None,
                                recursive: false,
                                body: vec![Node::CallBlock { macro_name: "w", args: vec![], body: body.clone() }, Node::Text(";")],
                                else_: None,
                            });
                        }
                        // a macro declared inside a macro
                        _ => {
                            nodes.push(Node::Macro {
                                name: "o",
                                params: vec![("c", None)],
                                body: vec![Node::Macro { name: "m", params: vec![], body: body.clone() }, Node::Out(E::Call("m", vec![], vec![]))],
                            });
                            nodes.push(Node::Out(E::Call("o", vec![E::Bool(true)], vec![])));
                            nodes.push(Node::Out(E::Call("o", vec![E::Bool(false)], vec![])));
                        }
                    }
                    nodes.push(Node::Text("|"));
                    nodes.push(Node::Out(v(name)));
                    let mut pieces = vec![];
                    gen::to_pieces(&nodes, &mut pieces);
                    out.push(gen::Program { index: out.len() as u64, nodes, pieces });
                }
                }
            }
        }
    }
    out
}

/// loop filters: the filter of a loop is evaluated before the loop's own frame exists, so `loop` and
/// the other names in it are the enclosing ones - at every nesting depth and behind every construct
fn loop_filter_family() -> Vec<gen::Program> {
    use gen::Expr as E;
    let v = |x: &'static str| E::Var(x);
    let attr = |a: E, n: &'static str| E::Attr(Box::new(a), n);
    let bin = |op: &'static str, a: E, b: E| E::Bin(op, Box::new(a), Box::new(b));
    let filters: Vec<E> = vec![
        bin(">", v("b"), attr(v("loop"), "index")),
        bin("<", v("b"), attr(v("loop"), "length")),
        attr(v("loop"), "first"),
        E::Not(Box::new(attr(v("loop"), "last"))),
        bin(">", v("b"), v("a")),
        bin("==", v("b"), attr(v("loop"), "index0")),
        bin("and", E::Test(Box::new(v("loop")), "defined"), bin(">", v("b"), E::Int(1))),
        bin(">", bin("+", v("b"), v("x")), E::Int(2)),
    ];
    let inner = |f: &E, body_extra: Vec<Node>| Node::For {
        targets: vec!["b"],
        iter: v("xs"),
        filter: Some(f.clone()),
        recursive: false,
        body: {
            let mut b = vec![Node::Out(v("b")), Node::Text("/"), Node::Out(attr(v("loop"), "index")), Node::Text("of"), Node::Out(attr(v("loop"), "length")), Node::Text(",")];
            b.extend(body_extra);
            b
        },
        else_: Some(vec![Node::Text("-")]),
    };
    let mut out = vec![];
    for f in &filters {
        for wrap in 0..6 {
            let lp = inner(f, vec![]);
            let nested: Vec<Node> = match wrap {
                0 => vec![lp],
                1 => vec![Node::With(vec![("q", E::Int(1))], vec![lp])],
                2 => vec![Node::If(v("xs"), vec![lp], None)],
                3 => vec![Node::SetBlock("cap", vec![lp]), Node::Out(v("cap"))],
                4 => vec![Node::For { targets: vec!["m1"], iter: E::List(vec![E::Int(1)]), filter: None, recursive: false, body: vec![lp], else_: None }],
                _ => vec![Node::FilterBlock("upper", vec![lp])],
            };
            // inside an outer loop over xs, inside two, and (control) at the top
            let one = Node::For { targets: vec!["a"], iter: v("xs"), filter: None, recursive: false, body: { let mut b = vec![Node::Text("[")]; b.extend(nested.clone()); b.push(Node::Text("]")); b }, else_: None };
            let two = Node::For { targets: vec!["a"], iter: E::List(vec![E::Int(1), E::Int(2)]), filter: Some(bin(">", v("a"), E::Int(0))), recursive: false, body: vec![Node::Text("<"), one.clone(), Node::Text(">")], else_: None };
            for nodes in [vec![one], vec![two], nested] {
                let mut pieces = vec![];
                gen::to_pieces(&nodes, &mut pieces);
                out.push(gen::Program { index: 1_000_000 + out.len() as u64, nodes, pieces });
            }
        }
    }
    out
}

/// repetition: a construct that works once works the thousandth time in the same render (contexts
/// and frames are pooled and recycled; nothing may accumulate from use to use)
fn repetition_clause(acc: &Acc) {
    let env = Environment::new();
    let shapes: Vec<(&str, String, Box<dyn Fn(usize) -> String>)> = vec![
        ("macro_call", "{% macro m(a, b=1) %}<{{ a }}:{{ b }}>{% endmacro %}{% for i in range(N) %}{{ m(i) }}{{ m(i, b=i) }}{% endfor %}".into(), Box::new(|n| (0..n).map(|i| format!("<{}:1><{}:{}>", i, i, i)).collect())),
        ("macro_call_top_level", "{% macro m(a) %}[{{ a }}]{% endmacro %}REPEAT".into(), Box::new(|n| (0..n).map(|i| format!("[{}]", i)).collect())),
        ("call_block", "{% macro w(a) %}({{ caller(a) }}){% endmacro %}{% for i in range(N) %}{% call(q) w(i) %}{{ q }}{% endcall %}{% endfor %}".into(), Box::new(|n| (0..n).map(|i| format!("({})", i)).collect())),
        ("macro_in_nested_loops", "{% macro m(a) %}{{ a }},{% endmacro %}{% for i in range(N) %}{% for j in range(3) %}{{ m(j) }}{% endfor %}{% endfor %}".into(), Box::new(|n| "0,1,2,".repeat(n))),
        ("macro_calling_macro", "{% macro inner(a) %}{{ a }}{% endmacro %}{% macro outer(a) %}[{{ inner(a) }}{{ inner(a) }}]{% endmacro %}{% for i in range(N) %}{{ outer(i) }}{% endfor %}".into(), Box::new(|n| (0..n).map(|i| format!("[{}{}]", i, i)).collect())),
        ("with_and_set_block", "{% for i in range(N) %}{% with a = i %}{% set c %}{{ a }}{% endset %}{{ c }};{% endwith %}{% endfor %}".into(), Box::new(|n| (0..n).map(|i| format!("{};", i)).collect())),
        ("filter_block_and_loop_else", "{% for i in range(N) %}{% filter upper %}a{% for j in [] %}{% else %}e{% endfor %}{% endfilter %}{% endfor %}".into(), Box::new(|n| "AE".repeat(n))),
        ("recursive_loop", "{% for i in range(N) %}{% for x in [[1], [2]] recursive %}{% if x is iterable %}{{ loop(x) }}{% else %}{{ x }}{% endif %}{% endfor %}{% endfor %}".into(), Box::new(|n| "12".repeat(n))),
        ("namespace_counter", "{% set ns = namespace(c=0) %}{% for i in range(N) %}{% set ns.c = ns.c + 1 %}{% endfor %}{{ ns.c }}".into(), Box::new(|n| n.to_string())),
    ];
    for n in [1usize, 2, 60, 101, 300, 2000] {
        for (name, src, want) in &shapes {
            acc.eval(1);
            let src = if src.contains("REPEAT") { src.replace("REPEAT", &(0..n).map(|i| format!("{{{{ m({}) }}}}", i)).collect::<String>()) } else { src.replace('N', &n.to_string()) };
            let got = catch(|| env.render_str(&src, context! {}).map_err(|e| e.to_string()));
            let want = want(n);
            match got {
                Ok(Ok(s)) if s == want => {
                    acc.outcome("repetition ok");
                    acc.nontrivial(fnv(format!("{}|{}", name, n).as_bytes()));
                }
                other => acc.fail(Failure {
                    key: format!("repetition differs shape={}", name),
                    case: format!("{} x{}", name, n),
                    detail: format!("{} repetitions: got {:?} (expected {} bytes: {:?}...)", n, other.map(|r| r.map(|s| s.chars().take(80).collect::<String>())), want.len(), want.chars().take(60).collect::<String>()),
                    replay: json!({"kind": "repetition", "shape": name, "n": n, "source": src.chars().take(2000).collect::<String>()}),
                }),
            }
        }
    }
}

/// loop object fields for every iterated sequence kind, computed directly
fn loop_object_clause(acc: &Acc) {
    let env = Environment::new();
    let tmpl = "{% for v in seq %}{{ loop.index }},{{ loop.index0 }},{{ loop.revindex }},{{ loop.revindex0 }},{{ loop.first }},{{ loop.last }},{{ loop.length }},{{ loop.previtem }},{{ loop.nextitem }},{{ v }};{% endfor %}";
    let expected = |items: &[String]| -> String {
        let n = items.len();
        let mut s = String::new();
        for (i, v) in items.iter().enumerate() {
            let b = |x: bool| if x { "True" } else { "False" };
            s.push_str(&format!(
                "{},{},{},{},{},{},{},{},{},{};",
                i + 1,
                i,
                n - i,
                n - i - 1,
                b(i == 0),
                b(i + 1 == n),
                n,
                if i > 0 { items[i - 1].clone() } else { String::new() },
                if i + 1 < n { items[i + 1].clone() } else { String::new() },
                v
            ));
        }
        s
    };
    for n in 0..=4usize {
        let ints: Vec<i64> = (10..10 + n as i64).collect();
        let strs: Vec<String> = ints.iter().map(|i| i.to_string()).collect();
        let letters: Vec<String> = "abcd"[..n].chars().map(|c| c.to_string()).collect();
        let cases: Vec<(&str, Value, Option<&str>, Vec<String>)> = vec![
            ("list", Value::from(ints.clone()), None, strs.clone()),
            ("tuple", Value::from(minijinja::value::Tuple::from(ints.iter().map(|i| Value::from(*i)).collect::<Vec<_>>())), None, strs.clone()),
            ("map_keys", Value::from_pairs(letters.iter().map(|k| (k.clone(), 1))), None, letters.clone()),
            ("range", Value::from(()), Some(&*Box::leak(format!("range(10, {})", 10 + n).into_boxed_str())), strs.clone()),
            ("lazy_sized", Value::make_iterable({ let v = ints.clone(); move || v.clone().into_iter() }), None, strs.clone()),
            ("string", Value::from(letters.concat()), None, letters.clone()),
            ("list_reversed", Value::from(ints.clone()), Some("seq|reverse"), strs.iter().rev().cloned().collect()),
            ("list_sliced", Value::from(ints.clone()), Some("seq[:]"), strs.clone()),
            ("list_as_list_filter", Value::from(ints.clone()), Some("seq|list"), strs.clone()),
            ("items", Value::from_pairs(letters.iter().map(|k| (k.clone(), 1))), Some("seq|items"), letters.iter().map(|k| format!("('{}', 1)", k)).collect()),
            ("filtered_loop", Value::from((0..2 * n as i64).collect::<Vec<_>>()), Some("FILTER"), (0..2 * n as i64).filter(|i| i % 2 == 0).map(|i| i.to_string()).collect()),
        ];
        let mut cases = cases;
        // further routes to a sequence of the same items: every lazy wrapper must describe what is
        // actually iterated
        for (name, expr, f) in [
            ("list_plus_empty", "seq + []", 0usize),
            ("empty_plus_list", "[] + seq", 0),
            ("list_double_reverse", "seq|reverse|reverse", 0),
            ("list_slice_from", "seq[0:]", 0),
            ("list_slice_step", "seq[::1]", 0),
            ("list_select", "seq|select('defined')", 0),
            ("list_map_identity", "seq|map('int')", 0),
            ("list_unique", "seq|unique", 0),
            ("list_sort", "seq|sort", 0),
            ("list_reject_none", "seq|reject('none')", 0),
            ("list_batch_flat", "seq|batch(1)|map('first')", 0),
            ("list_tail", "([0] + seq)[1:]", 0),
            ("list_head", "(seq + [0])[:-1]", 0),
            ("list_rev_slice", "seq[::-1]", 1),
        ] {
            let items: Vec<String> = if f == 1 { strs.iter().rev().cloned().collect() } else { strs.clone() };
            cases.push((name, Value::from(ints.clone()), Some(expr), items));
        }
        cases.push(("one_shot", Value::make_one_shot_iterator(ints.clone().into_iter()), Some("seq|list"), strs.clone()));
        cases.push(("lazy_unsized_listed", Value::make_iterable({ let v = ints.clone(); move || v.clone().into_iter().filter(|_| true) }), Some("seq|list"), strs.clone()));
        cases.push(("dictsort", Value::from_pairs(letters.iter().rev().map(|k| (k.clone(), 1))), Some("seq|dictsort"), letters.iter().map(|k| format!("('{}', 1)", k)).collect()));
        cases.push(("map_values", Value::from_pairs(letters.iter().map(|k| (k.clone(), k.clone()))), Some("seq|items|map('last')"), letters.clone()));
        for (kind, seq, expr, items) in cases {
            acc.eval(1);
            let src = match expr {
                Some("FILTER") => tmpl.replace("{% for v in seq %}", "{% for v in seq if v % 2 == 0 %}"),
                Some(e) => tmpl.replace("in seq %}", &format!("in {} %}}", e)),
                None => tmpl.to_string(),
            };
            let got = catch(|| env.render_str(&src, context! { seq => seq }).map_err(|e| e.to_string()));
            let want = expected(&items);
            match got {
                Ok(Ok(s)) if s == want => acc.outcome("loop fields ok"),
                other => acc.fail(Failure {
                    key: format!("loop_object fields_wrong kind={}", kind),
                    case: format!("{} of length {}", kind, n),
                    detail: format!("got {:?} expected {:?}", other, want),
                    replay: json!({"kind": "loop_object", "sequence": kind, "len": n}),
                }),
            }
        }
    }
}

/// strings as iterated sequences: every character class (1- to 4-byte, mixed) x every length around
/// the inline-storage boundary x every way a string value comes about (context value in inline /
/// heap / safe storage, template literal, concatenation, filter result, slice); the loop fields must
/// describe the characters iterated
fn string_loop_clause(acc: &Acc) {
    let env = Environment::new();
    let tmpl = "{% for v in SEQ %}{{ loop.index }},{{ loop.index0 }},{{ loop.revindex }},{{ loop.revindex0 }},{{ loop.first }},{{ loop.last }},{{ loop.length }},{{ loop.previtem }},{{ loop.nextitem }},{{ loop.depth }},{{ loop.depth0 }},{{ v }};{% endfor %}{% for v in SEQ %}{% if loop.last %}L{{ loop.index }}{% endif %}{% else %}E{% endfor %}";
    let expected = |items: &[String]| -> String {
        let n = items.len();
        let mut s = String::new();
        for (i, v) in items.iter().enumerate() {
            let b = |x: bool| if x { "True" } else { "False" };
            s.push_str(&format!("{},{},{},{},{},{},{},{},{},1,0,{};", i + 1, i, n - i, n - i - 1, b(i == 0), b(i + 1 == n), n, if i > 0 { items[i - 1].clone() } else { String::new() }, if i + 1 < n { items[i + 1].clone() } else { String::new() }, v));
        }
        if n == 0 {
            s.push('E');
        } else {
            s.push_str(&format!("L{}", n));
        }
        s
    };
    let classes: [(&str, &[char]); 6] = [
        ("ascii", &['a', 'b', 'c', 'd']),
        ("two_byte", &['ä', 'ö', 'ü', 'ß']),
        ("three_byte", &['€', '√', '∑', '∞']),
        ("four_byte", &['😀', '🎉', '🚀', '🌍']),
        ("mixed", &['a', 'ä', '€', '😀']),
        ("mixed_tail", &['x', 'y', 'z', 'é']),
    ];
    for (cname, chars) in classes {
        for n in [0usize, 1, 2, 3, 4, 5, 6, 7, 8, 10, 11, 12, 15, 16, 21, 22, 23, 24, 25, 40] {
            let text: String = (0..n).map(|i| chars[(i * 7 + i / 4) % chars.len()]).collect();
            let items: Vec<String> = text.chars().map(|c| c.to_string()).collect();
            let half = text.chars().take(n / 2).collect::<String>();
            let rest = text.chars().skip(n / 2).collect::<String>();
            let lit = format!("'{}'", text);
            let routes: Vec<(&str, String, Value)> = vec![
                ("ctx_plain", "seq".into(), Value::from(text.clone())),
                ("ctx_safe", "seq".into(), Value::from_safe_string(text.clone())),
                ("ctx_arc", "seq".into(), Value::from(std::sync::Arc::<str>::from(text.clone()))),
                ("literal", lit.clone(), Value::from(())),
                ("concat", "a ~ b".into(), Value::from(())),
                ("concat_literal", format!("'{}' ~ '{}'", half, rest), Value::from(())),
                ("string_filter", "seq|string".into(), Value::from(text.clone())),
                ("slice_all", "seq[:]".into(), Value::from(text.clone())),
                ("slice_tail", "('q' ~ seq)[1:]".into(), Value::from(text.clone())),
                ("set_var", "SETVAR".into(), Value::from(text.clone())),
                ("trim", "(' ' ~ seq ~ ' ')|trim".into(), Value::from(text.clone())),
                ("join", "seq|list|join".into(), Value::from(text.clone())),
                ("replace", "seq|replace('#', '')".into(), Value::from(text.clone())),
                ("default", "missing|default(seq)".into(), Value::from(text.clone())),
                ("reverse_twice", "seq|reverse|reverse".into(), Value::from(text.clone())),
            ];
            for (route, expr, seq) in routes {
                acc.eval(1);
                let src = if expr == "SETVAR" { format!("{{% set s2 = seq %}}{}", tmpl.replace("SEQ", "s2")) } else { tmpl.replace("SEQ", &expr) };
                let got = catch(|| env.render_str(&src, context! { seq => seq, a => half.clone(), b => rest.clone() }).map_err(|e| e.to_string()));
                let want = expected(&items);
                match got {
                    Ok(Ok(s)) if s == want => acc.outcome("string loop fields ok"),
                    other => acc.fail(Failure {
                        key: format!("loop_object fields_wrong kind=string route={} chars={}", route, cname),
                        case: format!("{} string of {} chars ({} bytes) via {}", cname, n, text.len(), route),
                        detail: format!("got {:?} expected {:?}", other.map(|r| r.map(|s| s.chars().take(200).collect::<String>())), want.chars().take(200).collect::<String>()),
                        replay: json!({"kind": "loop_object", "sequence": "string", "len": n}),
                    }),
                }
            }
        }
    }
}

pub fn main(args: Args) -> i32 {
    let start_t = std::time::Instant::now();
    install_quiet_panic_hook();
    let acc = Acc::new();
    let opts = |d| gen::Opts { depth: d, max_programs: u64::MAX, multi_template: false, loop_controls: true, extra_leaves: true };
    if let Some(p) = &args.replay {
        let doc = load_replay(p);
        let j = &doc["replay"];
        if j["kind"] == "repetition" {
            repetition_clause(&acc);
        } else if j["kind"] == "loop_object" {
            loop_object_clause(&acc);
            string_loop_clause(&acc);
        } else if j["depth"] == 0 {
            let idx = j["index"].as_u64().unwrap();
            let prog = if idx >= 1_000_000 { loop_filter_family().swap_remove((idx - 1_000_000) as usize) } else { closure_family().swap_remove(idx as usize) };
            println!("source: {}", prog.source());
            let mut l = Local::default();
            check_program(&Environment::new(), &prog, 0, &acc, &mut l);
        } else {
            let g = gen::Gen::new(opts(j["depth"].as_u64().unwrap() as usize));
            let prog = g.program(j["index"].as_u64().unwrap());
            println!("source: {}", prog.source());
            let mut l = Local::default();
            check_program(&Environment::new(), &prog, g.opts.depth, &acc, &mut l);
        }
        let fs = acc.take_failures();
        return if fs.is_empty() {
            println!("replay: case passes");
            0
        } else {
            for f in &fs {
                println!("VIOLATION property=C03 replay={}  # {} :: {}", p, f.key, f.detail);
            }
            1
        };
    }
    loop_object_clause(&acc);
    string_loop_clause(&acc);
    repetition_clause(&acc);
    {
        let fam = closure_family();
        acc.count("programs_closure_family", fam.len() as u64);
        par_items(&fam, &acc, |_, p, l| check_program(&Environment::new(), p, 0, &acc, l));
        let fam2 = loop_filter_family();
        acc.count("programs_loop_filter_family", fam2.len() as u64);
        par_items(&fam2, &acc, |_, p, l| check_program(&Environment::new(), p, 0, &acc, l));
    }
    let run = |depth: usize, stride: u64| {
        let o = opts(depth);
        let size = gen::Gen::new(o).size();
        let n_prog = (size + stride - 1) / stride;
        acc.count(&format!("programs_depth{}", depth), n_prog);
        par_chunks(n_prog, 128, &acc, |r, l| {
            let g = gen::Gen::new(o);
            let env = Environment::new();
            for k in r {
                check_program(&env, &g.program(k * stride), depth, &acc, l);
            }
        });
    };
    run(1, 1);
    run(2, 1);
    if args.tier == Tier::Thorough {
        run(3, 13);
    }
    let g = gen::Gen::new(opts(2));
    acc.sample(json!({"program": g.program(123_456).source(), "contexts": 3}));
    acc.sample(json!({"program": g.program(7_777).source()}));
    finish(
        Finish {
            property: "C03",
            level: "exploration",
            tier: args.tier,
            seed: args.seed,
            rule: format!("every program of the depth-1 and depth-2 spaces of G (single template, loop controls){} x 3 contexts rendered by the engine and by the reference interpreter R (independent tree walker over its own value type: scoping per construct, per-iteration loop scope, macro closures with definition-frame values, argument binding with defaults and keywords, call blocks, loop recursion, for-else, loop filters, unpacking, break/continue); oracle: identical output, or both fail, and an immediate second render of the same template and context gives the same result; plus the loop object: every field (index, index0, revindex, revindex0, first, last, length, previtem, nextitem) printed in every iteration for 11 iterated sequence kinds x lengths 0..4 against directly computed values; plus the closure family (depth label d0): 4 name/outer-binding cases x 4 assignment forms x 16 enclosing constructs (bare, if/else arms taken and not, for/else with 0 or 1 iterations, loop else bodies reading names the loop bound as target / in its body / under a rejecting filter, with, filter, set block, autoescape, nested ifs) x 4 holders (macro called with both truth values, outer value changed after declaration, call block in a loop, macro in a macro), each reading the name inside the construct and, in one of two variants, after it; plus repetition (9 constructs - macro calls from loops and from the top level, call blocks, nested macros, with / set blocks, filter blocks with loop else, recursive loops, a namespace counter - repeated 1 .. 2000 times in one render against directly computed output); plus the loop-filter family: 8 filter expressions naming `loop`, the enclosing target or outer names x 6 constructs around the filtered loop x (inside one loop, inside two, at the top). distinct non-trivial = (program, context) pairs on which engine and reference agree on a successful render", if args.tier == Tier::Thorough { " and every 13th program of depth 3" } else { "" }),
            exhaustive: true,
            bound: json!({"depth_full": 2}),
            assumptions: vec![
                "R is the trusted base; a disagreement is triaged by hand before it is called a defect".into(),
                "constructs R does not define (reported as 'outside R') are not judged".into(),
            ],
            extra: Default::default(),
            start: start_t,
        },
        &acc,
    )
}
