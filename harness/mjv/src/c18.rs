//! C18 — undeclared_variables never omits a variable the template reads.
//! Every program is rendered with a recording context object; every key the engine asks for must
//! be in the static report (or be a global).
use crate::core::*;
use crate::gen;
use minijinja::value::{Enumerator, Object, Value};
use minijinja::Environment;
use serde_json::json;
use std::collections::{BTreeMap, BTreeSet};
use std::sync::{Arc, Mutex};

#[derive(Debug)]
struct Recorder {
    present: BTreeMap<String, Value>,
    log: Arc<Mutex<BTreeSet<String>>>,
}

impl Object for Recorder {
    fn get_value(self: &Arc<Self>, key: &Value) -> Option<Value> {
        if let Some(k) = key.as_str() {
            self.log.lock().unwrap().insert(k.to_string());
            self.present.get(k).cloned()
        } else {
            None
        }
    }
    fn enumerate(self: &Arc<Self>) -> Enumerator {
        Enumerator::Values(self.present.keys().map(|k| Value::from(k.clone())).collect())
    }
}

fn pool_values() -> BTreeMap<String, Value> {
    let mut m = BTreeMap::new();
    m.insert("x".to_string(), Value::from(2));
    m.insert("xs".to_string(), Value::from(vec![1, 2, 3]));
    m.insert("m".to_string(), Value::from_pairs([("a", 1), ("b", 2)]));
    m.insert("a".to_string(), Value::from(5));
    m.insert("foo".to_string(), Value::from(vec![1, 2, 3]));
    m.insert("ns".to_string(), Value::from_pairs([("x", 1)]));
    m.insert("ae".to_string(), Value::from(true));
    m.insert("tree".to_string(), Value::from(Vec::<Value>::new()));
    m.insert("i".to_string(), Value::from(9));
    m.insert("y".to_string(), Value::from("Y"));
    m.insert("k".to_string(), Value::from("K"));
    m.insert("f".to_string(), Value::from("upper"));
    m
}

/// hand-written assignment-bearing and expression forms (in addition to the generator space)
fn special_forms() -> Vec<String> {
    let v = [
        "{% set x = x + 1 %}{{ x }}",
        "{% set x = x %}",
        "{% set x, y = [x, y] %}",
        "{% set (x, y) = (y, x) %}{{ x }}",
        "{% with a = a %}{{ a }}{% endwith %}",
        "{% with a = 1, y = a %}{{ y }}{% endwith %}",
        "{% with y = a, a = 1 %}{{ y }}{% endwith %}",
        "{% set ns.x = 1 %}",
        "{% set ns.x = a %}",
        "{% set ns = namespace() %}{% set ns.x = a %}{{ ns.x }}",
        "{% set x %}{{ x }}{% endset %}",
        "{% set x %}{{ a }}{% endset %}{{ x }}",
        "{% set y | upper %}{{ a }}{% endset %}",
        "{% autoescape ae %}{{ x }}{% endautoescape %}",
        "{% autoescape 'html' %}{{ x }}{% endautoescape %}",
        "{% macro mm(a, b=a) %}{{ b }}{% endmacro %}{{ mm(1) }}",
        "{% macro mm(b=a) %}{{ b }}{% endmacro %}{{ mm() }}",
        "{% macro mm(b=x) %}{{ b }}{{ y }}{% endmacro %}{{ mm() }}",
        "{% macro mm() %}{{ a }}{% endmacro %}{{ mm() }}",
        "{% macro mm() %}{% set a = 1 %}{{ a }}{% endmacro %}{{ mm() }}{{ a }}",
        "{% macro mm(x) %}{{ x }}{{ caller() }}{% endmacro %}{% call mm(a) %}{{ y }}{% endcall %}",
        "{% macro mm(x) %}{{ caller(x) }}{% endmacro %}{% call(q) mm(a) %}{{ q }}{{ y }}{% endcall %}",
        "{% macro mm(x) %}{{ caller(x) }}{% endmacro %}{% call(q=k) mm(a) %}{{ q }}{% endcall %}",
        "{% macro mm() %}{{ varargs }}{{ kwargs }}{% endmacro %}{{ mm(a, k=y) }}",
        "{% for x in x %}{{ x }}{% endfor %}",
        "{% for i in xs if i > a %}{{ i }}{% endfor %}",
        "{% for i in xs if a %}{{ i }}{% else %}{{ y }}{% endfor %}",
        "{% for i in xs %}{% set y = i %}{% endfor %}{{ y }}",
        "{% for k, i in m|items %}{{ k }}{{ i }}{% endfor %}{{ k }}",
        "{% for i in xs recursive %}{{ loop(xs) if a else '' }}{% endfor %}",
        "{% for i in xs %}{{ loop.index }}{% endfor %}{{ loop }}",
        "{% if a %}{% set y = 1 %}{% endif %}{{ y }}",
        "{% if false %}{% set y = 1 %}{% endif %}{{ y }}",
        "{% if a %}{% set y = 1 %}{% else %}{{ y }}{% endif %}",
        "{{ foo[1:2] }}",
        "{{ foo[a:] }}",
        "{{ foo[:a] }}",
        "{{ foo[::a] }}",
        "{{ xs[a:i:x] }}",
        "{{ foo[a] }}",
        "{{ foo.bar }}",
        "{{ foo.bar.baz }}",
        "{{ foo[a].bar }}",
        "{{ m[k].z }}",
        "{{ m.a[k] }}",
        "{{ (foo).bar }}",
        "{{ foo|attr(k) }}",
        "{{ foo|default(a) }}",
        "{{ xs|map(f)|list }}",
        "{{ xs|select('gt', a)|list }}",
        "{{ x is divisibleby(a) }}",
        "{{ x is defined }}",
        "{{ a if x else y }}",
        "{{ a if x }}",
        "{{ [a, {'k': y, k: 1}, (x,)] }}",
        "{{ range(a) }}",
        "{{ dict(q=a, **m) }}",
        "{{ foo(a, *xs, k=y) }}",
        "{{ foo.method(a) }}",
        "{{ a ~ x }}{{ -y }}{{ not k }}{{ a < x < y }}{{ a in xs }}{{ a and x or y }}",
        "{% filter upper %}{{ a }}{% endfilter %}",
        "{% filter replace(a, y) %}x{% endfilter %}",
        "{% do foo(a) %}",
        "{{ self }}{{ super }}{{ caller }}{{ varargs }}{{ kwargs }}{{ loop }}",
        "{% set a = 1 %}{% macro mm() %}{{ a }}{% endmacro %}{{ mm() }}",
        "{% macro mm() %}{{ a }}{% endmacro %}{% set a = 1 %}{{ mm() }}",
        "{% macro outer() %}{% macro inner(q=a) %}{{ q }}{{ y }}{% endmacro %}{{ inner() }}{% endmacro %}{{ outer() }}",
        "{% set y = x|default(a) %}{% set x = y %}{{ x }}",
        "{% with %}{% set q = a %}{% endwith %}{{ q }}",
        "{% with q = a %}{% endwith %}{{ q }}",
        "{% for i in xs %}{% endfor %}{{ i }}",
        "{% set y %}{% set z = a %}{% endset %}{{ z }}",
        "{% filter upper %}{% set z = a %}{% endfilter %}{{ z }}",
        "{% autoescape true %}{% set z = a %}{% endautoescape %}{{ z }}",
        "{% macro mm() %}{% endmacro %}{% call mm() %}{% set z = 1 %}{% endcall %}{{ z }}",
        "{% if a %}{% elif x %}{{ y }}{% else %}{{ k }}{% endif %}",
        "{{ a.b.c }}{{ a.b }}{{ a }}",
        "{{ m.a }}{% set m = 1 %}{{ m.b }}",
        "{% set a = a.b %}{{ a.c }}",
        "{% for a in a.items %}{{ a.x }}{% endfor %}",
        // names bound inside a construct and read where the binding is gone: else branches (they
        // run after the loop scope is left), text after the construct, sibling branches
        "{% for item in xs %}[{{ item }}]{% else %}none: {{ item }}{% endfor %}",
        "{% for k, i in m|items %}{{ k }}{% else %}{{ k }}{{ i }}{% endfor %}",
        "{% for i in xs %}{% set q = 1 %}{% else %}{{ q }}{% endfor %}",
        "{% for i in xs if i > a %}x{% else %}{{ i }}{{ y }}{% endfor %}",
        "{% for i in xs %}{{ loop.index }}{% else %}{{ loop }}{% endfor %}",
        "{% for i in xs %}{% for y in xs %}{% endfor %}{% else %}{% for q in [1] %}{{ y }}{% else %}{{ q }}{% endfor %}{% endfor %}",
        "{% for i in xs recursive %}{{ loop(i) }}{% else %}{{ i }}{% endfor %}",
        "{% with q = 1 %}{{ q }}{% endwith %}{{ q }}{% with q = q %}{% endwith %}",
        "{% macro mm(q) %}{{ q }}{% endmacro %}{{ q }}",
        "{% macro mm(q) %}{% set y = 1 %}{% endmacro %}{{ mm(1) }}{{ y }}",
        "{% call(q) foo() %}{{ q }}{% endcall %}{{ q }}",
        "{% if a %}{% for y in xs %}{% endfor %}{% else %}{{ y }}{% endif %}",
        "{% for i in xs %}{% if i %}{% set y = 1 %}{% else %}{{ y }}{% endif %}{% else %}{{ y }}{% endfor %}",
        "{% filter upper %}{% for y in xs %}{% endfor %}{% endfilter %}{{ y }}",
        "{% set a %}{% for y in xs %}{% endfor %}{% endset %}{{ y }}",
        "{% for i in xs %}{% macro mm() %}{{ i }}{{ y }}{% endmacro %}{% else %}{{ mm }}{% endfor %}",
        "{% for i in xs %}{% else %}{% for i in xs %}{% else %}{{ i }}{% endfor %}{% endfor %}",
        // macros that refer to themselves, to each other and to macros declared later
        "{% macro rec(d) %}{% if d %}{{ rec(d - 1) }}{% endif %}x{% endmacro %}{{ rec(2) }}",
        "{% macro ping(d) %}{% if d %}{{ pong(d - 1) }}{% endif %}{% endmacro %}{% macro pong(d) %}{% if d %}{{ ping(d - 1) }}{% endif %}{% endmacro %}{{ ping(3) }}",
        "{% macro first() %}{{ later() }}{% endmacro %}{% macro later() %}{{ a }}{% endmacro %}{{ first() }}",
        "{% for q in [1] %}{% macro rec(d) %}{% if d %}{{ rec(d - 1) }}{{ q }}{% endif %}{% endmacro %}{{ rec(1) }}{% endfor %}",
        "{% macro rec(d) %}{% set again = rec %}{{ again(d - 1) if d }}{% endmacro %}{{ rec(1) }}",
        "{% macro rec(f) %}{{ f(f) if x else '' }}{% endmacro %}{{ rec(rec) }}",
        // the special names where they are ordinary lookups: `loop` in the iterable and the filter of a
        // loop (its own loop object does not exist there), `self` and `super` when not called
        "{% for i in loop %}{{ i }}{% endfor %}",
        "{% for i in xs if loop %}{{ i }}{% endfor %}",
        "{% for i in xs if loop.index %}{{ i }}{% endfor %}",
        "{% for i in xs %}{% for j in [loop.index] if loop.first %}{{ j }}{% endfor %}{% endfor %}",
        "{% for i in xs %}{% else %}{{ loop }}{% endfor %}",
        "{% macro mm() %}{% for i in loop %}{{ i }}{% endfor %}{% endmacro %}{{ mm() }}",
        "{% for i in xs %}{% macro mm() %}{% for j in loop %}{{ j }}{% endfor %}{% endmacro %}{{ mm() }}{% endfor %}",
        "{{ self }}",
        "{{ self.a }}",
        "{{ self.a() }}{% block a %}{{ y }}{% endblock %}",
        "{{ self.a(k) }}{% block a %}{% endblock %}",
        "{{ self['a'] }}{% block a %}{% endblock %}",
        "{% set s = self %}{{ s }}",
        "{% block a %}{{ super }}{% endblock %}",
        "{% block a %}{{ super.x }}{% endblock %}",
        "{% block a %}{% if false %}{{ super() }}{% endif %}{{ a }}{% endblock %}",
        "{% macro mm() %}{{ self }}{{ super }}{% endmacro %}{{ mm() }}",
        "{% macro mm() %}{{ self.a() }}{% endmacro %}{% block a %}{{ y }}{% endblock %}{{ mm() }}",
        "{% macro mm() %}{{ caller }}{{ caller() if caller is defined else a }}{% endmacro %}{{ mm() }}",
        "{% call(q) foo() %}{{ caller }}{{ varargs }}{{ kwargs }}{% endcall %}",
        "{{ loop(xs) }}",
        "{{ loop.index }}{{ loop['index'] }}",
        "{{ super() if false else a }}",
    ];
    let mut out: Vec<String> = v.iter().map(|s| s.to_string()).collect();
    // a name read in the header of a construct (evaluated in the enclosing scope) and bound at the top
    // of the construct's own body: the binding must not hide the earlier read
    let headers: [(&str, &str); 14] = [
        ("{% macro ww(p) %}{{ caller(p) }}{% endmacro %}{% call(q) ww(a) %}", "{% endcall %}"),
        ("{% macro ww(p) %}{{ caller(p) }}{% endmacro %}{% call(a) ww(a) %}{{ a }}", "{% endcall %}"),
        ("{% macro ww(p, r=1) %}{{ caller(p) }}{% endmacro %}{% call(q) ww(1, r=a) %}", "{% endcall %}"),
        ("{% macro ww() %}{{ caller() }}{% endmacro %}{% call ww() %}{{ a }}{% endcall %}{% call ww() %}", "{% endcall %}"),
        ("{% for q in a %}", "{% endfor %}"),
        ("{% for q in xs if a %}", "{% endfor %}"),
        ("{% for q in xs %}", "{% else %}{{ a }}{% endfor %}"),
        ("{% with q = a %}", "{% endwith %}"),
        ("{% filter replace(a, 'z') %}", "{% endfilter %}"),
        ("{% autoescape a %}", "{% endautoescape %}"),
        ("{% if a %}", "{% endif %}"),
        ("{% if false %}{% elif a %}", "{% endif %}"),
        ("{% set q | replace(a, 'z') %}", "{% endset %}"),
        ("{% macro mm(d=a) %}", "{% endmacro %}{{ mm() }}"),
    ];
    let binders = [
        "",
        "{% set a = 1 %}{{ a }}",
        "{% set a %}x{% endset %}{{ a }}",
        "{% for a in [1] %}{{ a }}{% endfor %}",
        "{% with a = 1 %}{{ a }}{% endwith %}",
        "{% macro a() %}{% endmacro %}{{ a() }}",
        "{% set a, z = 1, 2 %}{{ a }}",
        "{% if x %}{% set a = 1 %}{% endif %}{{ a }}",
    ];
    // macro and call-block signatures: every assignment of defaults to up to three parameters, a
    // default being a literal, an outer name, an earlier parameter or a later parameter, called with
    // every number of positional arguments
    let params = ["a", "y", "k"];
    for n in 1..=3usize {
        let kinds = 5usize; // none, literal, outer name x, earlier/later parameter by index
        for code in 0..kinds.pow(n as u32) {
            let mut k = code;
            let mut sig = vec![];
            let mut ok = true;
            let mut seen_default = false;
            for i in 0..n {
                let kind = k % kinds;
                k /= kinds;
                let d = match kind {
                    0 => None,
                    1 => Some("1".to_string()),
                    2 => Some("x".to_string()),
                    3 => Some(params[(i + n - 1) % n].to_string()),
                    _ => Some(params[(i + 1) % n].to_string()),
                };
                // parameters without a default cannot follow parameters with one
                if d.is_none() && seen_default {
                    ok = false;
                }
                seen_default |= d.is_some();
                sig.push(match d {
                    Some(d) => format!("{}={}", params[i], d),
                    None => params[i].to_string(),
                });
            }
            if !ok {
                continue;
            }
            let body: String = params[..n].iter().map(|p| format!("{{{{ {} }}}}", p)).collect();
            for nargs in 0..=n {
                let args: Vec<&str> = ["1", "2", "3"][..nargs].to_vec();
                out.push(format!("{{% macro mm({}) %}}{}{{% endmacro %}}{{{{ mm({}) }}}}", sig.join(", "), body, args.join(", ")));
                out.push(format!("{{% macro cw() %}}{{{{ caller({}) }}}}{{% endmacro %}}{{% call({}) cw() %}}{}{{% endcall %}}", args.join(", "), sig.join(", "), body));
            }
        }
    }
    // blocks are rendered where they stand and again wherever self.<block>() is called: a name the
    // block reads that is bound only by a construct around the block is a context lookup for the call
    // made outside that construct
    for (open, close) in [
        ("{% with y = 1 %}", "{% endwith %}"), ("{% for y in [1] %}", "{% endfor %}"), ("{% set y = 1 %}", ""), ("{% if true %}{% set y = 1 %}", "{% endif %}"), ("{% filter upper %}{% set y = 1 %}", "{% endfilter %}"),
        ("{% set cap %}{% set y = 1 %}", "{% endset %}"), ("{% for i in [1] %}{% set y = i %}", "{% endfor %}"), ("{% with %}{% set y = 1 %}", "{% endwith %}"), ("{% autoescape true %}{% with y = 2 %}", "{% endwith %}{% endautoescape %}"),
    ] {
        for body in ["{{ y }}", "{% if y %}1{% endif %}", "{% for q in y %}{% endfor %}"] {
            let blk = format!("{}{{% block a %}}{}{{% endblock %}}{}", open, body, close);
            out.push(format!("{}{{{{ self.a() }}}}", blk));
            out.push(format!("{{{{ self.a() }}}}{}", blk));
            out.push(format!("{}{{% macro mm() %}}{{{{ self.a() }}}}{{% endmacro %}}{{{{ mm() }}}}", blk));
            out.push(format!("{}{{% for z in [1] %}}{{{{ self.a() }}}}{{% endfor %}}", blk));
            out.push(format!("{}{{% with y = 5 %}}{{{{ self.a() }}}}{{% endwith %}}", blk));
        }
    }
    for (pre, post) in headers {
        for b in binders {
            out.push(format!("{}{}{}", pre, b, post));
            out.push(format!("{}{}{}{{{{ a }}}}", pre, b, post));
        }
    }
    out
}

/// names the engine reserves for itself and probes internally (`loop` when a loop starts, to find its
/// parent): a recorded lookup of one of these counts only if a value under that key changes the render
const RESERVED: &[&str] = &["loop", "self", "super", "caller", "varargs", "kwargs"];
const GLOBALS: &[&str] = &["range", "dict", "debug", "namespace", "probe"];

fn check_program(src: &str, name: &str, family: &str, acc: &Acc, l: &mut Local) {
    let mut env = Environment::new();
    env.add_function("probe", || Value::from(""));
    // with debug info enabled a *failing* render looks every name the template mentions up again
    // to print "Referenced variables"; that is error reporting, not the template reading its context
    env.set_debug(false);
    let Ok(tmpl) = env.template_from_str(src) else {
        l.outcome("does not compile");
        return;
    };
    let flat: BTreeSet<String> = tmpl.undeclared_variables(false).into_iter().collect();
    let nested: BTreeSet<String> = tmpl.undeclared_variables(true).into_iter().collect();
    let nested_heads: BTreeSet<String> = nested.iter().map(|p| p.split('.').next().unwrap_or("").to_string()).collect();
    let values = pool_values();
    let names: Vec<&String> = values.keys().collect();
    // which context keys are present: all, none, and each single-key and all-but-one subset of
    // the names the template mentions (control flow depends on them)
    let mentioned: Vec<&String> = names.iter().copied().filter(|n| src.contains(n.as_str())).collect();
    let mut subsets: Vec<BTreeSet<&String>> = vec![names.iter().copied().collect(), BTreeSet::new()];
    let k = mentioned.len().min(4);
    for mask in 0..(1u32 << k) {
        subsets.push((0..k).filter(|i| mask & (1 << i) != 0).map(|i| mentioned[i]).collect());
    }
    let mut union: BTreeSet<String> = BTreeSet::new();
    for present in &subsets {
        let log: Arc<Mutex<BTreeSet<String>>> = Default::default();
        let rec = Recorder { present: present.iter().map(|k| ((*k).clone(), values[*k].clone())).collect(), log: log.clone() };
        l.evals += 1;
        let r = catch(|| tmpl.render(Value::from_object(rec)).map_err(|e| e.kind()));
        if r.is_err() {
            l.outcome("render panics (C01)");
        }
        union.extend(log.lock().unwrap().iter().cloned());
    }
    // reserved names: the engine probes some of them for itself (every loop asks for `loop` to find a
    // parent loop), so a recorded lookup alone does not say the template read the key.  It did if a
    // value under that key changes what the render gives
    let mut reserved_read: BTreeSet<String> = BTreeSet::new();
    for key in union.iter().filter(|k| RESERVED.contains(&k.as_str())) {
        if flat.contains(key) && nested_heads.contains(key) {
            continue;
        }
        for present in &subsets {
            let run = |with_key: bool| {
                let mut m: BTreeMap<String, Value> = present.iter().map(|k| ((*k).clone(), values[*k].clone())).collect();
                if with_key {
                    m.insert(key.clone(), Value::from(vec![Value::from("RESERVED-MARK")]));
                }
                let rec = Recorder { present: m, log: Default::default() };
                catch(|| tmpl.render(Value::from_object(rec)).map_err(|e| e.to_string()))
            };
            l.evals += 2;
            if run(false) != run(true) {
                reserved_read.insert(key.clone());
                break;
            }
        }
    }
    let mut missing_flat = vec![];
    let mut missing_nested = vec![];
    for key in &union {
        if GLOBALS.contains(&key.as_str()) || (RESERVED.contains(&key.as_str()) && !reserved_read.contains(key)) {
            continue;
        }
        if !flat.contains(key) {
            missing_flat.push(key.clone());
        }
        if !nested_heads.contains(key) {
            missing_nested.push(key.clone());
        }
    }
    if !union.is_empty() {
        l.nontrivial.insert(fnv(src.as_bytes()));
    }
    l.outcome(if missing_flat.is_empty() && missing_nested.is_empty() { "sound" } else { "UNSOUND" });
    let shape = |src: &str| -> &'static str {
        // coarse syntactic class of the first construct that mentions the missing name
        for (pat, label) in [
            ("[", "subscript_or_slice"), ("{% set ", "set"), ("{% with", "with"), ("{% macro", "macro"), ("{% autoescape", "autoescape"), ("{% call", "call"),
            ("{% for", "for"), ("{% filter", "filter_block"),
        ] {
            if src.contains(pat) {
                return label;
            }
        }
        "expression"
    };
    if !missing_flat.is_empty() {
        acc.fail(Failure {
            key: format!("undeclared flat_report_omits family={} shape={}", family, shape(src)),
            case: format!("{} :: {}", name, src),
            detail: format!("render looked up {:?} but undeclared_variables(false) = {:?}", missing_flat, flat),
            replay: json!({"source": src}),
        });
    }
    if !missing_nested.is_empty() {
        acc.fail(Failure {
            key: format!("undeclared nested_report_omits family={} shape={}", family, shape(src)),
            case: format!("{} :: {}", name, src),
            detail: format!("render looked up {:?} but undeclared_variables(true) = {:?}", missing_nested, nested),
            replay: json!({"source": src}),
        });
    }
}

pub fn main(args: Args) -> i32 {
    let start_t = std::time::Instant::now();
    install_quiet_panic_hook();
    let acc = Acc::new();
    if let Some(p) = &args.replay {
        let doc = load_replay(p);
        let mut l = Local::default();
        check_program(doc["replay"]["source"].as_str().unwrap(), "replay", "replay", &acc, &mut l);
        let fs = acc.take_failures();
        return if fs.is_empty() {
            println!("replay: case passes");
            0
        } else {
            for f in &fs {
                println!("VIOLATION property=C18 replay={}  # {} :: {}", p, f.key, f.detail);
            }
            1
        };
    }
    let specials = special_forms();
    {
        let mut l = Local::default();
        for (i, s) in specials.iter().enumerate() {
            check_program(s, &format!("special#{}", i), "special", &acc, &mut l);
        }
        l.flush(&acc);
    }
    acc.count("special_forms", specials.len() as u64);
    // the report of a loaded template does not depend on what happens to the environment afterwards:
    // every special form is loaded under the default syntax and under a custom one, the environment is
    // reconfigured (syntax, whitespace settings, undefined behaviour, globals, a second template), and the
    // report of the template loaded earlier must stay what it was - and sound, which check_program
    // decides for the same source
    {
        use minijinja::syntax::SyntaxConfig;
        let custom = || SyntaxConfig::builder().block_delimiters("<%", "%>").variable_delimiters("<<", ">>").comment_delimiters("<#", "#>").build().unwrap();
        let to_custom = |s: &str| s.replace("{%", "<%").replace("%}", "%>").replace("{{", "<<").replace("}}", ">>").replace("{#", "<#").replace("#}", "#>");
        let reconfigs: Vec<(&str, Box<dyn Fn(&mut Environment<'static>) + Sync>)> = vec![
            ("set_syntax_custom", Box::new(move |e| e.set_syntax(custom()))),
            ("set_syntax_default", Box::new(|e| e.set_syntax(SyntaxConfig::default()))),
            ("whitespace_settings", Box::new(|e| { e.set_trim_blocks(true); e.set_lstrip_blocks(true); e.set_keep_trailing_newline(true); })),
            ("undefined_strict", Box::new(|e| e.set_undefined_behavior(minijinja::UndefinedBehavior::Strict))),
            ("add_global_and_template", Box::new(|e| { e.add_global("a", 1); let _ = e.add_template("other", "{{ zz }}"); })),
            ("clone_of_environment", Box::new(|e| { let c = e.clone(); *e = c; })),
        ];
        let reports = |e: &Environment<'static>| -> Option<(BTreeSet<String>, BTreeSet<String>)> {
            let t = e.get_template("t").ok()?;
            Some((t.undeclared_variables(false).into_iter().collect(), t.undeclared_variables(true).into_iter().collect()))
        };
        par_items(&specials, &acc, |i, src, l| {
            for start_custom in [false, true] {
                // (sources that spell a delimiter of the other syntax inside a string would change meaning)
                if start_custom && (src.contains("<<") || src.contains("<%")) {
                    continue;
                }
                let mut env = Environment::new();
                if start_custom {
                    env.set_syntax(custom());
                }
                if env.add_template_owned("t", if start_custom { to_custom(src) } else { src.clone() }).is_err() {
                    l.outcome("does not compile");
                    continue;
                }
                let before = reports(&env);
                let fresh = {
                    let e = Environment::new();
                    e.template_from_str(src).ok().map(|t| (t.undeclared_variables(false).into_iter().collect::<BTreeSet<String>>(), t.undeclared_variables(true).into_iter().collect::<BTreeSet<String>>()))
                };
                for (rname, rc) in &reconfigs {
                    let mut e2 = env.clone();
                    rc(&mut e2);
                    l.evals += 1;
                    let after = reports(&e2);
                    if after != before || before != fresh {
                        acc.fail(Failure {
                            key: format!("undeclared report_depends_on_environment_history reconfiguration={} loaded_under={}", rname, if start_custom { "custom_syntax" } else { "default_syntax" }),
                            case: format!("special#{} :: {}", i, src),
                            detail: format!("report when loaded {:?}; after {} {:?}; same source in a fresh default environment {:?}", before, rname, after, fresh),
                            replay: json!({"source": src, "reconfiguration": rname, "start_custom": start_custom}),
                        });
                    } else {
                        l.outcome("report unchanged by reconfiguration");
                    }
                }
            }
        });
    }
    let opts = gen::Opts { depth: 2, max_programs: u64::MAX, multi_template: false, loop_controls: true, extra_leaves: true };
    let size = gen::Gen::new(opts).size();
    let stride = args.tier.pick(5u64, 1u64);
    let n_prog = (size + stride - 1) / stride;
    acc.count("programs", n_prog);
    par_chunks(n_prog, 128, &acc, |r, l| {
        let g = gen::Gen::new(opts);
        for k in r {
            let n = k * stride;
            check_program(&g.program(n).source(), &format!("d2#{}", n), "program", &acc, l);
        }
    });
    if args.tier == Tier::Thorough {
        let opts3 = gen::Opts { depth: 3, ..opts };
        let size3 = gen::Gen::new(opts3).size();
        let stride3 = 23u64;
        let n3 = (size3 + stride3 - 1) / stride3;
        acc.count("programs_depth3_stride23", n3);
        par_chunks(n3, 128, &acc, |r, l| {
            let g = gen::Gen::new(opts3);
            for k in r {
                check_program(&g.program(k * stride3).source(), &format!("d3#{}", k * stride3), "program", &acc, l);
            }
        });
    }
    acc.sample(json!({"source": specials[0], "contexts": "recording object with all / no / every subset of up to 4 mentioned keys present"}));
    acc.sample(json!({"source": specials[15]}));
    finish(
        Finish {
            property: "C18",
            level: "exploration",
            tier: args.tier,
            seed: args.seed,
            rule: format!("{} hand-enumerated assignment-bearing and expression forms (self-referential set, with, dotted set, unpacking, slices/subscripts, macro defaults/bodies/closures, call blocks with arguments, loops reading their own target, set-blocks, autoescape expressions, filter blocks, special names; 14 constructs reading a name in their header x 8 ways of binding the same name at the top of their body, with and without a read after the construct; every macro and call-block signature of up to 3 parameters whose defaults are absent, a literal, an outer name, an earlier or a later parameter, called with every number of arguments) plus every {} program of the depth-2 generator space{}; each rendered with a recording context object under all-keys, no-keys and every subset of up to 4 mentioned keys; every recorded key must be in undeclared_variables(false) (or a global) and be the head of a path of undeclared_variables(true); every special form is also loaded into an environment under the default and under a custom syntax, the environment is then reconfigured in 6 ways (syntax changed either way, whitespace settings, undefined behaviour, a global and a further template, cloned) and the report of the template loaded earlier must stay what it was and equal the one of a fresh environment. distinct non-trivial = distinct sources whose render looked up at least one key", specials.len(), if stride == 1 { "".to_string() } else { format!("{}th", stride) }, if args.tier == Tier::Thorough { " and every 23rd depth-3 program" } else { "" }),
            exhaustive: true,
            bound: json!({"context_key_pool": pool_values().keys().collect::<Vec<_>>()}),
            assumptions: vec!["debug info is switched off (a failing render otherwise re-reads every mentioned name for its error report)".into(), "a lookup of the reserved names loop/self/super/caller/varargs/kwargs counts when a value under that key changes the result of the render (the engine also probes them for itself)".into(), "single-file templates only (include/import/extends are documented as out of scope of the analysis)".into()],
            extra: Default::default(),
            start: start_t,
        },
        &acc,
    )
}
