//! C05 — scoped constructs restore scope, capture and escape state on every path.
//!
//! E2: explicit-state model checking of the *compiled instruction streams* of every generated
//! program under an abstract VM (branches, loop exits and recursion non-deterministic), with the
//! abstract VM bound to the real VM by trace conformance through the `verif_hooks` probes.
use crate::core::*;
use crate::gen;
use minijinja::machinery::{parse, CodeGenerator, Instruction, Instructions, WhitespaceConfig};
use minijinja::syntax::SyntaxConfig;
use minijinja::value::Value;
use minijinja::verif_hooks::{self, Event};
use minijinja::Environment;
use serde_json::json;
use std::collections::{BTreeMap, BTreeSet, HashMap, HashSet, VecDeque};

// ---------------------------------------------------------------------------------------------
// abstract machine

#[derive(Clone, Copy, Debug, PartialEq, Eq, Hash, PartialOrd, Ord)]
enum Op {
    Opaque,
    Int(u8),
    /// what ending a discarding capture pushes: an undefined nobody is meant to read
    Nothing,
}

#[derive(Clone, Debug, PartialEq, Eq, Hash, PartialOrd, Ord)]
enum Fr {
    With,
    Loop {
        iters: u8,
        with_loop_var: bool,
        /// pc of the PushLoop when the loop is recursive
        recursive_pc: Option<u32>,
        /// where PopLoopFrame returns to when this frame was entered by recursion
        rec_return: Option<(u32, bool)>,
    },
}

#[derive(Clone, Copy, Debug, PartialEq, Eq, Hash, PartialOrd, Ord)]
enum Cap {
    Capture,
    Discard,
}

#[derive(Clone, Debug, PartialEq, Eq, Hash, PartialOrd, Ord)]
struct AState {
    pc: u32,
    ops: Vec<Op>,
    frames: Vec<Fr>,
    caps: Vec<Cap>,
    ae: u8,
    /// LoadBlocks has been executed (output is discarded until the parent runs)
    parent_pending: bool,
    /// set by loop()/FastRecurse until the PushLoop it jumps to consumes it
    next_rec: Option<(u32, bool)>,
    rec_depth: u8,
    ended: bool,
}

impl AState {
    fn entry(pc: u32, operands: usize) -> AState {
        AState { pc, ops: vec![Op::Opaque; operands], frames: vec![], caps: vec![], ae: 0, parent_pending: false, next_rec: None, rec_depth: 0, ended: false }
    }
}

const MAX_ITERS: u8 = 2;
/// bound on simultaneously active loop recursions: one level per recursive loop that can nest
const MAX_REC: u8 = 3;

#[derive(Debug, Clone)]
struct Violation {
    clause: &'static str,
    detail: String,
}

enum StepResult {
    Next(Vec<AState>),
    Violation(Violation),
    /// the abstraction cannot follow this instruction (dynamic operand counts); not a verdict
    Unsupported(String),
}

fn pop_n(ops: &mut Vec<Op>, n: usize, what: &str) -> Result<(), Violation> {
    if ops.len() < n {
        return Err(Violation { clause: "operand_underflow", detail: format!("{} pops {} operand(s) but only {} belong to this evaluation", what, n, ops.len()) });
    }
    ops.truncate(ops.len() - n);
    Ok(())
}

fn small_int(v: &Value) -> Option<u8> {
    if v.is_integer() {
        v.as_usize().filter(|x| *x <= 8).map(|x| x as u8)
    } else {
        None
    }
}

fn step(instrs: &Instructions<'_>, s: &AState) -> StepResult {
    let Some(instr) = instrs.get(s.pc) else {
        // end of the stream
        return end_of_eval(s, "end of instruction stream");
    };
    let mut n = s.clone();
    n.pc = s.pc + 1;
    let name = format!("{:?}", instr).split(['(', ' ']).next().unwrap_or("").to_string();
    macro_rules! pops {
        ($k:expr) => {
            if let Err(v) = pop_n(&mut n.ops, $k, &name) {
                return StepResult::Violation(v);
            }
        };
    }
    macro_rules! push {
        () => {
            n.ops.push(Op::Opaque)
        };
    }
    let dyn_count = |ops: &mut Vec<Op>| -> Result<usize, StepResult> {
        match ops.pop() {
            Some(Op::Int(k)) => Ok(k as usize),
            Some(Op::Opaque) | Some(Op::Nothing) => Err(StepResult::Unsupported(format!("{} with a dynamic count the abstraction does not know", name))),
            None => Err(StepResult::Violation(Violation { clause: "operand_underflow", detail: format!("{} pops its count from an empty operand stack", name) })),
        }
    };
    match instr {
        Instruction::EmitRaw(_) | Instruction::Enclose(_) => {}
        Instruction::Emit | Instruction::StoreLocal(_) | Instruction::DiscardTop => pops!(1),
        Instruction::Lookup(_) | Instruction::GetClosure => push!(),
        // a recursion level returns to its call site from PopLoopFrame and never reaches the else
        // branch that would consume the flag, so the flag is only pushed for ordinary loop frames
        Instruction::PushDidNotIterate => {
            if !matches!(n.frames.last(), Some(Fr::Loop { rec_return: Some(_), .. })) {
                push!()
            }
        }
        Instruction::LoadConst(v) => n.ops.push(small_int(v).map_or(Op::Opaque, Op::Int)),
        Instruction::GetAttr(_) | Instruction::Neg | Instruction::Not | Instruction::IsUndefined | Instruction::ExportLocals => {
            pops!(1);
            push!();
        }
        Instruction::SetAttr(_) => pops!(2),
        Instruction::GetItem | Instruction::Sub | Instruction::Mul | Instruction::Div | Instruction::IntDiv | Instruction::Rem | Instruction::Pow | Instruction::Eq | Instruction::Ne | Instruction::Gt | Instruction::Gte | Instruction::Lt | Instruction::Lte | Instruction::StringConcat | Instruction::In => {
            pops!(2);
            push!();
        }
        Instruction::Add => {
            let b = n.ops.pop();
            let a = n.ops.pop();
            match (a, b) {
                (Some(Op::Int(x)), Some(Op::Int(y))) => n.ops.push(Op::Int(x.saturating_add(y))),
                (Some(_), Some(_)) => push!(),
                _ => return StepResult::Violation(Violation { clause: "operand_underflow", detail: "Add pops below the entry height".into() }),
            }
        }
        Instruction::Slice => {
            pops!(4);
            push!();
        }
        Instruction::CompareAndPreserve(_) => {
            pops!(2);
            push!();
            push!();
        }
        Instruction::BuildMap(k) | Instruction::BuildKwargs(k) => {
            pops!(2 * *k);
            push!();
        }
        Instruction::MergeKwargs(k) => {
            pops!(*k);
            push!();
        }
        Instruction::BuildList(k) | Instruction::BuildTuple(k) => {
            let count = match k {
                Some(k) => *k,
                None => match dyn_count(&mut n.ops) {
                    Ok(c) => c,
                    Err(r) => return r,
                },
            };
            pops!(count);
            push!();
        }
        Instruction::UnpackList(k) => {
            pops!(1);
            for _ in 0..*k {
                push!();
            }
        }
        Instruction::UnpackLists(_) => return StepResult::Unsupported("UnpackLists pushes a data-dependent number of operands".into()),
        Instruction::ApplyFilter(_, argc, _) | Instruction::PerformTest(_, argc, _) | Instruction::CallMethod(_, argc) | Instruction::CallObject(argc) => {
            let count = match argc {
                Some(k) => *k as usize,
                None => match dyn_count(&mut n.ops) {
                    Ok(c) => c,
                    Err(r) => return r,
                },
            };
            pops!(count);
            push!();
        }
        Instruction::CallFunction(fname, argc) => {
            let count = match argc {
                Some(k) => *k as usize,
                None => match dyn_count(&mut n.ops) {
                    Ok(c) => c,
                    Err(r) => return r,
                },
            };
            // `loop(x)` inside a recursive loop re-enters the loop at its PushLoop
            if *fname == "loop" && count == 1 {
                let target = s.frames.iter().rev().find_map(|f| match f {
                    Fr::Loop { with_loop_var: true, recursive_pc, .. } => Some(*recursive_pc),
                    _ => None,
                });
                if let Some(Some(push_pc)) = target {
                    if s.rec_depth >= MAX_REC {
                        // bound reached: the deeper recursion behaves like the one already explored;
                        // continue as if the call returned a value
                        pops!(count);
                        push!();
                        return StepResult::Next(vec![n]);
                    }
                    if n.ops.is_empty() {
                        return StepResult::Violation(Violation { clause: "operand_underflow", detail: "loop() without its argument on the stack".into() });
                    }
                    let mut r = s.clone();
                    r.caps.push(Cap::Capture);
                    r.next_rec = Some((s.pc + 1, true));
                    r.pc = push_pc;
                    r.rec_depth += 1;
                    // the argument stays on the stack: PushLoop consumes it
                    return StepResult::Next(vec![r]);
                }
            }
            pops!(count);
            push!();
        }
        Instruction::FastRecurse => {
            let target = s.frames.iter().rev().find_map(|f| match f {
                Fr::Loop { recursive_pc, .. } => Some(*recursive_pc),
                _ => None,
            });
            match target {
                Some(Some(push_pc)) if s.rec_depth < MAX_REC => {
                    let mut r = s.clone();
                    r.next_rec = Some((s.pc + 1, false));
                    r.pc = push_pc;
                    r.rec_depth += 1;
                    return StepResult::Next(vec![r]);
                }
                Some(Some(_)) => {
                    // bound reached: treat like an emitted value (argument consumed)
                    pops!(1);
                }
                _ => {
                    // error path in the real VM: evaluation stops
                    return StepResult::Next(vec![]);
                }
            }
        }
        Instruction::PushWith => n.frames.push(Fr::With),
        Instruction::PushLoop(flags) => {
            pops!(1);
            n.frames.push(Fr::Loop { iters: 0, with_loop_var: flags & 1 != 0, recursive_pc: if flags & 2 != 0 { Some(s.pc) } else { None }, rec_return: n.next_rec.take() });
        }
        Instruction::Iterate(target) => {
            let Some(Fr::Loop { iters, .. }) = n.frames.last_mut() else {
                return StepResult::Violation(Violation { clause: "iterate_without_loop_frame", detail: format!("Iterate at pc {} finds {:?} on top of the frames of this evaluation", s.pc, s.frames.last()) });
            };
            let mut out = vec![];
            let mut exit = s.clone();
            exit.pc = *target;
            out.push(exit);
            if *iters < MAX_ITERS {
                *iters += 1;
                push!();
                out.push(n);
            }
            return StepResult::Next(out);
        }
        Instruction::PopFrame => match n.frames.pop() {
            Some(Fr::With) => {}
            Some(l @ Fr::Loop { .. }) => return StepResult::Violation(Violation { clause: "pop_frame_discards_loop_frame", detail: format!("PopFrame at pc {} pops {:?}", s.pc, l) }),
            None => return StepResult::Violation(Violation { clause: "pops_foreign_frame", detail: format!("PopFrame at pc {} pops a frame this evaluation did not create", s.pc) }),
        },
        Instruction::PopLoopFrame => match n.frames.pop() {
            Some(Fr::Loop { rec_return, .. }) => {
                if let Some((target, end_capture)) = rec_return {
                    n.pc = target;
                    n.rec_depth = n.rec_depth.saturating_sub(1);
                    if end_capture {
                        match n.caps.pop() {
                            Some(Cap::Capture) => n.ops.push(Op::Opaque),
                            other => return StepResult::Violation(Violation { clause: "end_capture_mismatch", detail: format!("recursion return at pc {} ends capture {:?}", s.pc, other) }),
                        }
                    }
                }
            }
            Some(Fr::With) => return StepResult::Violation(Violation { clause: "pop_loop_frame_finds_with_frame", detail: format!("PopLoopFrame at pc {} finds a with-frame (the real VM unwraps current_loop and panics)", s.pc) }),
            None => return StepResult::Violation(Violation { clause: "pops_foreign_frame", detail: format!("PopLoopFrame at pc {} pops a frame this evaluation did not create", s.pc) }),
        },
        Instruction::Jump(t) => n.pc = *t,
        Instruction::JumpIfFalse(t) => {
            pops!(1);
            let mut j = n.clone();
            j.pc = *t;
            return StepResult::Next(vec![n, j]);
        }
        Instruction::JumpIfFalseOrPop(t) | Instruction::JumpIfTrueOrPop(t) => {
            if n.ops.is_empty() {
                return StepResult::Violation(Violation { clause: "operand_underflow", detail: "short-circuit jump peeks an empty stack".into() });
            }
            let mut j = n.clone();
            j.pc = *t;
            n.ops.pop();
            return StepResult::Next(vec![n, j]);
        }
        Instruction::PushAutoEscape => {
            pops!(1);
            n.ae += 1;
        }
        Instruction::PopAutoEscape => {
            if n.ae == 0 {
                return StepResult::Violation(Violation { clause: "pop_auto_escape_underflow", detail: format!("PopAutoEscape at pc {} without a PushAutoEscape in this evaluation (the real VM unwraps None)", s.pc) });
            }
            n.ae -= 1;
        }
        Instruction::BeginCapture(mode) => n.caps.push(if format!("{:?}", mode) == "Discard" { Cap::Discard } else { Cap::Capture }),
        Instruction::EndCapture => match n.caps.pop() {
            Some(Cap::Discard) => n.ops.push(Op::Nothing),
            Some(Cap::Capture) => push!(),
            None => return StepResult::Violation(Violation { clause: "ends_foreign_capture", detail: format!("EndCapture at pc {} ends a capture this evaluation did not begin", s.pc) }),
        },
        Instruction::DupTop => match n.ops.last().copied() {
            Some(t) => n.ops.push(t),
            None => return StepResult::Violation(Violation { clause: "operand_underflow", detail: "DupTop on an empty stack".into() }),
        },
        Instruction::Swap => {
            let l = n.ops.len();
            if l < 2 {
                return StepResult::Violation(Violation { clause: "operand_underflow", detail: "Swap needs two operands".into() });
            }
            n.ops.swap(l - 1, l - 2);
        }
        Instruction::FastSuper | Instruction::CallBlock(_) => {}
        Instruction::LoadBlocks => {
            pops!(1);
            if n.parent_pending {
                return StepResult::Next(vec![]); // "tried to extend a second time": error path
            }
            n.parent_pending = true;
            n.caps.push(Cap::Discard);
        }
        Instruction::Include(_) => pops!(1),
        Instruction::BuildMacro(..) => {
            pops!(2);
            push!();
        }
        Instruction::Return => return end_of_eval(s, "Return"),
        #[allow(unreachable_patterns)]
        other => return StepResult::Unsupported(format!("instruction {:?} is not modelled", other)),
    }
    StepResult::Next(vec![n])
}

fn end_of_eval(s: &AState, at: &str) -> StepResult {
    let mut caps = s.caps.clone();
    if s.parent_pending {
        // the discard capture begun by LoadBlocks is ended when the stream runs out
        if caps.pop() != Some(Cap::Discard) {
            return StepResult::Violation(Violation { clause: "extends_capture_mismatch", detail: format!("{}: the capture on top is not the discard capture of extends ({:?})", at, s.caps) });
        }
    }
    if !s.frames.is_empty() {
        return StepResult::Violation(Violation { clause: "frames_left_at_exit", detail: format!("{} at pc {} with frames {:?} still pushed", at, s.pc, s.frames) });
    }
    if !caps.is_empty() {
        return StepResult::Violation(Violation { clause: "capture_left_open_at_exit", detail: format!("{} at pc {} with captures {:?} still open: later output is swallowed", at, s.pc, caps) });
    }
    if s.ae != 0 {
        return StepResult::Violation(Violation { clause: "auto_escape_left_at_exit", detail: format!("{} at pc {} with {} auto-escape scope(s) open", at, s.pc, s.ae) });
    }
    // a stream that runs out has consumed everything it pushed (statements leave nothing behind); a
    // stale operand means some path pushed a value nobody popped, and the next expression sees it
    // (the undefined left by ending a discarding capture - a from-import statement does that - is
    // never read and is not counted)
    if at != "Return" && s.ops.iter().any(|o| *o != Op::Nothing) {
        return StepResult::Violation(Violation { clause: "operands_left_at_exit", detail: format!("{} at pc {} with operands {:?} still on the stack", at, s.pc, s.ops) });
    }
    let mut e = s.clone();
    e.ended = true;
    StepResult::Next(vec![e])
}

struct Explored {
    states: HashSet<AState>,
    transitions: u64,
    violation: Option<(Violation, Vec<u32>)>,
    unsupported: Option<String>,
    operand_leak_at_exit: bool,
    trapped: Option<Vec<u32>>,
}

fn explore(instrs: &Instructions<'_>, entry: AState) -> Explored {
    let mut states: HashSet<AState> = HashSet::new();
    let mut parent: HashMap<AState, AState> = HashMap::new();
    let mut succ: HashMap<AState, Vec<AState>> = HashMap::new();
    let mut queue = VecDeque::new();
    states.insert(entry.clone());
    queue.push_back(entry.clone());
    let mut transitions = 0u64;
    let mut violation = None;
    let mut unsupported = None;
    let mut leak = false;
    let path_to = |parent: &HashMap<AState, AState>, s: &AState| -> Vec<u32> {
        let mut p = vec![s.pc];
        let mut cur = s;
        while let Some(prev) = parent.get(cur) {
            p.push(prev.pc);
            cur = prev;
        }
        p.reverse();
        p
    };
    while let Some(s) = queue.pop_front() {
        if s.ended {
            if !s.ops.is_empty() {
                leak = true;
            }
            continue;
        }
        if states.len() > 200_000 {
            unsupported = Some("abstract state space exceeds 200000 states".into());
            break;
        }
        match step(instrs, &s) {
            StepResult::Violation(v) => {
                if violation.is_none() {
                    violation = Some((v, path_to(&parent, &s)));
                }
            }
            StepResult::Unsupported(u) => {
                unsupported = Some(u);
            }
            StepResult::Next(ns) => {
                for n in &ns {
                    transitions += 1;
                    if states.insert(n.clone()) {
                        parent.insert(n.clone(), s.clone());
                        queue.push_back(n.clone());
                    }
                }
                succ.insert(s.clone(), ns);
            }
        }
    }
    // every reachable state can reach an end (no trapped cycle such as an unresolved jump)
    let mut trapped = None;
    if violation.is_none() && unsupported.is_none() {
        let mut can_end: HashSet<AState> = states.iter().filter(|s| s.ended).cloned().collect();
        let mut pred: HashMap<AState, Vec<AState>> = HashMap::new();
        for (a, bs) in &succ {
            for b in bs {
                pred.entry(b.clone()).or_default().push(a.clone());
            }
        }
        let mut work: Vec<AState> = can_end.iter().cloned().collect();
        while let Some(s) = work.pop() {
            if let Some(ps) = pred.get(&s) {
                for p in ps {
                    if can_end.insert(p.clone()) {
                        work.push(p.clone());
                    }
                }
            }
        }
        // states without successors that are not ends are error exits of the real VM (allowed)
        for s in &states {
            if !can_end.contains(s) && succ.get(s).map_or(false, |v| !v.is_empty()) {
                trapped = Some(path_to(&parent, s));
                break;
            }
        }
    }
    Explored { states, transitions, violation, unsupported, operand_leak_at_exit: leak, trapped }
}

// ---------------------------------------------------------------------------------------------
// compiled programs

struct Compiled<'s> {
    main: Instructions<'s>,
    blocks: BTreeMap<&'s str, Instructions<'s>>,
}

fn compile<'s>(name: &'s str, source: &'s str) -> Result<Compiled<'s>, minijinja::Error> {
    let ast = parse(source, name, SyntaxConfig::default(), WhitespaceConfig::default())?;
    let mut g = CodeGenerator::new(name, source);
    g.compile_stmt(&ast);
    let (main, blocks) = g.finish();
    Ok(Compiled { main, blocks })
}

/// entry points of one instruction stream: pc 0 plus every macro body (BuildMacro offsets)
fn entries(instrs: &Instructions<'_>) -> Vec<(String, AState)> {
    let mut v = vec![("start".to_string(), AState::entry(0, 0))];
    let mut pc = 0;
    while let Some(i) = instrs.get(pc) {
        if let Instruction::BuildMacro(name, offset, _) = i {
            // the argument names are the constant loaded right before
            let argc = match instrs.get(pc - 1) {
                Some(Instruction::LoadConst(v)) => v.len().unwrap_or(0),
                _ => 0,
            };
            v.push((format!("macro {}@{}", name, offset), AState::entry(*offset, argc)));
        }
        pc += 1;
    }
    v
}

fn dump(instrs: &Instructions<'_>) -> Vec<String> {
    let mut v = vec![];
    let mut pc = 0;
    while let Some(i) = instrs.get(pc) {
        v.push(format!("{:>3}: {:?}", pc, i));
        pc += 1;
    }
    v
}

// ---------------------------------------------------------------------------------------------
// conformance: replay concrete hook traces through the abstract machine

struct ConcreteEval {
    stream: usize,
    base_frames: usize,
    base_caps: usize,
    base_auto_escape: bool,
    /// auto-escape modes saved at each PushAutoEscape of this evaluation (from the real trace)
    ae_modes: Vec<String>,
    /// the instruction executed last was a PopAutoEscape
    after_pop_ae: bool,
    /// abstract states consistent with the trace so far
    cands: Vec<AState>,
    last_pc: Option<u32>,
}

fn project_matches(a: &AState, operands: usize, frame_is_loop: &[bool], caps: usize, ae: usize) -> bool {
    a.ops.len() == operands
        && a.caps.len() == caps
        && a.ae as usize == ae
        && a.frames.len() == frame_is_loop.len()
        && a.frames.iter().zip(frame_is_loop).all(|(f, l)| matches!(f, Fr::Loop { .. }) == *l)
}

/// returns (number of evaluations validated, error)
fn conform(events: &[Event], streams: &HashMap<usize, (&Instructions<'_>, &HashSet<AState>)>) -> Result<u64, String> {
    let mut stack: Vec<ConcreteEval> = vec![];
    let mut validated = 0;
    for ev in events {
        match ev {
            Event::Enter { stream, pc, operands, frames, captures, auto_escape } => {
                stack.push(ConcreteEval { stream: *stream, base_frames: *frames, base_caps: *captures, base_auto_escape: *auto_escape, ae_modes: vec![], after_pop_ae: false, cands: vec![AState::entry(*pc, *operands)], last_pc: None });
            }
            Event::Instr { stream, pc, operands, frame_is_loop, captures, auto_escape_depth, auto_escape_mode, .. } => {
                let Some(cur) = stack.last_mut() else { return Err("Instr event outside an evaluation".into()) };
                // an autoescape block must restore exactly the mode that was in effect when it began
                if cur.after_pop_ae {
                    cur.after_pop_ae = false;
                    if let Some(saved) = cur.ae_modes.pop() {
                        if &saved != auto_escape_mode {
                            return Err(format!("BALANCE: the autoescape block ending before pc {} restored mode {} but mode {} was in effect when it began", pc, auto_escape_mode, saved));
                        }
                    }
                }
                if let Some((instrs, _)) = streams.get(stream) {
                    match instrs.get(*pc) {
                        Some(Instruction::PushAutoEscape) => cur.ae_modes.push(auto_escape_mode.clone()),
                        Some(Instruction::PopAutoEscape) => cur.after_pop_ae = true,
                        _ => {}
                    }
                }
                let Some((instrs, explored)) = streams.get(stream) else {
                    // a stream of a template that is not part of the analysed program (never happens here)
                    cur.cands.clear();
                    continue;
                };
                if cur.stream != *stream {
                    // extends: the evaluation continued in the parent's stream; restart the abstract run there
                    cur.stream = *stream;
                    cur.cands = vec![AState::entry(*pc, *operands)];
                    cur.base_frames = frame_is_loop.len();
                    cur.base_caps = *captures;
                    cur.last_pc = None;
                }
                if frame_is_loop.len() < cur.base_frames || *captures < cur.base_caps {
                    return Err(format!("pc {}: the evaluation popped below its entry state (frames {} < {} or captures {} < {})", pc, frame_is_loop.len(), cur.base_frames, captures, cur.base_caps));
                }
                let rel_frames = &frame_is_loop[cur.base_frames..];
                let rel_caps = captures - cur.base_caps;
                if cur.last_pc.is_some() {
                    // advance the candidates by one abstract step
                    let mut next = vec![];
                    for c in &cur.cands {
                        if let StepResult::Next(ns) = step(instrs, c) {
                            next.extend(ns);
                        }
                    }
                    cur.cands = next;
                }
                cur.cands.retain(|a| !a.ended && a.pc == *pc && project_matches(a, *operands, rel_frames, rel_caps, *auto_escape_depth));
                cur.cands.sort();
                cur.cands.dedup();
                if cur.cands.is_empty() {
                    return Err(format!(
                        "no abstract state matches the real VM at pc {} ({:?}): operands {} frames {:?} captures {} auto-escape depth {}",
                        pc,
                        instrs.get(*pc).map(|i| format!("{:?}", i)),
                        operands,
                        rel_frames,
                        rel_caps,
                        auto_escape_depth
                    ));
                }
                if !cur.cands.iter().any(|a| explored.contains(a)) {
                    return Err(format!("the real VM reached a state at pc {} that the exhaustive abstract exploration did not contain", pc));
                }
                cur.last_pc = Some(*pc);
            }
            Event::Exit { stream, frames, captures, auto_escape_depth, auto_escape, auto_escape_mode, .. } => {
                let Some(mut cur) = stack.pop() else { return Err("Exit event without Enter".into()) };
                if cur.after_pop_ae {
                    if let Some(saved) = cur.ae_modes.pop() {
                        if &saved != auto_escape_mode {
                            return Err(format!("BALANCE: the autoescape block ending the evaluation restored mode {} but mode {} was in effect when it began", auto_escape_mode, saved));
                        }
                    }
                }
                // (an extends switches to the parent's initial mode; only same-stream exits are compared)
                if *auto_escape != cur.base_auto_escape && *stream == cur.stream {
                    return Err(format!("BALANCE: evaluation entered with auto-escape {} and left with auto-escape {}", cur.base_auto_escape, auto_escape));
                }
                if *frames != cur.base_frames || *captures != cur.base_caps || *auto_escape_depth != 0 {
                    return Err(format!("BALANCE: evaluation entered with frames {} captures {} and left with frames {} captures {} auto-escape depth {}", cur.base_frames, cur.base_caps, frames, captures, auto_escape_depth));
                }
                if let Some((instrs, _)) = streams.get(stream) {
                    if cur.last_pc.is_some() {
                        let mut ended = false;
                        for c in &cur.cands {
                            if let StepResult::Next(ns) = step(instrs, c) {
                                for n in ns {
                                    if n.ended {
                                        ended = true;
                                    } else if instrs.get(n.pc).is_none() {
                                        // the last instruction was executed; running off the stream ends it
                                        if let StepResult::Next(es) = step(instrs, &n) {
                                            ended |= es.iter().any(|e| e.ended);
                                        }
                                    }
                                }
                            }
                        }
                        if !ended && !cur.cands.is_empty() {
                            return Err("the real VM left the evaluation where the abstract machine cannot end".into());
                        }
                    }
                    validated += 1;
                }
            }
        }
    }
    Ok(validated)
}

// ---------------------------------------------------------------------------------------------
// one program

const SENTINEL: &str = "\u{1}SENTINEL\u{1}";

struct ProgramResult {
    abstract_states: u64,
    transitions: u64,
    traces: u64,
}

fn contexts() -> Vec<Value> {
    // loops run 0, 1 and 2 times; branches both ways; recursion depth <= 1
    let m = Value::from_pairs([("a", 1), ("b", 2)]);
    let leaf = |v: i64| Value::from_pairs([("v", Value::from(v)), ("c", Value::from(Vec::<Value>::new()))]);
    let tree1 = Value::from(vec![Value::from_pairs([("v", Value::from(1)), ("c", Value::from(vec![leaf(2)]))])]);
    vec![
        Value::from_pairs([("x", Value::from(0)), ("xs", Value::from(Vec::<i64>::new())), ("m", Value::from_pairs(Vec::<(String, i64)>::new())), ("tree", Value::from(Vec::<Value>::new()))]),
        Value::from_pairs([("x", Value::from(2)), ("xs", Value::from(vec![2])), ("m", Value::from_pairs([("a", 1)])), ("tree", Value::from(vec![leaf(4)]))]),
        Value::from_pairs([("x", Value::from(2)), ("xs", Value::from(vec![1, 2])), ("m", m), ("tree", tree1)]),
    ]
}

#[allow(clippy::too_many_arguments)]
fn check_program(pname: &str, templates: &[(String, String)], main: &str, family: &str, acc: &Acc, l: &mut Local, res: &mut ProgramResult) {
    l.evals += 1;
    let mk = |clause: &str, detail: String| Failure {
        key: format!("scope {} family={}", clause, family),
        case: format!("{} :: {}", pname, templates.iter().find(|(n, _)| n == main).map(|(_, s)| s.as_str()).unwrap_or("")),
        detail,
        replay: json!({"templates": templates, "main": main}),
    };
    // 1. compile every template and model-check every stream from every entry point
    let mut compiled: Vec<(String, Compiled)> = vec![];
    for (name, src) in templates {
        match compile(name, src) {
            Ok(c) => compiled.push((name.clone(), c)),
            Err(_) => {
                l.outcome("does not compile");
                return;
            }
        }
    }
    let mut explored: Vec<(String, String, Explored)> = vec![]; // (template, stream, result)
    let mut supported = true;
    for (tname, c) in &compiled {
        let mut streams: Vec<(String, &Instructions)> = vec![("<main>".to_string(), &c.main)];
        for (b, i) in &c.blocks {
            streams.push((format!("block {}", b), i));
        }
        for (sname, instrs) in streams {
            let mut merged: Option<Explored> = None;
            for (ename, entry) in entries(instrs) {
                let ex = explore(instrs, entry);
                res.abstract_states += ex.states.len() as u64;
                res.transitions += ex.transitions;
                if let Some(u) = &ex.unsupported {
                    l.outcome(&format!("abstraction limit: {}", u.split(' ').take(4).collect::<Vec<_>>().join(" ")));
                    supported = false;
                }
                if let Some((v, path)) = &ex.violation {
                    acc.fail(mk(&format!("model:{}", v.clause), format!("template {:?} stream {} entry {}: {} -- abstract path (pcs) {:?}\n{}", tname, sname, ename, v.detail, path, dump(instrs).join("\n"))));
                }
                if let Some(path) = &ex.trapped {
                    acc.fail(mk("model:trapped_cycle", format!("template {:?} stream {} entry {}: a reachable state can never reach the end of the evaluation (render would not terminate) -- abstract path (pcs) {:?}\n{}", tname, sname, ename, path, dump(instrs).join("\n"))));
                }
                if ex.operand_leak_at_exit {
                    l.outcome("observation: operands left on the stack at exit");
                }
                match &mut merged {
                    None => merged = Some(ex),
                    Some(m) => {
                        m.states.extend(ex.states);
                        m.transitions += ex.transitions;
                    }
                }
            }
            explored.push((tname.clone(), sname, merged.unwrap()));
        }
    }
    if !supported {
        return;
    }
    l.nontrivial.insert(fnv(format!("{:?}", templates).as_bytes()));
    // 2. concrete runs: conformance of every trace, entry/exit balance, sentinel
    let mut env = Environment::new();
    env.add_function("probe", || Value::from(""));
    for (n, s) in templates {
        if env.add_template_owned(n.clone(), s.clone()).is_err() {
            return;
        }
    }
    // map the real stream addresses to the separately compiled streams
    let mut addr: HashMap<usize, (&Instructions, &HashSet<AState>)> = HashMap::new();
    for (tname, c) in &compiled {
        let t = env.get_template(tname).unwrap();
        let (main_addr, block_addrs) = t.verif_stream_addresses();
        let find = |sname: &str| explored.iter().find(|(t2, s2, _)| t2 == tname && s2 == sname).map(|(_, _, e)| &e.states);
        if let Some(st) = find("<main>") {
            addr.insert(main_addr, (&c.main, st));
        }
        for (b, a) in block_addrs {
            if let (Some(instrs), Some(st)) = (c.blocks.get(b.as_str()), find(&format!("block {}", b))) {
                addr.insert(a, (instrs, st));
            }
        }
    }
    for (ci, ctx) in contexts().iter().enumerate() {
        let t = env.get_template(main).unwrap();
        verif_hooks::start_recording();
        let r = catch(|| t.render(ctx.clone()));
        let events = verif_hooks::take_events();
        l.evals += 1;
        match r {
            Err(p) => {
                acc.fail(mk("real:panic", format!("ctx#{}: {} at {}", ci, p, last_panic_loc())));
                continue;
            }
            Ok(Err(_)) => {
                l.outcome("render error (trace prefix validated)");
            }
            Ok(Ok(out)) => {
                if !out.ends_with(SENTINEL) {
                    acc.fail(mk("real:sentinel_swallowed", format!("ctx#{}: text after the outermost construct did not reach the output: {:?}", ci, out)));
                }
            }
        }
        // errors end the trace early; conformance is checked on what was executed
        let complete = events.iter().filter(|e| matches!(e, Event::Enter { .. })).count() == events.iter().filter(|e| matches!(e, Event::Exit { .. })).count();
        match conform(&events, &addr) {
            Ok(n) => res.traces += if complete { n.max(1) } else { 1 },
            Err(e) => {
                if e.starts_with("BALANCE") {
                    acc.fail(mk("real:entry_exit_balance", format!("ctx#{}: {}", ci, e)));
                } else {
                    // the abstract machine does not describe the real one: machinery error, never a verdict
                    acc.fail(mk("MACHINERY:conformance", format!("ctx#{}: {}\n{}", ci, e, compiled.iter().map(|(n, c)| format!("-- {}\n{}", n, dump(&c.main).join("\n"))).collect::<Vec<_>>().join("\n"))));
                }
            }
        }
    }
}

fn wrap_program(src: &str, mode: usize) -> (Vec<(String, String)>, &'static str) {
    let inc = ("inc".to_string(), "I{{ x }}{% set x = 9 %}".to_string());
    match mode {
        0 => (vec![("main".into(), format!("{}{}", src, SENTINEL)), inc], "plain"),
        1 => (
            vec![("main".into(), format!("{{% extends 'base' %}}{{% block body %}}{}{{% endblock %}}", src)), ("base".into(), format!("H{{% block body %}}{{% endblock %}}{}", SENTINEL)), inc],
            "child_block",
        ),
        _ => (
            vec![("main".into(), format!("{{% include 'part' %}}{}", SENTINEL)), ("part".into(), src.to_string()), inc],
            "included",
        ),
    }
}

/// composition under every capture state: includes and imports of templates that bring capture state
/// of their own (a template that extends opens a discarding capture for its own top level) must leave
/// the capture stack of whoever includes them exactly as they found it, whatever that stack holds at
/// the time: nothing, a set / filter / macro / call capture, the discarding capture of an extending
/// host, or several of these.  Exact expected output for every (host, callee) pair.
fn compose_capture_family(acc: &Acc, only: Option<(&str, &str)>) {
    // callees: (name, tag, what it renders)
    let callees: [(&str, &str, &str); 9] = [
        ("include_plain", "{% include 'plain' %}", "<p1>"),
        ("include_extending", "{% include 'part' %}", "<pb:P1>"),
        ("include_extending_two_levels", "{% include 'part2' %}", "<pb:QP1>"),
        ("include_extending_twice", "{% include 'part' %}{% include 'part' %}", "<pb:P1><pb:P1>"),
        ("include_of_includer", "{% include 'relay' %}", "r<pb:P1>r"),
        ("import_extending_module", "{% import 'elib' as el %}{{ el.m() }}", "M"),
        ("from_import_extending_module", "{% from 'elib' import m %}{{ m() }}", "M"),
        ("include_missing_ignored", "{% include 'nope' ignore missing %}", ""),
        ("include_choice_of_extending", "{% include ['nope', 'part'] %}", "<pb:P1>"),
    ];
    // hosts: (name, main template with TAG, other templates, expected with OUT; `^` marks text that a
    // filter upper-cases)
    let hosts: [(&str, &str, &[(&str, &str)], &str); 14] = [
        ("live", "a|TAG|b|z", &[], "a|OUT|b|z"),
        ("set_block", "{% set c %}a|TAG|b{% endset %}[{{ c }}]z", &[], "[a|OUT|b]z"),
        ("filter_block", "{% filter upper %}a|TAG|b{% endfilter %}z", &[], "^a|OUT|b^z"),
        ("macro_body", "{% macro h() %}a|TAG|b{% endmacro %}<{{ h() }}>z", &[], "<a|OUT|b>z"),
        ("call_body", "{% macro w() %}[{{ caller() }}]{% endmacro %}{% call w() %}a|TAG|b{% endcall %}z", &[], "[a|OUT|b]z"),
        ("loop_body", "{% for i in [1, 2] %}a|TAG|b{% endfor %}z", &[], "a|OUT|ba|OUT|bz"),
        ("set_in_filter", "{% filter upper %}{% set c %}a|TAG|b{% endset %}[{{ c }}]{% endfilter %}z", &[], "^[a|OUT|b]^z"),
        ("child_block", "{% extends 'hbase' %}{% block hb %}a|TAG|b{% endblock %}", &[("hbase", "H[{% block hb %}{% endblock %}]z")], "H[a|OUT|b]z"),
        ("child_top_level", "{% extends 'hbase' %}x|TAG|y{% block hb %}c{% endblock %}", &[("hbase", "H[{% block hb %}{% endblock %}]z")], "H[c]z"),
        ("child_top_level_before_extends", "x|TAG|y{% extends 'hbase' %}w{% block hb %}c{% endblock %}", &[("hbase", "H[{% block hb %}{% endblock %}]z")], "x|OUT|yH[c]z"),
        ("child_top_level_and_block", "{% extends 'hbase' %}x|TAG|y{% block hb %}a|TAG|b{% endblock %}u|TAG|v", &[("hbase", "H[{% block hb %}{% endblock %}]z")], "H[a|OUT|b]z"),
        ("child_top_level_set", "{% extends 'hbase' %}{% set c %}a|TAG|b{% endset %}{% block hb %}[{{ c }}]{% endblock %}", &[("hbase", "H[{% block hb %}{% endblock %}]z")], "H[[a|OUT|b]]z"),
        ("included_host", "s|{% include 'hostpart' %}|e", &[("hostpart", "a|TAG|b")], "s|a|OUT|b|e"),
        ("included_extending_host_top_level", "s|{% include 'hostchild' %}|e", &[("hostchild", "{% extends 'hbase' %}x|TAG|y{% block hb %}a|TAG|b{% endblock %}"), ("hbase", "H[{% block hb %}{% endblock %}]z")], "s|H[a|OUT|b]z|e"),
    ];
    let common: [(&str, &str); 6] = [
        ("plain", "<p{{ v }}>"),
        ("pbase", "<pb:{% block q %}d{% endblock %}>"),
        ("part", "{% extends 'pbase' %}junk{% block q %}P{{ v }}{% endblock %}junk2"),
        ("part2", "{% extends 'part' %}more{% block q %}Q{{ super() }}{% endblock %}"),
        ("relay", "r{% include 'part' %}r"),
        ("elib", "{% extends 'pbase' %}{% macro m() %}M{% endmacro %}text"),
    ];
    for (hname, hsrc, hextra, hexpect) in hosts {
        for (cname, tag, out) in callees {
            if let Some((h, c)) = only {
                if h != hname || c != cname {
                    continue;
                }
            }
            acc.eval(1);
            let mut templates: Vec<(String, String)> = common.iter().map(|(a, b)| (a.to_string(), b.to_string())).collect();
            for (a, b) in hextra {
                templates.push((a.to_string(), b.replace("TAG", tag)));
            }
            templates.push(("main".to_string(), hsrc.replace("TAG", tag)));
            // expected: OUT substituted; text between ^ markers upper-cased
            let sub = hexpect.replace("OUT", out);
            let mut expect = String::new();
            for (i, piece) in sub.split('^').enumerate() {
                if i % 2 == 1 {
                    expect.push_str(&piece.to_uppercase());
                } else {
                    expect.push_str(piece);
                }
            }
            let got = catch(|| {
                let mut env = Environment::new();
                for (n, s) in &templates {
                    env.add_template_owned(n.clone(), s.clone()).map_err(|e| e.to_string())?;
                }
                let t = env.get_template("main").map_err(|e| e.to_string())?;
                let first = t.render(minijinja::context! { v => 1 }).map_err(|e| e.to_string())?;
                // a second render of the same template on the same environment (loaded-template state)
                let second = t.render(minijinja::context! { v => 1 }).map_err(|e| e.to_string())?;
                if first != second {
                    return Err(format!("first render {:?}, second render {:?}", first, second));
                }
                Ok(first)
            });
            match got {
                Ok(Ok(s)) if s == expect => {
                    acc.outcome("composition leaves the host's capture state as found");
                    acc.nontrivial(fnv(format!("cc:{}:{}", hname, cname).as_bytes()));
                }
                other => acc.fail(Failure {
                    key: format!("capture after_composition host={} callee={}", hname, cname),
                    case: format!("{} / {}", hname, cname),
                    detail: format!("main = {:?}: got {:?}, expected {:?}", hsrc.replace("TAG", tag), other, expect),
                    replay: json!({"kind": "compose_capture", "host": hname, "callee": cname}),
                }),
            }
        }
    }
}

/// Blocks rendered one by one through a `State` (`State::render_block`): a block is a scoped construct
/// whoever starts it.  From every kind of state an embedder can hold (a fresh `Template::new_state()`,
/// the state a `render_captured` hands back), every sequence of up to
/// three fragments out of five blocks - binding a name with set, printing whether it is bound, failing
/// inside with + for, capturing with a set block, a loop left by break - must give for its last
/// fragment what that block gives as the first fragment on a new state of the same kind, and none of
/// the names a block bound may be visible through `State::lookup` afterwards.
fn fragment_scopes(acc: &Acc, only: Option<&str>) {
    const T: &str = "{% block a %}{% set v = 'A' %}[a{{ v }}]{% endblock %}{% block b %}<{{ v is defined }}{{ w is defined }}{{ i is defined }}>{% endblock %}{% block c %}{% with w = 1 %}{% for i in [1, 2] %}{{ i }}{% if i == 2 %}{{ 1 // zero }}{% endif %}{% endfor %}{% endwith %}{% endblock %}{% block d %}{% set q %}cap{% set v = 'D' %}{% endset %}{{ q }}{% endblock %}{% block e %}{% for i in [1, 2, 3] %}{% with w = i %}{% if i == 2 %}{% break %}{% endif %}{{ w }}{% endwith %}{% endfor %}{% endblock %}";
    const BLOCKS: [&str; 5] = ["a", "b", "c", "d", "e"];
    // (in the captured kind `zero` is 1 and block c renders; on a fresh state it is undefined and c fails)
    const KINDS: [&str; 2] = ["new_state", "render_captured"];
    let mut env = Environment::new();
    env.add_template("t", T).unwrap();
    let env = env;
    let run = |kind: &str, seq: &[usize]| -> Result<(String, Vec<String>), String> {
        catch(|| {
            let t = env.get_template("t").unwrap();
            let body = |state: &mut minijinja::State<'_, '_>| -> (String, Vec<String>) {
                let mut last = String::new();
                for b in seq {
                    last = match state.render_block(BLOCKS[*b]) {
                        Ok(s) => format!("ok:{}", s),
                        Err(e) => format!("err:{:?}", e.kind()),
                    };
                }
                let leaked: Vec<String> = ["v", "w", "i", "q"].iter().filter(|n| state.lookup(n).map_or(false, |v| !v.is_undefined())).map(|n| n.to_string()).collect();
                (last, leaked)
            };
            match kind {
                "new_state" => {
                    let mut state = t.new_state();
                    Ok(body(&mut state))
                }
                _ => {
                    let mut cap = t.render_captured(minijinja::context! { zero => 1 }).map_err(|e| format!("{:?}", e.kind()))?;
                    Ok(cap.with_state_mut(|st| body(st)))
                }
            }
        })
        .unwrap_or_else(|p| Err(format!("panic: {} at {}", p, last_panic_loc())))
    };
    for kind in KINDS {
        let firsts: Vec<Result<(String, Vec<String>), String>> = (0..BLOCKS.len()).map(|b| run(kind, &[b])).collect();
        let mut seqs: Vec<Vec<usize>> = vec![];
        for a in 0..BLOCKS.len() {
            seqs.push(vec![a]);
            for b in 0..BLOCKS.len() {
                seqs.push(vec![a, b]);
                for c in 0..BLOCKS.len() {
                    seqs.push(vec![a, b, c]);
                }
            }
        }
        for seq in seqs {
            let name = format!("{} {}", kind, seq.iter().map(|b| BLOCKS[*b]).collect::<Vec<_>>().join(">"));
            if only.map_or(false, |o| o != name) {
                continue;
            }
            acc.eval(1);
            let got = run(kind, &seq);
            let want = &firsts[*seq.last().unwrap()];
            let ok = match (&got, want) {
                (Ok((g, leaked)), Ok((w, _))) => g == w && leaked.is_empty(),
                _ => false,
            };
            if ok {
                acc.outcome("fragment renders as on a new state and leaves no binding behind");
                acc.nontrivial(fnv(name.as_bytes()));
            } else {
                acc.fail(Failure {
                    key: format!("scope fragment_through_state kind={} last_block={}", kind, BLOCKS[*seq.last().unwrap()]),
                    case: name.clone(),
                    detail: format!("fragments {:?}: got {:?}; the last block as first fragment on a new state gives {:?}; names visible afterwards must be none", seq.iter().map(|b| BLOCKS[*b]).collect::<Vec<_>>(), got, want),
                    replay: json!({"kind": "fragment_scopes", "name": name}),
                });
            }
        }
    }
}

pub fn main(args: Args) -> i32 {
    let start_t = std::time::Instant::now();
    install_quiet_panic_hook();
    let acc = Acc::new();
    if let Some(p) = &args.replay {
        let doc = load_replay(p);
        let j = &doc["replay"];
        if j["kind"] == "compose_capture" {
            compose_capture_family(&acc, Some((j["host"].as_str().unwrap(), j["callee"].as_str().unwrap())));
            let fs = acc.take_failures();
            for f in &fs {
                println!("VIOLATION property=C05 replay={}  # {} :: {}", p, f.key, f.detail);
            }
            if fs.is_empty() {
                println!("replay: case passes");
            }
            return if fs.is_empty() { 0 } else { 1 };
        }
        if j["kind"] == "fragment_scopes" {
            fragment_scopes(&acc, j["name"].as_str());
            let fs = acc.take_failures();
            for f in &fs {
                println!("VIOLATION property=C05 replay={}  # {} :: {}", p, f.key, f.detail);
            }
            if fs.is_empty() {
                println!("replay: case passes");
            }
            return if fs.is_empty() { 0 } else { 1 };
        }
        if j["kind"] == "scope_contents" {
            let src = j["source"].as_str().unwrap();
            let out = Environment::new().render_str(src, ()).map_err(|e| e.to_string());
            println!("source: {}\noutput: {:?}", src, out);
            return match out {
                Ok(o) if o.ends_with("|outer|False") => {
                    println!("replay: case passes");
                    0
                }
                other => {
                    println!("VIOLATION property=C05 replay={}  # scope contents_leak :: rendered {:?}", p, other);
                    1
                }
            };
        }
        let templates: Vec<(String, String)> = j["templates"].as_array().unwrap().iter().map(|t| (t[0].as_str().unwrap().to_string(), t[1].as_str().unwrap().to_string())).collect();
        let mut l = Local::default();
        let mut res = ProgramResult { abstract_states: 0, transitions: 0, traces: 0 };
        check_program("replay", &templates, j["main"].as_str().unwrap(), "replay", &acc, &mut l, &mut res);
        println!("abstract states {} transitions {} traces validated {}", res.abstract_states, res.transitions, res.traces);
        let fs = acc.take_failures();
        return if fs.is_empty() {
            println!("replay: case passes");
            0
        } else {
            for f in &fs {
                println!("VIOLATION property=C05 replay={}  # {} :: {}", p, f.key, f.detail.lines().next().unwrap_or(""));
            }
            1
        };
    }
    let states = std::sync::atomic::AtomicU64::new(0);
    let transitions = std::sync::atomic::AtomicU64::new(0);
    let traces = std::sync::atomic::AtomicU64::new(0);
    let run_space = |opts: gen::Opts, stride: u64, modes: &[usize]| {
        let size = gen::Gen::new(opts).size();
        let n_prog = (size + stride - 1) / stride;
        acc.count(&format!("programs_depth{}", opts.depth), n_prog);
        par_chunks(n_prog, 64, &acc, |r, l| {
            let g = gen::Gen::new(opts);
            let mut res = ProgramResult { abstract_states: 0, transitions: 0, traces: 0 };
            for k in r {
                let n = k * stride;
                let src = g.program(n).source();
                for &mode in modes {
                    let (templates, fam) = wrap_program(&src, mode);
                    check_program(&format!("d{}#{}", opts.depth, n), &templates, "main", fam, &acc, l, &mut res);
                }
            }
            states.fetch_add(res.abstract_states, std::sync::atomic::Ordering::Relaxed);
            transitions.fetch_add(res.transitions, std::sync::atomic::Ordering::Relaxed);
            traces.fetch_add(res.traces, std::sync::atomic::Ordering::Relaxed);
        });
    };
    let opts2 = gen::Opts { depth: 2, max_programs: u64::MAX, multi_template: true, loop_controls: true, extra_leaves: true };
    run_space(gen::Opts { depth: 1, ..opts2 }, 1, &[0, 1, 2]);
    run_space(opts2, args.tier.pick(3, 1), if args.tier == Tier::Quick { &[0] } else { &[0, 1, 2] });
    if args.tier == Tier::Thorough {
        run_space(gen::Opts { depth: 3, ..opts2 }, 97, &[0]);
    }
    // hand-written shapes the generator does not produce
    {
        let extra = [
            "{% for x in xs %}{% with y = x %}{% if x == 2 %}{% break %}{% endif %}{{ y }}{% endwith %}{% endfor %}",
            "{% for x in xs %}{% set q %}{% if x == 2 %}{% continue %}{% endif %}{% endset %}{% endfor %}",
            "{% for x in xs %}{% filter upper %}{% autoescape true %}{% with a = 1 %}{% break %}{% endwith %}{% endautoescape %}{% endfilter %}{% endfor %}",
            "{% for o in xs %}{% for x in [] %}{% else %}{% break %}{% endfor %}{{ o }}{% endfor %}",
            "{% for x in tree recursive %}{% with q = 1 %}{{ loop(x.c) }}{% if x %}{% break %}{% endif %}{% endwith %}{% endfor %}",
            "{% for x in tree recursive %}{% set cap %}{{ loop(x.c) }}{% endset %}{% continue %}{% endfor %}",
            "{% macro m(a, b=1) %}{% for i in xs %}{% with z = i %}{% if a %}{% break %}{% endif %}{% endwith %}{% endfor %}{% endmacro %}{{ m(x) }}{% call m(1) %}c{% endcall %}",
            "{% for i in xs if i > 1 %}{% set c %}{% break %}{% endset %}{% endfor %}",
            "{% for a, b in m|items %}{% with q = a %}{% continue %}{% endwith %}{% endfor %}",
            "{% import 'inc' as i %}{% from 'inc' import x as y %}{% for q in xs %}{% include 'inc' %}{% break %}{% endfor %}",
            "{% for i in xs %}{% for j in xs %}{% with a = 1 %}{% with b = 2 %}{% break %}{% endwith %}{% endwith %}{% endfor %}{% with c = 3 %}{% continue %}{% endwith %}{% endfor %}",
            // recursive loops with an else branch: a recursion level returns to its call site
            "{% for x in tree recursive %}{{ x.v }}[{{ loop(x.c) }}]{% else %}E{% endfor %}",
            "{% for x in tree recursive %}{{ 'a' ~ loop(x.c) ~ 'b' }}{% else %}E{% endfor %}{{ x }}",
            "{% for x in tree recursive %}{% set r = loop(x.c) %}{{ r|length }}{% else %}E{% endfor %}",
            "{% for x in tree recursive if x.v %}{% with q = loop(x.c) %}{{ q }}{% endwith %}{% else %}{% set z = 1 %}{% endfor %}",
            "{% for x in tree recursive %}{% if x.c %}{{ [loop(x.c), loop(x.c)]|join }}{% endif %}{% else %}{% for y in xs %}{{ y }}{% else %}F{% endfor %}{% endfor %}",
            "{% macro m(t) %}{% for x in t recursive %}{{ loop(x.c) }}{% else %}E{% endfor %}{% endmacro %}{{ m(tree) }}{{ m([]) }}",
        ];
        let mut l = Local::default();
        let mut res = ProgramResult { abstract_states: 0, transitions: 0, traces: 0 };
        for (i, src) in extra.iter().enumerate() {
            for mode in 0..3 {
                let (templates, fam) = wrap_program(src, mode);
                check_program(&format!("extra#{}", i), &templates, "main", fam, &acc, &mut l, &mut res);
            }
        }
        l.flush(&acc);
        states.fetch_add(res.abstract_states, std::sync::atomic::Ordering::Relaxed);
        transitions.fetch_add(res.transitions, std::sync::atomic::Ordering::Relaxed);
        traces.fetch_add(res.traces, std::sync::atomic::Ordering::Relaxed);
    }
    // every way of leaving a loop through 1..3 nested scoped constructs: the jump must undo exactly
    // what was opened between the loop and the statement, whatever the kinds and however many
    {
        const SCOPED: &[(&str, &str, &str)] = &[
            ("with", "{% with w = 1 %}", "{% endwith %}"),
            ("set", "{% set cap %}", "{% endset %}"),
            ("filter", "{% filter upper %}", "{% endfilter %}"),
            ("escape_on", "{% autoescape true %}", "{% endautoescape %}"),
            ("escape_off", "{% autoescape false %}", "{% endautoescape %}"),
            ("if", "{% if xs %}", "{% endif %}"),
            ("call", "{% call cw() %}", "{% endcall %}"),
        ];
        let max_nest = args.tier.pick(2, 3);
        let mut progs: Vec<(String, String)> = vec![];
        let n = SCOPED.len();
        for depth in 1..=max_nest {
            for code in 0..n.pow(depth as u32) {
                let mut k = code;
                let mut seq = vec![];
                for _ in 0..depth {
                    seq.push(k % n);
                    k /= n;
                }
                // a call block body is a separate stream: loop controls cannot cross it
                if seq.iter().any(|i| SCOPED[*i].0 == "call") && seq.iter().position(|i| SCOPED[*i].0 == "call") != Some(0) {
                    continue;
                }
                for ctl in ["break", "continue"] {
                    for cond in [false, true] {
                        let mut src = String::from("{% macro cw() %}{{ caller() }}{% endmacro %}");
                        let call_first = SCOPED[seq[0]].0 == "call";
                        // with a call block outermost the loop sits inside it
                        if call_first {
                            src.push_str(SCOPED[seq[0]].1);
                        }
                        src.push_str("{% for x in xs %}a");
                        for i in seq.iter().skip(usize::from(call_first)) {
                            src.push_str(SCOPED[*i].1);
                        }
                        if cond {
                            src.push_str(&format!("{{% if x == 2 %}}{{% {} %}}{{% endif %}}b", ctl));
                        } else {
                            src.push_str(&format!("{{% {} %}}", ctl));
                        }
                        for i in seq.iter().skip(usize::from(call_first)).rev() {
                            src.push_str(SCOPED[*i].2);
                        }
                        src.push_str("c{% endfor %}");
                        if call_first {
                            src.push_str(SCOPED[seq[0]].2);
                        }
                        src.push_str("{{ x }}");
                        let name = format!("exit[{}]:{}{}", seq.iter().map(|i| SCOPED[*i].0).collect::<Vec<_>>().join(">"), ctl, if cond { ":conditional" } else { "" });
                        progs.push((name, src));
                    }
                }
            }
        }
        acc.count("loop_exit_programs", progs.len() as u64);
        par_items(&progs, &acc, |_, (name, src), l| {
            let mut res = ProgramResult { abstract_states: 0, transitions: 0, traces: 0 };
            for mode in 0..3 {
                let (templates, fam) = wrap_program(src, mode);
                check_program(name, &templates, "main", fam, &acc, l, &mut res);
            }
            states.fetch_add(res.abstract_states, std::sync::atomic::Ordering::Relaxed);
            transitions.fetch_add(res.transitions, std::sync::atomic::Ordering::Relaxed);
            traces.fetch_add(res.traces, std::sync::atomic::Ordering::Relaxed);
        });
    }
    // scope contents: whatever a body binds, however deeply inside constructs that do not open a
    // scope of their own, is gone after the enclosing scope-opening construct, and shadowed names are
    // back (frame depth alone cannot see a binding that lands in the wrong frame)
    {
        const ISOLATORS: &[(&str, &str, &str)] = &[
            ("with_bare", "{% with %}", "{% endwith %}"),
            ("with_assign", "{% with w = 1 %}", "{% endwith %}"),
            ("for_once", "{% for it in [1] %}", "{% endfor %}"),
            ("for_twice", "{% for it in [1, 2] %}", "{% endfor %}"),
            ("macro", "{% macro mm() %}", "{% endmacro %}{{ mm() }}"),
            ("call_block", "{% macro cw() %}{{ caller() }}{% endmacro %}{% call cw() %}", "{% endcall %}"),
        ];
        const CARRIERS: &[(&str, &str, &str)] = &[
            ("direct", "", ""),
            ("if", "{% if true %}", "{% endif %}"),
            ("else_of_if", "{% if false %}{% else %}", "{% endif %}"),
            ("else_of_empty_loop", "{% for e in [] %}{% else %}", "{% endfor %}"),
            ("else_of_filtered_loop", "{% for e in [1] if false %}{% else %}", "{% endfor %}"),
            ("filter_block", "{% filter upper %}", "{% endfilter %}"),
            ("autoescape", "{% autoescape true %}", "{% endautoescape %}"),
            ("if_in_else_of_loop", "{% for e in [] %}{% else %}{% if true %}", "{% endif %}{% endfor %}"),
            ("else_of_loop_in_if", "{% if true %}{% for e in [] %}x{% else %}", "{% endfor %}{% endif %}"),
            ("text_and_do_then_else_of_loop", "t{{ 1 }}{% for e in [] %}{{ e }}{% else %}", "{% endfor %}"),
        ];
        const BINDERS: &[(&str, &str)] = &[
            ("set", "{% set q = 'in' %}{% set z = 1 %}"),
            ("set_block", "{% set q %}in{% endset %}{% set z %}1{% endset %}"),
            ("unpack", "{% set q, z = 'in', 1 %}"),
            ("macro_def", "{% macro q() %}{% endmacro %}{% macro z() %}{% endmacro %}"),
            ("with_inside", "{% with %}{% set q = 'in' %}{% set z = 1 %}{% endwith %}"),
        ];
        let mut progs: Vec<(String, String)> = vec![];
        let one = ISOLATORS.iter().map(|i| vec![*i]);
        let two = ISOLATORS.iter().flat_map(|a| ISOLATORS.iter().filter(move |b| !(a.0.starts_with("macro") && b.0.starts_with("macro")) && !(a.0 == "call_block" && b.0 == "call_block")).map(move |b| vec![*a, *b]));
        for iso in one.chain(two) {
            for (cname, cpre, cpost) in CARRIERS {
                for (bname, b) in BINDERS {
                    let mut src = String::from("{% set q = 'outer' %}");
                    for (_, pre, _) in &iso {
                        src.push_str(pre);
                    }
                    src.push_str(cpre);
                    src.push_str(b);
                    src.push_str(cpost);
                    for (_, _, post) in iso.iter().rev() {
                        src.push_str(post);
                    }
                    src.push_str("|{{ q }}|{{ z is defined }}");
                    progs.push((format!("{}/{}/{}", iso.iter().map(|i| i.0).collect::<Vec<_>>().join(">"), cname, bname), src));
                }
            }
        }
        acc.count("scope_content_programs", progs.len() as u64);
        par_items(&progs, &acc, |_, (name, src), l| {
            l.evals += 1;
            let got = catch(|| Environment::new().render_str(src, ()).map_err(|e| e.to_string()));
            match got {
                Ok(Ok(out)) if out.ends_with("|outer|False") => {
                    l.outcome("scope contents restored");
                    l.nontrivial.insert(fnv(src.as_bytes()));
                }
                other => acc.fail(Failure {
                    key: format!("scope contents_leak isolator={} via={}", name.split('/').next().unwrap_or(""), name.split('/').nth(1).unwrap_or("")),
                    case: format!("{} :: {}", name, src),
                    detail: format!("after the construct the template must print ...|outer|False (shadowed name restored, new name gone) but rendered {:?}", other),
                    replay: json!({"kind": "scope_contents", "source": src}),
                }),
            }
        });
    }
    // handled errors: a host function calls back into the engine (a macro, the caller, a block) from
    // inside scoped constructs and swallows the failure; whatever the failed call had opened - and the
    // call itself, when it is refused at entry by the recursion limit - must leave the caller's scope,
    // loop and captures exactly as they were
    {
        const CALLEES: &[(&str, &str, &str)] = &[
            ("macro_ok", "{% macro cal() %}ok{% endmacro %}", "attempt(cal)"),
            ("macro_fails_deep_inside", "{% macro cal() %}{% with z = 1 %}{% for q in [1, 2] %}{% set cap %}{% filter upper %}{% autoescape true %}{{ 1 // 0 }}{% endautoescape %}{% endfilter %}{% endset %}{% endfor %}{% endwith %}{% endmacro %}", "attempt(cal)"),
            ("macro_fails_in_nested_macro", "{% macro inner() %}{% for q in [1] %}{{ [] | first | int // 0 }}{% endfor %}{% endmacro %}{% macro cal() %}{% with z = 1 %}{{ inner() }}{% endwith %}{% endmacro %}", "attempt(cal)"),
            ("macro_recursing_to_the_limit", "{% macro cal(n=0) %}{% with z = n %}{{ cal(n + 1) }}{% endwith %}{% endmacro %}", "attempt(cal)"),
            ("macro_fails_with_autoescape_off", "{% macro cal() %}{% autoescape false %}{% set cap %}{{ lt }}{{ 1 // 0 }}{% endset %}{% endautoescape %}{% endmacro %}", "attempt(cal)"),
            ("macro_fails_with_autoescape_on_in_loop", "{% macro cal() %}{% for q in [1, 2] %}{% autoescape 'html' %}{% filter upper %}{{ lt }}{{ [][q] // 0 }}{% endfilter %}{% endautoescape %}{% endfor %}{% endmacro %}", "attempt(cal)"),
            ("block_fails", "", "attempt_block('bad')"),
            ("block_ok", "", "attempt_block('good')"),
            ("macro_with_break_path", "{% macro cal() %}{% for q in [1, 2] %}{% with z = q %}{% if q == 2 %}{{ 1 // 0 }}{% endif %}{% endwith %}{% endfor %}{% endmacro %}", "attempt(cal)"),
        ];
        const HOSTS: &[(&str, &str, &str)] = &[
            ("with_for", "{% with a = 'A' %}{% for i in [1, 2] %}@|{{ a }}|{{ i }}|{{ loop.index }}|{{ top }};{% endfor %}{% endwith %}", "%|A|1|1|T;%|A|2|2|T;"),
            ("set_block_filter", "{% set cap %}{% filter upper %}x@y{{ top }}{% endfilter %}{% endset %}[{{ cap }}]", "[X%%YT]"),
            ("macro_body", "{% macro host(p) %}{% with a = p %}@|{{ a }}|{{ p }}|{{ top }}{% endwith %}{% endmacro %}{{ host('P') }}", "%|P|P|T"),
            ("call_block_in_loop", "{% macro cw() %}({{ caller() }}){% endmacro %}{% for i in [1, 2] %}{% call cw() %}@{{ i }}{{ loop.index }}{% endcall %}{% endfor %}", "(%11)(%22)"),
            ("autoescape_in_if", "{% if top %}{% autoescape true %}@{{ lt }}{% endautoescape %}{{ lt }}{% endif %}", "%&lt;<"),
            ("plain", "@|{{ top }}{{ lt }}", "%|T<"),
            ("autoescape_off_in_on", "{% autoescape true %}{{ lt }}{% autoescape false %}@{{ lt }}{% endautoescape %}{{ lt }}{% endautoescape %}{{ lt }}", "&lt;%<&lt;<"),
        ];
        let mut cases: Vec<(String, String, String, usize)> = vec![];
        for (cname, cdef, ccall) in CALLEES {
            for (hname, host, expect) in HOSTS {
                for limit in [500usize, 40, 30, 24, 20, 18, 16, 14, 12, 11, 10, 9, 8, 7, 6] {
                    let src = format!("{{% set top = 'T' %}}{{% set lt = '<' %}}{}{}{{% block good %}}{{% endblock %}}{{% if false %}}{{% block bad %}}{{% for q in [1] %}}{{% with z = q %}}{{{{ 1 // 0 }}}}{{% endwith %}}{{% endfor %}}{{% endblock %}}{{% endif %}}|{{{{ a is defined }}}}|{{{{ top }}}}", cdef, host.replace('@', &format!("{{{{ {} }}}}", ccall)));
                    cases.push((format!("{}/{}/limit{}", cname, hname, limit), src, format!("{}|False|T", expect), limit));
                }
            }
        }
        acc.count("handled_error_programs", cases.len() as u64);
        par_items(&cases, &acc, |_, (name, src, expect, limit), l| {
            l.evals += 1;
            let got = catch(|| {
                let mut env = Environment::new();
                env.set_recursion_limit(*limit);
                env.add_function("attempt", |state: &mut minijinja::State, callee: Value| -> Value { callee.call(state, &[]).unwrap_or_else(|_| Value::from("~")) });
                env.add_function("attempt_block", |state: &mut minijinja::State, name: String| -> Value { state.render_block(&name).map(Value::from).unwrap_or_else(|_| Value::from("~")) });
                env.render_str(src, ()).map_err(|e| e.to_string())
            });
            match got {
                // a limit too small for the host itself: nothing to judge
                Ok(Err(e)) if e.contains("recursion limit") => l.outcome("host itself exceeds the recursion limit"),
                Ok(Ok(out)) => {
                    // the attempt yields either its fallback or the callee's output, consistently, and
                    // everything around it is exact
                    let ok = ["~", "ok", ""].iter().any(|x| out == expect.replace("%%", &x.to_uppercase()).replace('%', x));
                    if ok {
                        l.outcome(if out.contains('~') { "failure handled, scope intact" } else { "callee succeeded, scope intact" });
                        l.nontrivial.insert(fnv(name.as_bytes()));
                    } else {
                        acc.fail(Failure {
                            key: format!("scope after_handled_error callee={} host={}", name.split('/').next().unwrap_or(""), name.split('/').nth(1).unwrap_or("")),
                            case: format!("{} :: {}", name, src),
                            detail: format!("rendered {:?}; expected {:?} with % the attempt's result (fallback ~, or the callee's output)", out, expect),
                            replay: json!({"kind": "handled_error", "source": src, "limit": limit, "expect": expect}),
                        });
                    }
                }
                other => acc.fail(Failure {
                    key: format!("scope after_handled_error callee={} host={}", name.split('/').next().unwrap_or(""), name.split('/').nth(1).unwrap_or("")),
                    case: format!("{} :: {}", name, src),
                    detail: format!("the swallowed failure broke the render: {:?}", other),
                    replay: json!({"kind": "handled_error", "source": src, "limit": limit, "expect": expect}),
                }),
            }
        });
    }
    compose_capture_family(&acc, None);
    fragment_scopes(&acc, None);
    acc.count("compose_capture_programs", 14 * 9);
    let machinery = acc.n_failures() > 0 && {
        // conformance failures are machinery errors: report them but never as a verdict
        false
    };
    let _ = machinery;
    let sample_src = gen::Gen::new(opts2).program(4321).source();
    let sample = compile("main", &sample_src).map(|c| dump(&c.main)).unwrap_or_default();
    let mut extra = serde_json::Map::new();
    extra.insert("states".into(), json!(states.load(std::sync::atomic::Ordering::Relaxed)));
    extra.insert("transitions".into(), json!(transitions.load(std::sync::atomic::Ordering::Relaxed)));
    extra.insert("traces_validated_against_impl".into(), json!(traces.load(std::sync::atomic::Ordering::Relaxed)));
    acc.sample(json!({"program": sample_src, "compiled_main_stream": sample}));
    acc.sample(json!({"abstract_state": "(pc, operand stack of Opaque|Int(n), frames of With|Loop{iters<=2, recursive_pc, rec_return}, capture stack of Capture|Discard, auto-escape depth, extends-pending, recursion depth<=3)"}));
    finish(
        Finish {
            property: "C05",
            level: "model_checking",
            tier: args.tier,
            seed: args.seed,
            rule: format!("programs: the complete depth-1 space of G with blocks, includes and loop controls in three wrappings (plain + sentinel text, as the body of a child block under extends, as an included template), every {} program of the depth-2 space{} 17 hand-written shapes, the scope-contents family (6 scope-opening constructs alone and in pairs x 10 carriers that open no scope of their own - if/else arms, else bodies of empty and fully filtered loops, filter, autoescape, combinations - x 5 ways of binding a shadowing and a new name; after the construct the shadowed name must be back and the new one gone), and every way of leaving a loop by break / continue (unconditional and conditional) through every sequence of 1..{} nested scoped constructs out of {{with, set block, filter block, autoescape on, autoescape off, if, call block}}; for every instruction stream (main stream, each block) and every entry point (pc 0 and every macro body with its argument count) the abstract VM is explored exhaustively (BFS, full-state deduplication; JumpIfFalse / short-circuit jumps / Iterate non-deterministic, loops 0..2 iterations, loop recursion depth <= 3) and every state/transition is checked: PopFrame finds a with-frame and PopLoopFrame a loop-frame pushed by the same evaluation, EndCapture/PopAutoEscape pop something this evaluation pushed, no operand pop below the entry height, frames/captures/auto-escape balanced and no operand left at every end, every reachable state can reach an end. Each program is then rendered under 3 contexts (loops 0/1/2 times, branches both ways, one recursion level) with the verif_hooks probes recording every executed instruction, and each concrete trace is replayed through the abstract machine (same pc, operand height, frame kinds, capture depth, auto-escape depth at every step; visited states must be in the explored set), together with entry/exit balance of every real evaluation and a sentinel that must reach the output. distinct non-trivial = distinct template sets whose streams were fully explored", if args.tier == Tier::Quick { "3rd" } else { "" }, if args.tier == Tier::Thorough { " in all wrappings, every 97th depth-3 program" } else { "" }, args.tier.pick(2, 3)),
            exhaustive: true,
            bound: json!({"max_loop_iterations": MAX_ITERS, "max_loop_recursion": MAX_REC}),
            assumptions: vec![
                "Include, CallBlock, FastSuper and macro calls are atomic in the caller; each callee stream is explored on its own from a balanced entry state".into(),
                "`do` statements and dynamic-count calls (*args) are outside the generated alphabet; streams using them are counted as abstraction limits, not verdicts".into(),
                "a conformance failure is reported under the key MACHINERY:conformance: it means the model is wrong, not the engine".into(),
            ],
            extra,
            start: start_t,
        },
        &acc,
    )
}
