//! Value alphabets shared by several checks.
use minijinja::value::{Enumerator, Object, ObjectRepr, Tuple, Value};
use std::collections::BTreeMap;
use std::sync::Arc;

#[derive(Clone)]
pub struct Named {
    /// unique readable name, stable across runs (used in case names / replay files)
    pub name: String,
    /// coarse class used in failure keys
    pub class: &'static str,
    pub value: Value,
    pub is_nan: bool,
}

#[derive(Debug)]
pub struct Plain(pub i32);

impl Object for Plain {
    fn repr(self: &Arc<Self>) -> ObjectRepr {
        ObjectRepr::Plain
    }
    fn render(self: &Arc<Self>, f: &mut std::fmt::Formatter<'_>) -> std::fmt::Result {
        write!(f, "<plain {}>", self.0)
    }
    fn enumerate(self: &Arc<Self>) -> Enumerator {
        Enumerator::NonEnumerable
    }
}

fn n(name: &str, class: &'static str, value: Value) -> Named {
    Named { name: name.to_string(), class, value, is_nan: false }
}

pub fn int_reprs(name: &str, dec: &str) -> Vec<Named> {
    let mut out = vec![];
    let mag = |dec: &str| -> &'static str {
        let v: i128 = dec.parse::<i128>().unwrap_or(i128::MAX);
        let a = v.unsigned_abs();
        if dec.parse::<i128>().is_err() {
            "int_ge2^127"
        } else if a < (1u128 << 53) {
            "int_small"
        } else if a < (1u128 << 63) {
            "int_2^53..2^63"
        } else if a <= (1u128 << 64) {
            "int_2^63..2^64"
        } else {
            "int_gt2^64"
        }
    };
    let class = mag(dec);
    if let Ok(v) = dec.parse::<i64>() {
        out.push(n(&format!("i64:{}", name), class, Value::from(v)));
    }
    if let Ok(v) = dec.parse::<u64>() {
        out.push(n(&format!("u64:{}", name), class, Value::from(v)));
    }
    if let Ok(v) = dec.parse::<i128>() {
        out.push(n(&format!("i128:{}", name), class, Value::from(v)));
    }
    if let Ok(v) = dec.parse::<u128>() {
        out.push(n(&format!("u128:{}", name), class, Value::from(v)));
    }
    out
}

pub fn map_of(pairs: &[(Value, Value)]) -> Value {
    Value::from_pairs(pairs.iter().cloned())
}

/// The edge alphabet: every value kind, every integer representation at the boundaries,
/// floats incl. +-0/inf/NaN/2^53 neighbourhood, strings plain/small/safe, bytes, lists,
/// tuples, sized/unsized lazy iterables, maps (two construction routes), plain objects,
/// undefined, one level of nesting.
pub fn v_edge(full: bool) -> Vec<Named> {
    let mut v: Vec<Named> = vec![];
    v.push(n("none", "none", Value::from(())));
    v.push(n("undefined", "undefined", Value::UNDEFINED));
    v.push(n("true", "bool", Value::from(true)));
    v.push(n("false", "bool", Value::from(false)));
    let ints: Vec<(&str, &str)> = vec![
        ("0", "0"),
        ("1", "1"),
        ("-1", "-1"),
        ("2", "2"),
        ("2^31", "2147483648"),
        ("2^32", "4294967296"),
        ("2^53-1", "9007199254740991"),
        ("2^53", "9007199254740992"),
        ("2^53+1", "9007199254740993"),
        ("2^63-1", "9223372036854775807"),
        ("2^63", "9223372036854775808"),
        ("-2^63", "-9223372036854775808"),
        ("-2^63-1", "-9223372036854775809"),
        ("2^64-1", "18446744073709551615"),
        ("2^64", "18446744073709551616"),
        ("2^127-1", "170141183460469231731687303715884105727"),
        ("2^127", "170141183460469231731687303715884105728"),
        ("-2^127", "-170141183460469231731687303715884105728"),
        ("2^128-1", "340282366920938463463374607431768211455"),
    ];
    for (name, dec) in &ints {
        let mut reprs = int_reprs(name, dec);
        if !full && reprs.len() > 2 {
            // quick: narrowest and widest representation
            let last = reprs.pop().unwrap();
            reprs.truncate(1);
            reprs.push(last);
        }
        v.extend(reprs);
    }
    let floats: Vec<(&str, f64)> = vec![
        ("0.0", 0.0),
        ("-0.0", -0.0),
        ("1.0", 1.0),
        ("-1.0", -1.0),
        ("0.5", 0.5),
        ("1.5", 1.5),
        ("2.0", 2.0),
        ("f2^53", 9007199254740992.0),
        ("f2^53+2", 9007199254740994.0),
        ("f2^63", 9223372036854775808.0),
        ("f-2^63", -9223372036854775808.0),
        ("f2^64", 18446744073709551616.0),
        ("f2^127", 1.7014118346046923e38),
        ("f2^128", 3.402823669209385e38),
        ("1e308", 1e308),
        ("inf", f64::INFINITY),
        ("-inf", f64::NEG_INFINITY),
    ];
    for (name, f) in floats {
        v.push(n(name, if f.abs() >= 9007199254740992.0 { "float_big" } else { "float_small" }, Value::from(f)));
    }
    v.push(Named { name: "NaN".into(), class: "float_nan", value: Value::from(f64::NAN), is_nan: true });
    // strings
    v.push(n("''", "str", Value::from("")));
    v.push(n("'a'", "str", Value::from("a")));
    v.push(n("'A'", "str", Value::from("A")));
    v.push(n("'b'", "str", Value::from("b")));
    v.push(n("'ab'", "str", Value::from("ab")));
    v.push(n("'1'", "str", Value::from("1")));
    v.push(n("'long'", "str", Value::from("a long string that does not fit inline storage")));
    v.push(n("safe'a'", "safe_str", Value::from_safe_string("a".into())));
    v.push(n("safe'<b>'", "safe_str", Value::from_safe_string("<b>".into())));
    v.push(n("arcstr'a'", "str", Value::from(Arc::<str>::from("a"))));
    // strings that storage tricks could confuse: trailing / embedded NULs, the inline-storage boundary
    // (22 bytes), multi-byte text; each also in a second storage form
    v.push(n("'a\\0'", "str", Value::from("a\0")));
    v.push(n("'\\0'", "str", Value::from("\0")));
    v.push(n("'a\\0\\0'", "str", Value::from("a\0\0")));
    v.push(n("arcstr'a\\0'", "str", Value::from(Arc::<str>::from("a\0"))));
    v.push(n("safe'a\\0'", "safe_str", Value::from_safe_string("a\0".into())));
    v.push(n("'a'x22", "str", Value::from("a".repeat(22))));
    v.push(n("'a'x23", "str", Value::from("a".repeat(23))));
    v.push(n("'a'x22+'\\0'", "str", Value::from(format!("{}\0", "a".repeat(22)))));
    v.push(n("'\u{e9}'", "str", Value::from("\u{e9}")));
    v.push(n("'a\u{ff}'", "str", Value::from("a\u{ff}")));
    // bytes
    v.push(n("b''", "bytes", Value::from_bytes(vec![])));
    v.push(n("b'a'", "bytes", Value::from_bytes(b"a".to_vec())));
    v.push(n("b'ab'", "bytes", Value::from_bytes(b"ab".to_vec())));
    v.push(n("b'a\\0'", "bytes", Value::from_bytes(b"a\0".to_vec())));
    v.push(n("b'\\xff'", "bytes", Value::from_bytes(vec![0xff])));
    // lists
    let l = |xs: Vec<Value>| Value::from(xs);
    v.push(n("[]", "list", l(vec![])));
    v.push(n("[1]", "list", l(vec![1.into()])));
    v.push(n("[1,2]", "list", l(vec![1.into(), 2.into()])));
    v.push(n("[2,1]", "list", l(vec![2.into(), 1.into()])));
    v.push(n("[0,1,2]", "list", l(vec![0.into(), 1.into(), 2.into()])));
    v.push(n("['a']", "list", l(vec!["a".into()])));
    v.push(n("[true]", "list", l(vec![true.into()])));
    v.push(n("[1.0]", "list", l(vec![1.0.into()])));
    v.push(n("[[1]]", "list", l(vec![l(vec![1.into()])])));
    v.push(n("[none]", "list", l(vec![Value::from(())])));
    v.push(n("[undefined]", "list", l(vec![Value::UNDEFINED])));
    // tuples
    v.push(n("()", "tuple", Value::from(Tuple::from(vec![]))));
    v.push(n("(1,)", "tuple", Value::from(Tuple::from(vec![Value::from(1)]))));
    v.push(n("(1,2)", "tuple", Value::from(Tuple::from(vec![Value::from(1), Value::from(2)]))));
    // lazy iterables
    v.push(n("iter_sized(0..3)", "iter_sized", Value::make_iterable(|| 0..3)));
    v.push(n("iter_sized(0..0)", "iter_sized", Value::make_iterable(|| 0..0)));
    v.push(n("iter_unsized(0..3)", "iter_unsized", Value::make_iterable(|| (0..3).filter(|_| true))));
    v.push(n("iter_unsized(1..3)", "iter_unsized", Value::make_iterable(|| (1..3).filter(|_| true))));
    // maps
    let s = |x: &str| Value::from(x);
    v.push(n("{}", "map", map_of(&[])));
    v.push(n("{a:1}", "map", map_of(&[(s("a"), 1.into())])));
    v.push(n("{a:2}", "map", map_of(&[(s("a"), 2.into())])));
    v.push(n("{b:1}", "map", map_of(&[(s("b"), 1.into())])));
    v.push(n("{a:1,b:2}", "map", map_of(&[(s("a"), 1.into()), (s("b"), 2.into())])));
    v.push(n("{b:2,a:1}", "map", map_of(&[(s("b"), 2.into()), (s("a"), 1.into())])));
    v.push(n("{1:'a'}", "map", map_of(&[(1.into(), s("a"))])));
    v.push(n("{true:'a'}", "map", map_of(&[(true.into(), s("a"))])));
    let mut bt = BTreeMap::new();
    bt.insert("a".to_string(), Value::from(1));
    v.push(n("btree{a:1}", "map", Value::from(bt)));
    v.push(n("{a:[1]}", "map", map_of(&[(s("a"), l(vec![1.into()]))])));
    // values that a missing key could be mistaken for
    v.push(n("{a:undefined}", "map", map_of(&[(s("a"), Value::UNDEFINED)])));
    v.push(n("{b:undefined}", "map", map_of(&[(s("b"), Value::UNDEFINED)])));
    v.push(n("{a:none}", "map", map_of(&[(s("a"), Value::from(()))])));
    v.push(n("{b:none}", "map", map_of(&[(s("b"), Value::from(()))])));
    v.push(n("{a:1,b:undefined}", "map", map_of(&[(s("a"), 1.into()), (s("b"), Value::UNDEFINED)])));
    v.push(n("{a:1,c:2}", "map", map_of(&[(s("a"), 1.into()), (s("c"), 2.into())])));
    // plain objects
    v.push(n("plain(1)", "plain", Value::from_object(Plain(1))));
    v.push(n("plain(1)'", "plain", Value::from_object(Plain(1))));
    v.push(n("plain(2)", "plain", Value::from_object(Plain(2))));
    // invalid values (what a failed lazy conversion leaves in a container)
    let inv = |d: &'static str| Value::from(minijinja::Error::new(minijinja::ErrorKind::InvalidOperation, d));
    v.push(n("invalid(a)", "invalid", inv("a")));
    v.push(n("invalid(a)'", "invalid", inv("a")));
    v.push(n("invalid(b)", "invalid", inv("b")));
    v
}

/// A small alphabet for list-valued filter inputs: duplicates under ==, mixed kinds.
pub fn v_filter() -> Vec<Named> {
    vec![
        n("1", "int", Value::from(1)),
        n("2", "int", Value::from(2)),
        n("1.0", "float", Value::from(1.0)),
        n("'a'", "str", Value::from("a")),
        n("'A'", "str", Value::from("A")),
        n("'b'", "str", Value::from("b")),
        n("none", "none", Value::from(())),
        n("[1]", "list", Value::from(vec![Value::from(1)])),
    ]
}
