//! C13 — fuel gives every render a fixed, exact success threshold.
//! For every program x context: every budget in [0, c+3] and the extremes up to u64::MAX.
use crate::core::*;
use crate::gen;
use minijinja::value::Value;
use minijinja::{Environment, ErrorKind, State};
use serde_json::json;
use std::sync::{Arc, Mutex};

#[derive(Clone, Debug, PartialEq)]
enum Out {
    Ok(String),
    Fuel,
    Err(ErrorKind),
    Panic(String),
}

fn is_out_of_fuel(e: &minijinja::Error) -> bool {
    if e.kind() == ErrorKind::OutOfFuel {
        return true;
    }
    let mut cur: Option<&(dyn std::error::Error + 'static)> = std::error::Error::source(e);
    while let Some(c) = cur {
        if let Some(me) = c.downcast_ref::<minijinja::Error>() {
            if me.kind() == ErrorKind::OutOfFuel {
                return true;
            }
        }
        cur = c.source();
    }
    false
}

type ProbeLog = Arc<Mutex<Vec<(u64, u64)>>>;

struct Subject {
    name: String,
    templates: Vec<(String, String)>,
    main: String,
}

fn build_env(s: &Subject, fuel: Option<u64>, log: &ProbeLog) -> Result<Environment<'static>, String> {
    let mut env = Environment::new();
    env.set_fuel(fuel);
    let log = log.clone();
    env.add_function("probe", move |state: &State| -> Value {
        if let Some(levels) = state.fuel_levels() {
            log.lock().unwrap().push(levels);
        }
        Value::from("")
    });
    // a host function that calls back into the engine and swallows whatever goes wrong: after an
    // out-of-fuel error inside it the render must not continue unmetered
    env.add_function("attempt", |state: &mut State, callee: Value| -> Value { callee.call(state, &[]).unwrap_or_else(|_| Value::from("[unavailable]")) });
    // a host function that renders a block of the running template through the state
    env.add_function("rb", |state: &mut State, name: String| -> Result<Value, minijinja::Error> { state.render_block(&name).map(Value::from) });
    env.add_function("attempt_render", |state: &State, name: String| -> Value {
        state.env().get_template(&name).and_then(|t| t.render(())).map(Value::from).unwrap_or_else(|_| Value::from("[unavailable]"))
    });
    for (n, src) in &s.templates {
        env.add_template_owned(n.clone(), src.clone()).map_err(|e| e.to_string())?;
    }
    Ok(env)
}

/// one render: (outcome, fuel levels at the end when available, probe log)
fn run(s: &Subject, ctx: &Value, fuel: Option<u64>) -> (Out, Option<(u64, u64)>, Vec<(u64, u64)>) {
    let log: ProbeLog = Default::default();
    let r = catch(|| {
        let env = match build_env(s, fuel, &log) {
            Ok(e) => e,
            Err(_) => return (Out::Err(ErrorKind::SyntaxError), None),
        };
        let t = env.get_template(&s.main).unwrap();
        let rv = match t.render_captured(ctx.clone()) {
            Ok(mut c) => {
                let mut levels = c.state().fuel_levels();
                let mut out = c.output().to_string();
                if s.name.ends_with(":fragments") {
                    // the embedder goes on with the same state: one more block, metered by the same tracker
                    match c.with_state_mut(|st| st.render_block("b")) {
                        Ok(frag) => {
                            out.push_str("\u{1}");
                            out.push_str(&frag);
                            let after = c.state().fuel_levels();
                            if let (Some((c0, _)), Some((c1, _))) = (levels, after) {
                                if c1 <= c0 {
                                    return (Out::Err(ErrorKind::InvalidOperation), Some((u64::MAX, c1)));
                                }
                            }
                            levels = after;
                        }
                        Err(e) if is_out_of_fuel(&e) => return (Out::Fuel, None),
                        Err(e) => return (Out::Err(e.kind()), None),
                    }
                }
                (Out::Ok(out), levels)
            }
            Err(e) => {
                if is_out_of_fuel(&e) {
                    (Out::Fuel, None)
                } else {
                    (Out::Err(e.kind()), None)
                }
            }
        };
        rv
    });
    let probes = log.lock().unwrap().clone();
    match r {
        Ok((o, l)) => (o, l, probes),
        Err(p) => (Out::Panic(format!("{} at {}", p, last_panic_loc())), None, probes),
    }
}

const EXTREMES: &[u64] = &[1 << 31, 1 << 32, 1 << 62, (1 << 63) - 1, 1 << 63, u64::MAX - 1, u64::MAX];

fn check_subject(s: &Subject, ctx: &Value, ci: usize, acc: &Acc, l: &mut Local) {
    let mk = |clause: &str, detail: String, budget: Option<u64>| Failure {
        key: format!("fuel {} family={}", clause, s.name.split(':').nth(1).unwrap_or("single")),
        case: format!("{} ctx#{} budget={:?}", s.name, ci, budget),
        detail,
        replay: json!({"templates": s.templates, "main": s.main, "ctx": ci, "budget": budget}),
    };
    let (unlimited, _, _) = run(s, ctx, None);
    l.evals += 1;
    if let Out::Panic(p) = &unlimited {
        // crashes are C01's business; nothing to compare against
        l.outcome(&format!("unlimited render panics: {}", p.split(" at ").last().unwrap_or("")));
        return;
    }
    // consumption under a generous budget
    const BIG: u64 = 1_000_000;
    let (big, levels, probes) = run(s, ctx, Some(BIG));
    l.evals += 1;
    if big != unlimited {
        acc.fail(mk("generous_budget_changes_result", format!("unlimited {:?} vs budget 10^6 {:?}", unlimited, big), Some(BIG)));
        return;
    }
    let mut scan_to = 400u64;
    let mut consumed = None;
    if let Some((c, r)) = levels {
        if c + r != BIG {
            acc.fail(mk("consumed_plus_remaining", format!("consumed {} + remaining {} != {}", c, r, BIG), Some(BIG)));
        }
        consumed = Some(c);
        scan_to = c + 3;
    } else if matches!(big, Out::Ok(_)) {
        acc.fail(mk("levels_missing", "fuel_levels() is None although fuel is configured".into(), Some(BIG)));
    }
    // probes: consumed+remaining == budget at every point, consumed strictly increasing
    let mut last = 0u64;
    for (i, (c, r)) in probes.iter().enumerate() {
        if c + r != BIG {
            acc.fail(mk("probe_sum", format!("probe #{}: consumed {} + remaining {} != {}", i, c, r, BIG), Some(BIG)));
        }
        if i > 0 && *c <= last {
            acc.fail(mk("probe_monotone", format!("probe #{} reports consumed {} after {}: a nested evaluation does not share the tracker", i, c, last), Some(BIG)));
        }
        last = *c;
    }
    if let Some(c) = consumed {
        if c < last {
            acc.fail(mk("probe_monotone", format!("final consumed {} below last probe {}", c, last), Some(BIG)));
        }
    }
    // every budget in [0, scan_to]
    let mut threshold: Option<u64> = None;
    for b in 0..=scan_to {
        let (o, lv, _) = run(s, ctx, Some(b));
        l.evals += 1;
        match (&o, threshold) {
            (Out::Fuel, None) => {}
            (Out::Fuel, Some(t)) => {
                acc.fail(mk("non_monotone", format!("budget {} runs out of fuel although budget {} did not", b, t), Some(b)));
                return;
            }
            (other, _) => {
                if threshold.is_none() {
                    threshold = Some(b);
                }
                if *other != unlimited {
                    acc.fail(mk("different_result", format!("budget {} -> {:?} but unlimited -> {:?}", b, other, unlimited), Some(b)));
                    return;
                }
                if let Some((c, r)) = lv {
                    if c + r != b {
                        acc.fail(mk("consumed_plus_remaining", format!("budget {}: consumed {} + remaining {}", b, c, r), Some(b)));
                    }
                    if Some(c) != consumed {
                        acc.fail(mk("consumption_varies", format!("budget {}: consumed {} but {:?} under the generous budget", b, c, consumed), Some(b)));
                    }
                }
            }
        }
    }
    match (threshold, consumed) {
        (None, _) => {
            acc.fail(mk("no_threshold_found", format!("every budget up to {} runs out of fuel but unlimited -> {:?}", scan_to, unlimited), None));
            return;
        }
        (Some(t), Some(c)) => {
            if t != c + 1 {
                acc.fail(mk("threshold_vs_consumed", format!("threshold {} but reported consumption {}", t, c), Some(t)));
            }
            l.outcome("ok program: threshold == consumed+1");
        }
        (Some(_), None) => l.outcome("failing program: threshold found"),
    }
    let t = threshold.unwrap();
    // determinism at the threshold and just below
    for b in [t, t.saturating_sub(1)] {
        let a = run(s, ctx, Some(b)).0;
        let b2 = run(s, ctx, Some(b)).0;
        l.evals += 2;
        if a != b2 {
            acc.fail(mk("nondeterministic", format!("budget {}: {:?} then {:?}", b, a, b2), Some(b)));
        }
    }
    // extremes
    for &b in EXTREMES {
        let (o, lv, _) = run(s, ctx, Some(b));
        l.evals += 1;
        if o != unlimited {
            let class = if b >= (1 << 63) { "extreme_budget_ge_2^63" } else { "extreme_budget" };
            acc.fail(mk(class, format!("budget {} -> {:?} but unlimited -> {:?}", b, o, unlimited), Some(b)));
        } else if let (Some((c, r)), Some(c0)) = (lv, consumed) {
            if c.checked_add(r) != Some(b) || c != c0 {
                let class = if b >= (1 << 63) { "extreme_levels_ge_2^63" } else { "extreme_levels" };
                acc.fail(mk(class, format!("budget {}: consumed {} remaining {} (expected consumed {})", b, c, r, c0), Some(b)));
            }
        }
    }
    l.nontrivial.insert(fnv(format!("{}|{}", s.name, ci).as_bytes()));
}

pub fn main(args: Args) -> i32 {
    let start_t = std::time::Instant::now();
    install_quiet_panic_hook();
    let ctxs = gen::contexts();
    let acc = Acc::new();
    if let Some(p) = &args.replay {
        let doc = load_replay(p);
        let j = &doc["replay"];
        let s = Subject {
            name: "replay:replay".into(),
            templates: j["templates"].as_array().unwrap().iter().map(|t| (t[0].as_str().unwrap().to_string(), t[1].as_str().unwrap().to_string())).collect(),
            main: j["main"].as_str().unwrap().to_string(),
        };
        let mut l = Local::default();
        check_subject(&s, &ctxs[j["ctx"].as_u64().unwrap() as usize], j["ctx"].as_u64().unwrap() as usize, &acc, &mut l);
        let fs = acc.take_failures();
        return if fs.is_empty() {
            println!("replay: case passes");
            0
        } else {
            for f in &fs {
                println!("VIOLATION property=C13 replay={}  # {} :: {}", p, f.key, f.detail);
            }
            1
        };
    }
    // single-template programs: the depth-1 space completely, the depth-2 space by stride
    let mut subjects: Vec<Subject> = vec![];
    let g1 = gen::Gen::new(gen::Opts { depth: 1, max_programs: u64::MAX, multi_template: false, loop_controls: true, extra_leaves: false });
    for n in 0..g1.size() {
        subjects.push(Subject { name: format!("d1#{}:single", n), templates: vec![("main".into(), format!("{{{{ probe() }}}}{}{{{{ probe() }}}}", g1.program(n).source()))], main: "main".into() });
    }
    // run-time failing programs: the error must not appear before the fuel needed to reach it is there
    for n in (0..g1.size()).step_by(3) {
        subjects.push(Subject { name: format!("d1#{}:failing", n), templates: vec![("main".into(), format!("{}{{{{ x // 0 }}}}tail", g1.program(n).source()))], main: "main".into() });
        subjects.push(Subject { name: format!("d1#{}:failing_in_include", n), templates: vec![("main".into(), "a{% include 'inc' %}b".into()), ("inc".into(), format!("{}{{{{ [] | first | int // 0 }}}}", g1.program(n).source()))], main: "main".into() });
    }
    let g2 = gen::Gen::new(gen::Opts { depth: 2, max_programs: u64::MAX, multi_template: false, loop_controls: true, extra_leaves: false });
    let stride2 = args.tier.pick(97u64, 1u64);
    let mut n = 0;
    while n < g2.size() {
        subjects.push(Subject { name: format!("d2#{}:single", n), templates: vec![("main".into(), g2.program(n).source())], main: "main".into() });
        n += stride2;
    }
    // the error is swallowed by a host function in the middle of the render: the rest of the render is
    // still metered, so budgets below the threshold keep failing
    for (n, tail) in [(10usize, 5usize), (40, 40), (3, 60), (60, 3)] {
        for (form, pre) in [
            ("macro", "{% macro heavy() %}{% for i in range(N) %}w{% endfor %}{% endmacro %}{{ attempt(heavy) }}"),
            ("caller", "{% macro run() %}{{ attempt(caller) }}{% endmacro %}{% call run() %}{% for i in range(N) %}w{% endfor %}{% endcall %}"),
            ("twice", "{% macro heavy() %}{% for i in range(N) %}w{% endfor %}{% endmacro %}{{ attempt(heavy) }}{{ attempt(heavy) }}"),
            ("in_loop", "{% macro heavy() %}{% for i in range(N) %}w{% endfor %}{% endmacro %}{% for j in range(3) %}{{ attempt(heavy) }}{% endfor %}"),
        ] {
            let src = format!("{}|{{% for i in range({}) %}}x{{% endfor %}}{{{{ probe() }}}}", pre.replace('N', &n.to_string()), tail);
            subjects.push(Subject { name: format!("swallow#{}_{}_{}:swallowed_error", form, n, tail), templates: vec![("main".into(), src)], main: "main".into() });
        }
    }
    // blocks rendered through the state API, from inside the render and after it, share the render's
    // fuel: consumption accumulates and the budget threshold counts them
    for k in [1usize, 3, 12] {
        subjects.push(Subject {
            name: format!("rb#{}:render_block_callback", k),
            templates: vec![("main".into(), format!("{{% block b %}}{{% for i in range(5) %}}w{{% endfor %}}{{% endblock %}}|{{{{ probe() }}}}{{% for j in range({}) %}}{{{{ rb('b') }}}}{{{{ probe() }}}}{{% endfor %}}", k))],
            main: "main".into(),
        });
        subjects.push(Subject {
            name: format!("rbchild#{}:render_block_callback", k),
            templates: vec![
                ("main".into(), format!("{{% extends 'base' %}}{{% block b %}}[{{{{ super() }}}}]{{% for j in range({}) %}}{{{{ rb('c') }}}}{{{{ probe() }}}}{{% endfor %}}{{% endblock %}}", k)),
                ("base".into(), "{{ probe() }}{% block b %}B{% endblock %}{% block c %}{% for i in range(4) %}c{% endfor %}{% endblock %}".into()),
            ],
            main: "main".into(),
        });
        subjects.push(Subject {
            name: format!("frag#{}:fragments", k),
            templates: vec![("main".into(), format!("{{% block b %}}{{% for i in range({}) %}}w{{% endfor %}}{{% endblock %}}|{{% block c %}}x{{% endblock %}}", k))],
            main: "main".into(),
        });
    }
    let single = subjects.len();
    for m in gen::multi_corpus(args.tier.pick(3, 1)) {
        subjects.push(Subject { name: m.name.clone(), templates: m.templates.iter().map(|(a, b)| (a.to_string(), b.clone())).collect(), main: m.main.to_string() });
    }
    acc.count("single_template_programs", single as u64);
    acc.count("multi_template_programs", (subjects.len() - single) as u64);
    acc.count("depth2_stride", stride2);
    par_chunks(subjects.len() as u64, 8, &acc, |r, l| {
        for i in r {
            for (ci, ctx) in ctxs.iter().enumerate().take(2) {
                check_subject(&subjects[i as usize], ctx, ci, &acc, l);
            }
        }
    });
    acc.sample(json!({"program": subjects[10].templates, "budgets": "0..=consumed+3, 2^31, 2^32, 2^62, 2^63-1, 2^63, 2^64-2, 2^64-1"}));
    acc.sample(json!({"program": subjects[subjects.len() - 3].templates, "main": "main"}));
    finish(
        Finish {
            property: "C13",
            level: "exploration",
            tier: args.tier,
            seed: args.seed,
            rule: format!("programs: the complete depth-1 space of G ({} programs, bracketed by probe() calls), every {}th program of the depth-2 space, 9 programs that render blocks through State::render_block from a host function inside the render or from the embedder after it (same tracker: consumption accumulates, the threshold counts them), 16 programs in which a host function calls a macro or caller back and swallows its error (the rest of the render stays metered), and 5 multi-template families (include, include in loop, extends+super, import/from-import of macros, three-level inheritance) built on depth-1 bodies with probe() calls inside included templates, macros and blocks; x 2 contexts. For each: unlimited render, render under 10^6 (consumption c, consumed+remaining==budget, probe sequence strictly increasing), then EVERY budget 0..=c+3 (400 for failing programs) must show one threshold T (= c+1) below which the result is OutOfFuel and from which on it equals the unlimited result, determinism at T and T-1, and 7 extreme budgets up to u64::MAX. distinct non-trivial = (program, context) pairs for which a threshold was established", g1.size(), stride2),
            exhaustive: true,
            bound: json!({"extremes": EXTREMES, "contexts": 2}),
            assumptions: vec!["the depth-2 space is visited by a fixed stride (systematic subset), not completely".into()],
            extra: Default::default(),
            start: start_t,
        },
        &acc,
    )
}
