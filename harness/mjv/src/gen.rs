//! G — the deterministic, size-ordered, exhaustive program enumerator for the core fragment.
//!
//! A program is a top-level body of shape {C, L·C, C·L} (L leaf, C construct) whose constructs
//! nest to depth `d`; inner bodies have the shapes {∅, L, C, L·C, C·L}.  The space is *ranked*:
//! `Gen::program(n)` unranks the n-th program, so a case number is a stable replay handle and no
//! corpus has to be stored.
use minijinja::value::Value;
use std::collections::BTreeMap;

#[derive(Clone, Debug, PartialEq)]
pub enum Expr {
    Int(i64),
    Str(&'static str),
    Bool(bool),
    Var(&'static str),
    List(Vec<Expr>),
    Bin(&'static str, Box<Expr>, Box<Expr>),
    Not(Box<Expr>),
    Attr(Box<Expr>, &'static str),
    Filter(Box<Expr>, &'static str, Vec<Expr>),
    Test(Box<Expr>, &'static str),
    Call(&'static str, Vec<Expr>, Vec<(&'static str, Expr)>),
    Cond(Box<Expr>, Box<Expr>, Box<Expr>),
}

impl Expr {
    pub fn src(&self) -> String {
        match self {
            Expr::Int(i) => i.to_string(),
            Expr::Str(s) => format!("'{}'", s),
            Expr::Bool(b) => (if *b { "true" } else { "false" }).to_string(),
            Expr::Var(v) => v.to_string(),
            Expr::List(xs) => format!("[{}]", xs.iter().map(|x| x.src()).collect::<Vec<_>>().join(", ")),
            Expr::Bin(op, a, b) => format!("({} {} {})", a.src(), op, b.src()),
            Expr::Not(a) => format!("(not {})", a.src()),
            Expr::Attr(a, n) => format!("{}.{}", a.src(), n),
            Expr::Filter(a, f, args) => {
                if args.is_empty() {
                    format!("{}|{}", a.src(), f)
                } else {
                    format!("{}|{}({})", a.src(), f, args.iter().map(|x| x.src()).collect::<Vec<_>>().join(", "))
                }
            }
            Expr::Test(a, t) => format!("({} is {})", a.src(), t),
            Expr::Call(f, args, kwargs) => {
                let mut parts: Vec<String> = args.iter().map(|x| x.src()).collect();
                parts.extend(kwargs.iter().map(|(k, v)| format!("{}={}", k, v.src())));
                format!("{}({})", f, parts.join(", "))
            }
            Expr::Cond(t, c, e) => format!("({} if {} else {})", t.src(), c.src(), e.src()),
        }
    }
}

fn var(n: &'static str) -> Expr {
    Expr::Var(n)
}
fn bin(op: &'static str, a: Expr, b: Expr) -> Expr {
    Expr::Bin(op, Box::new(a), Box::new(b))
}
fn attr(a: Expr, n: &'static str) -> Expr {
    Expr::Attr(Box::new(a), n)
}

#[derive(Clone, Debug, PartialEq)]
pub enum Node {
    Text(&'static str),
    Out(Expr),
    Set(&'static str, Expr),
    SetBlock(&'static str, Vec<Node>),
    If(Expr, Vec<Node>, Option<Vec<Node>>),
    For {
        targets: Vec<&'static str>,
        iter: Expr,
        filter: Option<Expr>,
        recursive: bool,
        body: Vec<Node>,
        else_: Option<Vec<Node>>,
    },
    With(Vec<(&'static str, Expr)>, Vec<Node>),
    Macro {
        name: &'static str,
        params: Vec<(&'static str, Option<Expr>)>,
        body: Vec<Node>,
    },
    CallBlock {
        macro_name: &'static str,
        args: Vec<Expr>,
        body: Vec<Node>,
    },
    FilterBlock(&'static str, Vec<Node>),
    AutoEscape(bool, Vec<Node>),
    Break,
    Continue,
    Block(&'static str, Vec<Node>),
    Include(Expr),
}

#[derive(Clone, Debug, PartialEq)]
pub enum Piece {
    Text(String),
    Var(String),
    Block(String),
    Comment(String),
}

pub fn to_pieces(nodes: &[Node], out: &mut Vec<Piece>) {
    let b = |s: String| Piece::Block(s);
    for n in nodes {
        match n {
            Node::Text(t) => out.push(Piece::Text(t.to_string())),
            Node::Out(e) => out.push(Piece::Var(e.src())),
            Node::Set(n, e) => out.push(b(format!("set {} = {}", n, e.src()))),
            Node::SetBlock(n, body) => {
                out.push(b(format!("set {}", n)));
                to_pieces(body, out);
                out.push(b("endset".into()));
            }
            Node::If(c, t, e) => {
                out.push(b(format!("if {}", c.src())));
                to_pieces(t, out);
                if let Some(e) = e {
                    out.push(b("else".into()));
                    to_pieces(e, out);
                }
                out.push(b("endif".into()));
            }
            Node::For { targets, iter, filter, recursive, body, else_ } => {
                let mut s = format!("for {} in {}", targets.join(", "), iter.src());
                if let Some(f) = filter {
                    s.push_str(&format!(" if {}", f.src()));
                }
                if *recursive {
                    s.push_str(" recursive");
                }
                out.push(b(s));
                to_pieces(body, out);
                if let Some(e) = else_ {
                    out.push(b("else".into()));
                    to_pieces(e, out);
                }
                out.push(b("endfor".into()));
            }
            Node::With(binds, body) => {
                out.push(b(format!("with {}", binds.iter().map(|(k, v)| format!("{} = {}", k, v.src())).collect::<Vec<_>>().join(", "))));
                to_pieces(body, out);
                out.push(b("endwith".into()));
            }
            Node::Macro { name, params, body } => {
                let ps: Vec<String> = params
                    .iter()
                    .map(|(p, d)| match d {
                        Some(d) => format!("{}={}", p, d.src()),
                        None => p.to_string(),
                    })
                    .collect();
                out.push(b(format!("macro {}({})", name, ps.join(", "))));
                to_pieces(body, out);
                out.push(b("endmacro".into()));
            }
            Node::CallBlock { macro_name, args, body } => {
                out.push(b(format!("call {}({})", macro_name, args.iter().map(|x| x.src()).collect::<Vec<_>>().join(", "))));
                to_pieces(body, out);
                out.push(b("endcall".into()));
            }
            Node::FilterBlock(f, body) => {
                out.push(b(format!("filter {}", f)));
                to_pieces(body, out);
                out.push(b("endfilter".into()));
            }
            Node::AutoEscape(on, body) => {
                out.push(b(format!("autoescape {}", on)));
                to_pieces(body, out);
                out.push(b("endautoescape".into()));
            }
            Node::Break => out.push(b("break".into())),
            Node::Continue => out.push(b("continue".into())),
            Node::Block(n, body) => {
                out.push(b(format!("block {}", n)));
                to_pieces(body, out);
                out.push(b("endblock".into()));
            }
            Node::Include(e) => out.push(b(format!("include {}", e.src()))),
        }
    }
}

pub fn pieces_to_source(pieces: &[Piece]) -> String {
    let mut s = String::new();
    for p in pieces {
        match p {
            Piece::Text(t) => s.push_str(t),
            Piece::Var(e) => {
                s.push_str("{{ ");
                s.push_str(e);
                s.push_str(" }}");
            }
            Piece::Block(b) => {
                s.push_str("{% ");
                s.push_str(b);
                s.push_str(" %}");
            }
            Piece::Comment(c) => {
                s.push_str("{# ");
                s.push_str(c);
                s.push_str(" #}");
            }
        }
    }
    s
}

#[derive(Clone, Debug)]
pub struct Program {
    pub index: u64,
    pub nodes: Vec<Node>,
    pub pieces: Vec<Piece>,
}

impl Program {
    pub fn source(&self) -> String {
        pieces_to_source(&self.pieces)
    }
}

#[derive(Clone, Copy, Debug)]
pub struct Opts {
    pub depth: usize,
    pub max_programs: u64,
    pub multi_template: bool,
    pub loop_controls: bool,
    /// two more inner leaves: an assignment of a constant to `x` and one to the loop variable /
    /// macro parameter `i` (stores whose value is known at compile time, at the end of bodies that
    /// may be skipped or repeated)
    pub extra_leaves: bool,
}

const BLOCK_NAMES: &[&str] = &["ba", "bb", "bc", "bd", "be", "bf", "bg", "bh", "bi", "bj", "bk", "bl", "bm", "bn", "bo", "bp"];

#[derive(Clone, Copy, PartialEq, Eq, Hash, PartialOrd, Ord, Debug)]
struct Ctx {
    in_loop: bool,
}

pub struct Gen {
    pub opts: Opts,
    memo_body: std::cell::RefCell<BTreeMap<(usize, Ctx), u64>>,
}

const N_VARIANTS_CORE: usize = 14;

impl Gen {
    pub fn new(opts: Opts) -> Gen {
        Gen { opts, memo_body: Default::default() }
    }

    fn n_variants(&self) -> usize {
        if self.opts.multi_template {
            N_VARIANTS_CORE + 2
        } else {
            N_VARIANTS_CORE
        }
    }

    fn inner_leaves(&self, c: Ctx) -> Vec<Node> {
        let mut v = vec![
            Node::Text("t"),
            Node::Out(var("x")),
            Node::Set("x", bin("+", var("x"), Expr::Int(1))),
            Node::Out(var("i")),
        ];
        if self.opts.extra_leaves {
            v.push(Node::Set("x", Expr::Int(3)));
            v.push(Node::Set("i", Expr::Int(0)));
        }
        if c.in_loop {
            v.push(Node::Out(attr(var("loop"), "index")));
            if self.opts.loop_controls {
                v.push(Node::Break);
                v.push(Node::Continue);
            }
        }
        v
    }

    fn top_leaves(&self) -> Vec<Node> {
        vec![Node::Text("a"), Node::Out(var("x")), Node::Set("x", Expr::Int(7)), Node::Out(var("y"))]
    }

    /// number of bodies whose constructs nest at most `k` deep
    fn body_count(&self, k: usize, c: Ctx) -> u64 {
        if let Some(v) = self.memo_body.borrow().get(&(k, c)) {
            return *v;
        }
        let l = self.inner_leaves(c).len() as u64;
        let mut n = 1 + l;
        if k > 0 {
            let cc = self.construct_count(k, c);
            n += cc + 2 * l * cc;
        }
        self.memo_body.borrow_mut().insert((k, c), n);
        n
    }

    fn body_nth(&self, k: usize, c: Ctx, mut n: u64) -> Vec<Node> {
        let leaves = self.inner_leaves(c);
        let l = leaves.len() as u64;
        if n == 0 {
            return vec![];
        }
        n -= 1;
        if n < l {
            return vec![leaves[n as usize].clone()];
        }
        n -= l;
        assert!(k > 0, "rank out of range");
        let cc = self.construct_count(k, c);
        if n < cc {
            return self.construct_nth(k, c, n);
        }
        n -= cc;
        if n < l * cc {
            let mut v = vec![leaves[(n / cc) as usize].clone()];
            v.extend(self.construct_nth(k, c, n % cc));
            return v;
        }
        n -= l * cc;
        assert!(n < l * cc, "rank out of range");
        let mut v = self.construct_nth(k, c, n % cc);
        v.push(leaves[(n / cc) as usize].clone());
        v
    }

    /// (multiplicity of the variant's own holes, context of its body)
    fn variant_shape(&self, v: usize, c: Ctx) -> (u64, Ctx) {
        let lp = Ctx { in_loop: true };
        let fresh = Ctx { in_loop: false };
        match v {
            0 => (2, c),     // if cond (2 conds)
            1 => (2, c),     // if/else
            2 => (2, lp),    // for over 2 iterables
            3 => (1, lp),    // for/else
            4 => (1, lp),    // filtered for
            5 => (1, lp),    // unpacking for over m|items
            6 => (1, c),     // set-block + print
            7 => (1, c),     // with
            8 => (1, fresh), // macro + call
            9 => (1, fresh), // call block (body is the caller body)
            10 => (1, c),    // filter block
            11 => (1, lp),   // recursive for
            12 => (1, c),    // autoescape
            13 => (1, fresh), // macro with default + kwargs call
            14 => (1, fresh), // block (multi_template)
            15 => (1, c),     // include followed by the body (multi_template)
            _ => unreachable!(),
        }
    }

    fn construct_count(&self, k: usize, c: Ctx) -> u64 {
        let mut n = 0;
        for v in 0..self.n_variants() {
            // blocks cannot be defined inside loops or macros in a meaningful way for this
            // family; they are still generated (the engine accepts them)
            let (m, bc) = self.variant_shape(v, c);
            n += m * self.body_count(k - 1, bc);
        }
        n
    }

    fn construct_nth(&self, k: usize, c: Ctx, mut n: u64) -> Vec<Node> {
        for v in 0..self.n_variants() {
            let (m, bc) = self.variant_shape(v, c);
            let bcount = self.body_count(k - 1, bc);
            let size = m * bcount;
            if n < size {
                let hole = n / bcount;
                let body = self.body_nth(k - 1, bc, n % bcount);
                return self.build_variant(v, hole, body);
            }
            n -= size;
        }
        panic!("rank out of range");
    }

    fn build_variant(&self, v: usize, hole: u64, body: Vec<Node>) -> Vec<Node> {
        let conds = [var("x"), Expr::Test(Box::new(var("xs")), "defined")];
        let conds2 = [bin(">", var("x"), Expr::Int(1)), var("xs")];
        let iters = [var("xs"), Expr::List(vec![Expr::Int(1), Expr::Int(2)])];
        match v {
            0 => vec![Node::If(conds2[hole as usize].clone(), body, None)],
            1 => vec![Node::If(conds[hole as usize].clone(), body, Some(vec![Node::Text("e")]))],
            2 => vec![Node::For { targets: vec!["i"], iter: iters[hole as usize].clone(), filter: None, recursive: false, body, else_: None }],
            3 => vec![Node::For { targets: vec!["i"], iter: var("xs"), filter: None, recursive: false, body, else_: Some(vec![Node::Text("E")]) }],
            4 => vec![Node::For { targets: vec!["i"], iter: var("xs"), filter: Some(bin(">", var("i"), Expr::Int(1))), recursive: false, body, else_: None }],
            5 => vec![Node::For {
                targets: vec!["k", "i"],
                iter: Expr::Filter(Box::new(var("m")), "items", vec![]),
                filter: None,
                recursive: false,
                body,
                else_: None,
            }],
            6 => vec![Node::SetBlock("y", body), Node::Out(var("y"))],
            7 => vec![Node::With(vec![("x", Expr::Int(5))], body)],
            8 => vec![
                Node::Macro { name: "mm", params: vec![("i", None)], body },
                Node::Out(Expr::Call("mm", vec![Expr::Int(4)], vec![])),
            ],
            9 => vec![
                Node::Macro { name: "w", params: vec![], body: vec![Node::Text("["), Node::Out(Expr::Call("caller", vec![], vec![])), Node::Text("]")] },
                Node::CallBlock { macro_name: "w", args: vec![], body },
            ],
            10 => vec![Node::FilterBlock("upper", body)],
            11 => {
                let mut b = vec![
                    Node::Out(attr(var("i"), "v")),
                    Node::If(attr(var("i"), "c"), vec![Node::Out(Expr::Call("loop", vec![attr(var("i"), "c")], vec![]))], None),
                ];
                b.extend(body);
                vec![Node::For { targets: vec!["i"], iter: var("tree"), filter: None, recursive: true, body: b, else_: None }]
            }
            12 => vec![Node::AutoEscape(true, body)],
            13 => vec![
                Node::Macro { name: "md", params: vec![("i", None), ("j", Some(Expr::Int(2)))], body: {
                    let mut b = body;
                    b.push(Node::Out(var("j")));
                    b
                } },
                Node::Out(Expr::Call("md", vec![Expr::Int(1)], vec![("j", Expr::Int(9))])),
                Node::Out(Expr::Call("md", vec![Expr::Int(3)], vec![])),
            ],
            14 => {
                // block names must be unique per template: derive one from the body
                let name: &'static str = BLOCK_NAMES[(crate::core::fnv(format!("{:?}", body).as_bytes()) % BLOCK_NAMES.len() as u64) as usize];
                vec![Node::Block(name, body)]
            }
            15 => {
                let mut v = vec![Node::Include(Expr::Str("inc"))];
                v.extend(body);
                v
            }
            _ => unreachable!(),
        }
    }

    /// Unrank the n-th program of the cumulative space of the configured depth: index =
    /// shape * C + construct rank, shape 0 = C alone, 1..=L = leaf·C, L+1..=2L = C·leaf.
    pub fn program(&self, n: u64) -> Program {
        let c = Ctx { in_loop: false };
        let d = self.opts.depth;
        let tl = self.top_leaves();
        let cc = self.construct_count(d, c);
        let shape = n / cc;
        let cons = self.construct_nth(d, c, n % cc);
        let l = tl.len() as u64;
        let nodes = if shape == 0 {
            cons
        } else if shape <= l {
            let mut v = vec![tl[(shape - 1) as usize].clone()];
            v.extend(cons);
            v
        } else {
            let mut v = cons;
            v.push(tl[(shape - 1 - l) as usize].clone());
            v
        };
        let mut pieces = vec![];
        to_pieces(&nodes, &mut pieces);
        Program { index: n, nodes, pieces }
    }

    /// size of the cumulative space of the configured depth (what `program` ranks)
    pub fn size(&self) -> u64 {
        let c = Ctx { in_loop: false };
        self.construct_count(self.opts.depth, c) * (1 + 2 * self.top_leaves().len() as u64)
    }
}

/// The whole (cumulative) space of the configured depth, or — when it is larger than
/// `max_programs` — the systematic subset {n : n % stride == 0}; the stride is reported by
/// `corpus_stride`.
pub fn corpus(opts: Opts) -> Vec<Program> {
    let g = Gen::new(opts);
    let size = g.size();
    let stride = corpus_stride(opts);
    (0..size).step_by(stride as usize).map(|n| g.program(n)).collect()
}

pub fn corpus_stride(opts: Opts) -> u64 {
    let g = Gen::new(opts);
    let size = g.size();
    if size <= opts.max_programs {
        1
    } else {
        (size + opts.max_programs - 1) / opts.max_programs
    }
}

fn tree() -> Value {
    let leaf = |v: i64| Value::from_pairs([("v", Value::from(v)), ("c", Value::from(Vec::<Value>::new()))]);
    let node = |v: i64, c: Vec<Value>| Value::from_pairs([("v", Value::from(v)), ("c", Value::from(c))]);
    Value::from(vec![node(1, vec![leaf(2), leaf(3)]), leaf(4)])
}

pub fn contexts() -> Vec<Value> {
    let m = Value::from_pairs([("a", 1), ("b", 2)]);
    vec![
        Value::from_pairs([("x", Value::from(0)), ("xs", Value::from(Vec::<i64>::new())), ("m", m.clone()), ("tree", tree())]),
        Value::from_pairs([("x", Value::from(2)), ("xs", Value::from(vec![1, 2, 3])), ("m", m.clone()), ("tree", tree())]),
        Value::from_pairs([("x", Value::from(1)), ("xs", Value::from(vec![3])), ("m", m), ("tree", Value::from(Vec::<Value>::new()))]),
    ]
}

// ---------------------------------------------------------------------------------------------
// multi-template families (macros / include / extends / super / import), built from the depth-1
// program space as inner content.  Templates call the global function `probe()` at strategic
// places; every check using this family registers one (possibly a no-op returning "").

#[derive(Clone, Debug)]
pub struct Multi {
    pub name: String,
    pub templates: Vec<(&'static str, String)>,
    pub main: &'static str,
}

pub fn multi_corpus(stride: u64) -> Vec<Multi> {
    let g = Gen::new(Opts { depth: 1, max_programs: u64::MAX, multi_template: false, loop_controls: true, extra_leaves: false });
    let size = g.size();
    let mut out = vec![];
    let mut n = 0;
    while n < size {
        let p = g.program(n).source();
        let q = g.program((n * 7 + 3) % size).source();
        let tag = format!("p{}", n);
        out.push(Multi {
            name: format!("{}:include", tag),
            templates: vec![("main", "A{{ probe() }}{% include 'inc' %}{{ probe() }}B".into()), ("inc", format!("{{{{ probe() }}}}{}", p))],
            main: "main",
        });
        out.push(Multi {
            name: format!("{}:include_in_loop", tag),
            templates: vec![("main", "{% for i in xs %}{% include 'inc' %}{{ probe() }}{% endfor %}|{{ x }}".into()), ("inc", format!("{}{{{{ probe() }}}}", p))],
            main: "main",
        });
        out.push(Multi {
            name: format!("{}:extends_super", tag),
            templates: vec![
                ("main", format!("{{% extends 'base' %}}junk{{% block b %}}[{{{{ super() }}}}{{{{ probe() }}}}]{}{{% endblock %}}", p)),
                ("base", format!("H{{{{ probe() }}}}{{% block b %}}{}{{{{ probe() }}}}{{% endblock %}}F{{% block c %}}c{{% endblock %}}", q)),
            ],
            main: "main",
        });
        out.push(Multi {
            name: format!("{}:import_macro", tag),
            templates: vec![
                ("main", "{% from 'lib' import lm %}{{ probe() }}{{ lm(1) }}{{ lm(2) }}{% import 'lib' as l %}{{ l.lm(3) }}{{ probe() }}".into()),
                ("lib", format!("{{% macro lm(i) %}}{{{{ probe() }}}}{}{{% endmacro %}}{{% set exported = 1 %}}", p)),
            ],
            main: "main",
        });
        out.push(Multi {
            name: format!("{}:three_level", tag),
            templates: vec![
                ("main", "{% extends 'mid' %}{% block b %}<{{ super() }}>{% endblock %}".into()),
                ("mid", format!("{{% extends 'base' %}}{{% block b %}}({{{{ super() }}}}){}{{{{ probe() }}}}{{% endblock %}}", p)),
                ("base", "{{ probe() }}{% block b %}base{{ probe() }}{% endblock %}!".into()),
            ],
            main: "main",
        });
        // optional composition at the very end of the render: an `ignore missing` include (single
        // name and list of choices) of a template that itself includes / imports, as the last
        // thing of the page and as the last thing of the last inherited block - nothing follows that
        // could notice what the optional include left behind
        out.push(Multi {
            name: format!("{}:optional_include_tail", tag),
            templates: vec![("main", "A{{ probe() }}{% include 'mid' ignore missing %}".into()), ("mid", "M{% include 'inc' %}".into()), ("inc", format!("{{{{ probe() }}}}{}", p))],
            main: "main",
        });
        out.push(Multi {
            name: format!("{}:optional_choices_tail", tag),
            templates: vec![
                ("main", "A{% include ['nope', 'mid'] ignore missing %}".into()),
                ("mid", "M{% include ['nada', 'inc'] ignore missing %}".into()),
                ("inc", format!("{}{{{{ probe() }}}}", p)),
            ],
            main: "main",
        });
        out.push(Multi {
            name: format!("{}:optional_include_of_importer_in_last_block", tag),
            templates: vec![
                ("main", "{% extends 'base' %}{% block b %}[{% include 'mid' ignore missing %}{% endblock %}".into()),
                ("base", "H{{ probe() }}{% block b %}{% endblock %}".into()),
                ("mid", "{% from 'lib' import lm %}{{ lm(1) }}".into()),
                ("lib", format!("{{% macro lm(i) %}}{{{{ probe() }}}}{}{{% endmacro %}}", p)),
            ],
            main: "main",
        });
        n += stride;
    }
    out
}
