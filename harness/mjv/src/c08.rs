//! C08 — integer operators are exact or fail, independent of representation; // and % are
//! Euclidean and agree; int/float comparison is exact.
use crate::big::Big;
use crate::core::*;
use minijinja::value::{Value, ValueKind};
use minijinja::Environment;
use serde_json::{json, Value as J};
use std::collections::BTreeMap;

#[derive(Clone, Debug)]
pub struct Operand {
    pub math: Big,
    pub form: &'static str, // lit, i64, u64, i128, u128
}

impl Operand {
    fn is_lit(&self) -> bool {
        self.form.starts_with("lit")
    }
    /// the literal in the spelling the form names: decimal, decimal with digit separators, hex
    /// (lower / upper case), octal, binary -- the lexer has one code path per radix and per width
    fn literal_text(&self) -> String {
        let abs = self.math.abs().to_string();
        let n: u128 = abs.parse().expect("operands lie in [-2^127, 2^128)");
        let body = match self.form {
            "lit" => abs,
            "lit_us" => {
                // 1_234_567: separators every three digits from the right
                let mut out = String::new();
                for (i, c) in abs.chars().enumerate() {
                    if i > 0 && (abs.len() - i) % 3 == 0 {
                        out.push('_');
                    }
                    out.push(c);
                }
                out
            }
            "lit_hex" => format!("0x{:x}", n),
            "lit_HEX" => format!("0X{:X}", n),
            "lit_oct" => format!("0o{:o}", n),
            "lit_bin" => format!("0b{:b}", n),
            _ => unreachable!(),
        };
        if self.math.neg {
            format!("(-{})", body)
        } else {
            body
        }
    }
    fn value(&self) -> Value {
        let s = self.math.to_string();
        match self.form {
            "i64" => Value::from(s.parse::<i64>().unwrap()),
            "u64" => Value::from(s.parse::<u64>().unwrap()),
            "i128" => Value::from(s.parse::<i128>().unwrap()),
            "u128" => Value::from(s.parse::<u128>().unwrap()),
            // the same host integers handed over through the serde bridge (what `Serde(x)`, serialised
            // structs and `context!`-free embedders use): a different constructor per width
            "serde_i64" => Value::from(minijinja::value::Serde(s.parse::<i64>().unwrap())),
            "serde_u64" => Value::from(minijinja::value::Serde(s.parse::<u64>().unwrap())),
            "serde_i128" => Value::from(minijinja::value::Serde(s.parse::<i128>().unwrap())),
            "serde_u128" => Value::from(minijinja::value::Serde(s.parse::<u128>().unwrap())),
            _ => unreachable!(),
        }
    }
}

pub fn int_points() -> Vec<Big> {
    let p = |e: u32| Big::from_i128(2).pow(e as u64, 400).unwrap();
    let one = Big::from_i128(1);
    let mut v: Vec<Big> = vec![];
    for s in [0i128, 1, 2, 3, 7, 10] {
        v.push(Big::from_i128(s));
        if s != 0 {
            v.push(Big::from_i128(-s));
        }
    }
    for e in [31u32, 32, 53, 63, 64, 127] {
        v.push(p(e));
        v.push(p(e).sub(&one));
        v.push(p(e).add(&one));
        v.push(p(e).negate());
        v.push(p(e).negate().add(&one));
        v.push(p(e).negate().sub(&one));
    }
    v.push(p(126));
    v.push(p(128).sub(&one));
    v.push(p(128).sub(&Big::from_i128(2)));
    v.push(p(64).mul(&Big::from_i128(3)));
    // keep inside the quantifier's interval [-2^127, 2^128)
    let lo = p(127).negate();
    let hi = p(128);
    v.retain(|x| *x >= lo && *x < hi);
    v.sort();
    v.dedup();
    v
}

/// the power-of-two lattice: +-2^k and its neighbours for every k in 0..=128, in the narrowest
/// representation that holds the value — every operation whose exact result crosses a width
/// boundary (2 ** 127, 2^64 * 2^63, 2^127 + 2^127, ...) has operands in this set
pub fn lattice_operands(tier: Tier) -> Vec<Operand> {
    let p = |e: u32| Big::from_i128(2).pow(e as u64, 400).unwrap();
    let one = Big::from_i128(1);
    let lo = p(127).negate();
    let hi = p(128);
    let mut pts: Vec<Big> = vec![];
    for k in 0..=128u32 {
        pts.push(p(k));
        pts.push(p(k).sub(&one));
        pts.push(p(k).negate());
        if tier == Tier::Thorough {
            pts.push(p(k).add(&one));
            pts.push(p(k).negate().add(&one));
            pts.push(p(k).negate().sub(&one));
        }
    }
    for s in [3i128, 5, 6, 7, 9, 10, 100, 127, 128, 129] {
        pts.push(Big::from_i128(s));
    }
    pts.retain(|x| *x >= lo && *x < hi);
    pts.sort();
    pts.dedup();
    pts.into_iter()
        .map(|m| {
            let s = m.to_string();
            let form = if s.parse::<i64>().is_ok() {
                "i64"
            } else if s.parse::<u64>().is_ok() {
                "u64"
            } else if s.parse::<i128>().is_ok() {
                "i128"
            } else {
                "u128"
            };
            Operand { math: m, form }
        })
        .collect()
}

pub fn operands(tier: Tier) -> Vec<Operand> {
    let mut out = vec![];
    for m in int_points() {
        let s = m.to_string();
        let lits: [&'static str; 6] = ["lit", "lit_us", "lit_hex", "lit_HEX", "lit_oct", "lit_bin"];
        let mut forms: Vec<&'static str> = lits.to_vec();
        if s.parse::<i64>().is_ok() {
            forms.push("i64");
        }
        if s.parse::<u64>().is_ok() {
            forms.push("u64");
        }
        if s.parse::<i128>().is_ok() {
            forms.push("i128");
        }
        if s.parse::<u128>().is_ok() {
            forms.push("u128");
        }
        let n_native = forms.len();
        let serde_forms: Vec<&'static str> = forms[lits.len()..n_native]
            .iter()
            .map(|f| match *f {
                "i64" => "serde_i64",
                "u64" => "serde_u64",
                "i128" => "serde_i128",
                _ => "serde_u128",
            })
            .collect();
        if tier == Tier::Quick {
            // quick: literal + narrowest + widest representation
            let narrow = forms[lits.len()];
            let wide = *forms.last().unwrap();
            forms = lits.to_vec();
            forms.push(narrow);
            if wide != narrow {
                forms.push(wide);
            }
            // ... and the widest one through the serde bridge
            forms.push(*serde_forms.last().unwrap());
        } else {
            forms.extend(serde_forms);
        }
        for f in forms {
            // the literal spelling of -2^127 is `-(2^127)`, i.e. the unary-minus defect listed in
            // known_findings.json (pinned by an upstream snapshot); it is judged by check_neg only
            if f.starts_with("lit") && m.neg && m.bits() == 128 {
                continue;
            }
            out.push(Operand { math: m.clone(), form: f });
        }
    }
    out
}

const OPS: &[&str] = &["+", "-", "*", "//", "%", "**"];

fn in_i128(b: &Big) -> bool {
    b.fits_i128()
}

/// what the mathematics says: Some(exact) or None when undefined (division by zero) / not an integer
fn exact(op: &str, a: &Big, b: &Big) -> Result<Big, &'static str> {
    match op {
        "+" => Ok(a.add(b)),
        "-" => Ok(a.sub(b)),
        "*" => Ok(a.mul(b)),
        "//" => a.div_rem_euclid(b).map(|x| x.0).ok_or("undefined"),
        "%" => a.div_rem_euclid(b).map(|x| x.1).ok_or("undefined"),
        "**" => {
            if b.neg {
                return Err("not_integral");
            }
            match b.to_i128() {
                Some(e) if e <= 100_000 => a.pow(e as u64, 600).ok_or("huge"),
                _ => {
                    // astronomically large exponent: only 0, 1, -1 stay small
                    if a.is_zero() {
                        Ok(Big::zero())
                    } else if a.mag == [1] {
                        let odd = b.mag.first().map_or(false, |l| l & 1 == 1);
                        Ok(if a.neg && odd { Big::from_i128(-1) } else { Big::from_i128(1) })
                    } else {
                        Err("huge")
                    }
                }
            }
        }
        _ => unreachable!(),
    }
}

#[derive(Clone, Debug, PartialEq)]
enum Out {
    Int(String),
    Float(String),
    Other(String),
    Err(String),
    Panic(String),
}

fn eval(env: &Environment, src: &str, ctx: &BTreeMap<&str, Value>) -> Out {
    let r = catch(|| {
        let expr = env.compile_expression(src)?;
        expr.eval(Value::from_pairs(ctx.iter().map(|(k, v)| (k.to_string(), v.clone()))))
    });
    match r {
        Err(p) => Out::Panic(format!("{} at {}", p, last_panic_loc())),
        Ok(Err(e)) => Out::Err(e.to_string()),
        Ok(Ok(v)) => {
            if v.kind() == ValueKind::Number {
                if v.is_integer() {
                    Out::Int(v.to_string())
                } else {
                    Out::Float(format!("{:?}", f64::try_from(v.clone()).unwrap_or(f64::NAN)))
                }
            } else {
                Out::Other(format!("{:?}", v))
            }
        }
    }
}

fn range_class(b: &Big) -> &'static str {
    if in_i128(b) {
        if b.bits() <= 63 {
            "i64"
        } else {
            "i128"
        }
    } else {
        "beyond_i128"
    }
}

fn check_binop(env: &Environment, a: &Operand, b: &Operand, op: &str) -> (Out, Option<Failure>) {
    let mut ctx = BTreeMap::new();
    let at = if a.is_lit() {
        a.literal_text()
    } else {
        ctx.insert("x", a.value());
        "x".to_string()
    };
    let bt = if b.is_lit() {
        b.literal_text()
    } else {
        ctx.insert("y", b.value());
        "y".to_string()
    };
    let src = format!("{} {} {}", at, op, bt);
    let out = eval(env, &src, &ctx);
    let ex = exact(op, &a.math, &b.math);
    let case = format!("{}:{} {} {}:{}", a.form, a.math, op, b.form, b.math);
    let mk = |class: &str, detail: String| Failure {
        key: format!(
            "binop {} op={} lhs={}/{} rhs={}/{}",
            class,
            op,
            if a.is_lit() { "lit" } else { "var" },
            range_class(&a.math),
            if b.is_lit() { "lit" } else { "var" },
            range_class(&b.math)
        ),
        case: case.clone(),
        detail,
        replay: json!({"kind": "binop", "a": a.math.to_string(), "a_form": a.form, "b": b.math.to_string(), "b_form": b.form, "op": op}),
    };
    let must_be_exact = in_i128(&a.math) && in_i128(&b.math) && matches!(&ex, Ok(e) if in_i128(e));
    let fail = match (&out, &ex) {
        (Out::Panic(p), _) => Some(mk("panic", p.clone())),
        (Out::Int(s), Ok(e)) => {
            if Big::parse(s).as_ref() == Some(e) {
                None
            } else {
                Some(mk("wrong_integer", format!("{} = {} but engine returned {}", src, e, s)))
            }
        }
        (Out::Int(s), Err(why)) => Some(mk(
            "integer_for_undefined",
            format!("{} is {} but engine returned {}", src, why, s),
        )),
        (Out::Err(m), _) if must_be_exact => Some(mk(
            "error_in_range",
            format!("{} = {} fits i128 but engine failed: {}", src, ex.as_ref().unwrap(), m),
        )),
        (Out::Err(_), _) => None,
        (Out::Float(f), Err("not_integral")) => {
            let _ = f;
            None
        }
        (Out::Float(f), _) => Some(mk("float_for_integer_op", format!("{} returned float {}", src, f))),
        (Out::Other(o), _) => Some(mk("non_number", format!("{} returned {}", src, o))),
    };
    (out, fail)
}

fn check_neg(env: &Environment, a: &Operand) -> Option<Failure> {
    let mut ctx = BTreeMap::new();
    let src = if a.is_lit() {
        if a.math.neg {
            format!("-(-{})", a.math.abs())
        } else {
            format!("-{}", a.math)
        }
    } else {
        ctx.insert("x", a.value());
        "-x".to_string()
    };
    let out = eval(env, &src, &ctx);
    let ex = a.math.negate();
    let case = format!("neg {}:{}", a.form, a.math);
    let mk = |class: &str, detail: String| Failure {
        key: format!("neg {} operand={}/{}", class, if a.is_lit() { "lit" } else { "var" }, range_class(&a.math)),
        case: case.clone(),
        detail,
        replay: json!({"kind": "neg", "a": a.math.to_string(), "a_form": a.form}),
    };
    match out {
        Out::Panic(p) => Some(mk("panic", p)),
        Out::Int(s) => {
            if Big::parse(&s) == Some(ex.clone()) {
                None
            } else {
                Some(mk("wrong_integer", format!("{} = {} but engine returned {}", src, ex, s)))
            }
        }
        Out::Err(m) => {
            if in_i128(&a.math) && in_i128(&ex) {
                Some(mk("error_in_range", format!("{} = {} fits but engine failed: {}", src, ex, m)))
            } else {
                None
            }
        }
        Out::Float(f) => Some(mk("float_for_integer_op", format!("{} returned float {}", src, f))),
        Out::Other(o) => Some(mk("non_number", format!("{} returned {}", src, o))),
    }
}

// ---- floats -------------------------------------------------------------------------------

fn small_dyadics() -> Vec<f64> {
    vec![
        0.0, 0.25, -0.25, 0.5, -0.5, 1.0, -1.0, 1.5, -1.5, 2.0, -2.0, 2.5, -2.5, 3.0, -3.0, 7.5, -7.5, 8.0, -8.0, 100.0,
        -100.0, 0.75,
    ]
}

fn float_lit(f: f64) -> Option<String> {
    let s = format!("{:?}", f);
    if s.contains('e') || s.contains("inf") || s.contains("NaN") {
        return None;
    }
    Some(if f.is_sign_negative() { format!("({})", s) } else { s })
}

#[derive(Clone, Debug)]
enum Num {
    I(i64),
    F(f64),
}

impl Num {
    fn f(&self) -> f64 {
        match self {
            Num::I(i) => *i as f64,
            Num::F(f) => *f,
        }
    }
    fn val(&self) -> Value {
        match self {
            Num::I(i) => Value::from(*i),
            Num::F(f) => Value::from(*f),
        }
    }
    fn lit(&self) -> Option<String> {
        match self {
            Num::I(i) => Some(if *i < 0 { format!("({})", i) } else { i.to_string() }),
            Num::F(f) => float_lit(*f),
        }
    }
    fn name(&self) -> String {
        match self {
            Num::I(i) => format!("int {}", i),
            Num::F(f) => format!("float {:?}", f),
        }
    }
}

fn as_f(out: &Out) -> Option<f64> {
    match out {
        Out::Int(s) => s.parse::<f64>().ok(),
        Out::Float(s) => s.parse::<f64>().ok(),
        _ => None,
    }
}

fn check_euclid(env: &Environment, a: &Num, b: &Num, literal: bool, acc: &Acc) -> u64 {
    // both operand forms: variable / literal
    let mut ctx = BTreeMap::new();
    let (at, bt) = if literal {
        match (a.lit(), b.lit()) {
            (Some(x), Some(y)) => (x, y),
            _ => return 0,
        }
    } else {
        ctx.insert("x", a.val());
        ctx.insert("y", b.val());
        ("x".to_string(), "y".to_string())
    };
    let q = eval(env, &format!("{} // {}", at, bt), &ctx);
    let r = eval(env, &format!("{} % {}", at, bt), &ctx);
    let case = format!("euclid {} , {}{}", a.name(), b.name(), if literal { " lit" } else { "" });
    let kinds = format!(
        "{}/{}",
        if matches!(a, Num::I(_)) { "int" } else { "float" },
        if matches!(b, Num::I(_)) { "int" } else { "float" }
    );
    let mk = |class: &str, detail: String| Failure {
        key: format!("euclid {} operands={} dividend_sign={} divisor_sign={}", class, kinds,
            if a.f() < 0.0 { "neg" } else { "nonneg" }, if b.f() < 0.0 { "neg" } else { "pos" }),
        case: case.clone(),
        detail,
        replay: json!({"kind": "euclid", "a": a.f(), "a_int": matches!(a, Num::I(_)), "b": b.f(), "b_int": matches!(b, Num::I(_)), "literal": literal}),
    };
    for o in [&q, &r] {
        if let Out::Panic(p) = o {
            acc.fail(mk("panic", p.clone()));
            return 1;
        }
    }
    if let (Some(qf), Some(rf)) = (as_f(&q), as_f(&r)) {
        let af = a.f();
        let bf = b.f();
        if !(qf * bf + rf == af) {
            acc.fail(mk(
                "identity",
                format!("({a}//{b})*{b} + {a}%{b} = {q}*{b} + {r} != {a}", a = af, b = bf, q = qf, r = rf),
            ));
        } else if !(0.0 <= rf && rf < bf.abs()) {
            acc.fail(mk("remainder_range", format!("{} % {} = {} not in [0, {})", af, bf, rf, bf.abs())));
        }
    } else if matches!((&q, &r), (Out::Err(_), Out::Err(_))) {
        // both fail: allowed ("whenever both succeed")
    } else if as_f(&q).is_some() != as_f(&r).is_some() {
        acc.fail(mk("one_sided", format!("// gave {:?} but % gave {:?}", q, r)));
    }
    1
}

fn cmp_points_int() -> Vec<Big> {
    int_points()
}

fn cmp_points_float() -> Vec<f64> {
    vec![
        0.0, -0.0, 0.5, -0.5, 1.0, -1.0, 1.5, -1.5, 2147483648.0, 9007199254740992.0, 9007199254740994.0,
        -9007199254740992.0, 9223372036854775808.0, -9223372036854775808.0, 9223372036854774784.0,
        18446744073709551616.0, 18446744073709549568.0, 1.7014118346046923e38, -1.7014118346046923e38,
        3.402823669209385e38, 1e308, -1e308, f64::INFINITY, f64::NEG_INFINITY, 4294967296.5, -3.0, 3.0, 7.0, 10.0,
    ]
}

/// exact comparison of an integer with a finite-or-infinite float
fn exact_cmp(a: &Big, f: f64) -> std::cmp::Ordering {
    use std::cmp::Ordering::*;
    if f == f64::INFINITY {
        return Less;
    }
    if f == f64::NEG_INFINITY {
        return Greater;
    }
    let fl = f.floor();
    let fb = Big::from_f64_integral(fl).unwrap();
    match a.cmp(&fb) {
        Less => Less,
        Greater => Greater,
        Equal => {
            if f > fl {
                Less
            } else {
                Equal
            }
        }
    }
}

fn check_cmp(env: &Environment, a: &Operand, f: f64, acc: &Acc) -> u64 {
    use std::cmp::Ordering::*;
    let ord = exact_cmp(&a.math, f);
    let mut n = 0;
    for flipped in [false, true] {
        for (op, truth) in [
            ("<", ord == Less),
            ("<=", ord != Greater),
            ("==", ord == Equal),
            ("!=", ord != Equal),
            (">=", ord != Less),
            (">", ord == Greater),
        ] {
            // when flipped the expression is `f OP a`, so the truth is the mirror image
            let truth = if flipped {
                match op {
                    "<" => ord == Greater,
                    "<=" => ord != Less,
                    ">=" => ord != Greater,
                    ">" => ord == Less,
                    _ => truth,
                }
            } else {
                truth
            };
            let mut ctx = BTreeMap::new();
            let at = if a.is_lit() {
                a.literal_text()
            } else {
                ctx.insert("x", a.value());
                "x".into()
            };
            // floats: literal when printable and the int is a literal too, else variable
            let ft = match (a.is_lit(), float_lit(f)) {
                (true, Some(l)) => l,
                _ => {
                    ctx.insert("f", Value::from(f));
                    "f".into()
                }
            };
            let src = if flipped { format!("{} {} {}", ft, op, at) } else { format!("{} {} {}", at, op, ft) };
            n += 1;
            let r = catch(|| env.compile_expression(&src).and_then(|e| e.eval(Value::from_pairs(ctx.iter().map(|(k, v)| (k.to_string(), v.clone()))))));
            let case = format!("cmp {}:{} {} {:?}{}", a.form, a.math, op, f, if flipped { " flipped" } else { "" });
            let mk = |class: &str, detail: String| Failure {
                key: format!("cmp_int_float {} int={}/{} float_mag={}", class, if a.is_lit() { "lit" } else { "var" }, range_class(&a.math),
                    if f.is_infinite() { "inf" } else if f.abs() >= 9007199254740992.0 { ">=2^53" } else { "<2^53" }),
                case: case.clone(),
                detail,
                replay: json!({"kind": "cmp", "a": a.math.to_string(), "a_form": a.form, "f": format!("{:?}", f), "op": op, "flipped": flipped}),
            };
            match r {
                Err(p) => acc.fail(mk("panic", format!("{} at {}", p, last_panic_loc()))),
                Ok(Err(e)) => acc.fail(mk("error", format!("{} failed: {}", src, e))),
                Ok(Ok(v)) => {
                    let got = v.is_true();
                    if v.kind() != ValueKind::Bool || got != truth {
                        acc.fail(mk("wrong", format!("{} with x={} f={:?} gave {} but exact answer is {}", src, a.math, f, v, truth)));
                    }
                }
            }
        }
    }
    n
}

pub fn replay_case(j: &J) -> Option<Failure> {
    let env = Environment::new();
    let acc = Acc::new();
    let form = |s: &str| -> &'static str {
        match s {
            "lit" => "lit",
            "lit_us" => "lit_us",
            "lit_hex" => "lit_hex",
            "lit_HEX" => "lit_HEX",
            "lit_oct" => "lit_oct",
            "lit_bin" => "lit_bin",
            "i64" => "i64",
            "u64" => "u64",
            "i128" => "i128",
            "serde_i64" => "serde_i64",
            "serde_u64" => "serde_u64",
            "serde_i128" => "serde_i128",
            "serde_u128" => "serde_u128",
            _ => "u128",
        }
    };
    let num = |f: f64, is_int: bool| if is_int { Num::I(f as i64) } else { Num::F(f) };
    match j["kind"].as_str().unwrap() {
        "binop" => {
            let a = Operand { math: Big::parse(j["a"].as_str().unwrap()).unwrap(), form: form(j["a_form"].as_str().unwrap()) };
            let b = Operand { math: Big::parse(j["b"].as_str().unwrap()).unwrap(), form: form(j["b_form"].as_str().unwrap()) };
            let op = OPS.iter().find(|o| Some(**o) == j["op"].as_str()).unwrap();
            let (out, f) = check_binop(&env, &a, &b, op);
            println!("engine: {:?}; exact: {:?}", out, exact(op, &a.math, &b.math).map(|x| x.to_string()));
            f
        }
        "neg" => {
            let a = Operand { math: Big::parse(j["a"].as_str().unwrap()).unwrap(), form: form(j["a_form"].as_str().unwrap()) };
            check_neg(&env, &a)
        }
        "euclid" => {
            check_euclid(
                &env,
                &num(j["a"].as_f64().unwrap(), j["a_int"].as_bool().unwrap()),
                &num(j["b"].as_f64().unwrap(), j["b_int"].as_bool().unwrap()),
                j["literal"].as_bool().unwrap(),
                &acc,
            );
            take_first(&acc)
        }
        "cmp" => {
            let a = Operand { math: Big::parse(j["a"].as_str().unwrap()).unwrap(), form: form(j["a_form"].as_str().unwrap()) };
            let f: f64 = j["f"].as_str().unwrap().parse().unwrap();
            check_cmp(&env, &a, f, &acc);
            take_first(&acc)
        }
        "repr" => {
            println!("representation-dependence is a relation between runs; re-run ./check C08");
            None
        }
        _ => None,
    }
}

fn take_first(acc: &Acc) -> Option<Failure> {
    acc.take_failures().into_iter().next()
}

pub fn main(args: Args) -> i32 {
    let start_t = std::time::Instant::now();
    install_quiet_panic_hook();
    crate::big::self_test();
    if let Some(p) = &args.replay {
        let doc = load_replay(p);
        return match replay_case(&doc["replay"]) {
            None => {
                println!("replay: case passes");
                0
            }
            Some(f) => {
                println!("VIOLATION property=C08 replay={}  # {} :: {}", p, f.key, f.detail);
                1
            }
        };
    }
    let acc = Acc::new();
    let ops = operands(args.tier);
    let n = ops.len() as u64;
    // results per (a,b,op) across representations for the width-independence clause
    let table: std::sync::Mutex<BTreeMap<(String, String, &str), Vec<(String, Out)>>> = Default::default();
    par_chunks(n * n, 64, &acc, |r, l| {
        let env = Environment::new();
        let mut local: Vec<((String, String, &str), (String, Out))> = vec![];
        for idx in r {
            let a = &ops[(idx / n) as usize];
            let b = &ops[(idx % n) as usize];
            for op in OPS {
                l.evals += 1;
                let (out, f) = check_binop(&env, a, b, op);
                let oc = match &out {
                    Out::Int(_) => "int",
                    Out::Float(_) => "float",
                    Out::Err(_) => "error",
                    Out::Panic(_) => "panic",
                    Out::Other(_) => "other",
                };
                l.outcome(&format!("binop {} -> {}", op, oc));
                if let Out::Int(s) = &out {
                    l.nontrivial.insert(fnv(format!("{}|{}|{}|{}", a.math, op, b.math, s).as_bytes()));
                }
                if let Some(f) = f {
                    acc.fail(f);
                }
                local.push(((a.math.to_string(), b.math.to_string(), *op), (format!("{}/{}", a.form, b.form), out)));
            }
        }
        let mut t = table.lock().unwrap();
        for (k, v) in local {
            t.entry(k).or_default().push(v);
        }
    });
    // the power-of-two lattice (no representation table: one form per value)
    let lat = lattice_operands(args.tier);
    let nl = lat.len() as u64;
    acc.count("lattice_operands", nl);
    par_chunks(nl * nl, 256, &acc, |r, l| {
        let env = Environment::new();
        for idx in r {
            let a = &lat[(idx / nl) as usize];
            let b = &lat[(idx % nl) as usize];
            for op in OPS {
                l.evals += 1;
                let (out, f) = check_binop(&env, a, b, op);
                if let Out::Int(s) = &out {
                    l.nontrivial.insert(fnv(format!("{}|{}|{}|{}", a.math, op, b.math, s).as_bytes()));
                }
                l.outcome(&format!(
                    "binop {} -> {}",
                    op,
                    match &out {
                        Out::Int(_) => "int",
                        Out::Float(_) => "float",
                        Out::Err(_) => "error",
                        Out::Panic(_) => "panic",
                        Out::Other(_) => "other",
                    }
                ));
                if let Some(f) = f {
                    acc.fail(f);
                }
            }
        }
    });
    // width independence
    let table = table.into_inner().unwrap();
    for ((a, b, op), outs) in &table {
        let norm = |o: &Out| match o {
            Out::Err(_) => Out::Err(String::new()),
            other => other.clone(),
        };
        let first = norm(&outs[0].1);
        if let Some(other) = outs.iter().find(|(_, o)| norm(o) != first) {
            acc.fail(Failure {
                key: format!("binop representation_dependent op={} lhs={} rhs={}", op, range_class(&Big::parse(a).unwrap()), range_class(&Big::parse(b).unwrap())),
                case: format!("{} {} {}", a, op, b),
                detail: format!("forms {} -> {:?} but forms {} -> {:?}", outs[0].0, outs[0].1, other.0, other.1),
                replay: json!({"kind": "repr", "a": a, "b": b, "op": op}),
            });
        }
    }
    acc.count("width_independence_groups", table.len() as u64);
    // unary minus
    {
        let env = Environment::new();
        for a in &ops {
            acc.eval(1);
            if let Some(f) = check_neg(&env, a) {
                acc.fail(f);
            } else {
                acc.outcome("neg ok");
            }
        }
    }
    // Euclid for floats and mixed
    {
        let env = Environment::new();
        let mut nums: Vec<Num> = small_dyadics().into_iter().map(Num::F).collect();
        for i in [-8i64, -7, -3, -2, -1, 0, 1, 2, 3, 7, 8] {
            nums.push(Num::I(i));
        }
        for a in &nums {
            for b in &nums {
                if b.f() == 0.0 {
                    continue;
                }
                for lit in [false, true] {
                    let n = check_euclid(&env, a, b, lit, &acc);
                    acc.eval(n);
                    if n > 0 {
                        acc.outcome("euclid pair");
                    }
                }
            }
        }
    }
    // int/float comparison
    {
        let floats = cmp_points_float();
        let ops2: Vec<Operand> = operands(args.tier);
        let _ = cmp_points_int();
        par_items(&ops2, &acc, |_, a, l| {
            let env = Environment::new();
            for &f in &floats {
                let n = check_cmp(&env, a, f, &acc);
                l.evals += n;
                l.outcome(&format!("cmp {:?}", exact_cmp(&a.math, f)));
            }
        });
    }
    acc.sample(json!({"expr": "x * y", "x": "i128:-170141183460469231731687303715884105728", "y": "lit:(-1)", "exact": "170141183460469231731687303715884105728 (outside i128: error or exact allowed)"}));
    acc.sample(json!({"expr": "x // y and x % y", "x": -7.5, "y": 2, "law": "(x//y)*y + x%y == x and 0 <= x%y < |y|"}));
    acc.sample(json!({"expr": "x == f", "x": "i64:9223372036854775807", "f": "9223372036854775808.0", "exact": false}));
    finish(
        Finish {
            property: "C08",
            level: "exploration",
            tier: args.tier,
            seed: args.seed,
            rule: format!("all ordered pairs of {} integer operands ({} boundary points of [-2^127,2^128) in every representation that holds them: literal in 6 spellings (decimal, with digit separators, 0x / 0X / 0o / 0b), i64, u64, i128, u128{}) x 6 binary operators + unary minus, plus all ordered pairs of the power-of-two lattice (2^k, 2^k - 1, -2^k for every k in 0..=128; thorough also 2^k + 1 and the negated neighbours; narrowest representation) x 6 operators, adjudicated by an arbitrary-precision integer oracle (self-tested against i128 at start-up); same (a,b,op) across representations must agree; Euclid identity and range for all pairs of 33 small dyadic floats/ints in literal and variable form; 12 comparison forms for every integer operand x 29 floats against exact rational comparison. distinct non-trivial = distinct (a,op,b,integer result) tuples", operands(args.tier).len(), int_points().len(), if args.tier == Tier::Quick { "; quick keeps the literals + narrowest + widest" } else { "" }),
            exhaustive: true,
            bound: json!({"int_points": int_points().iter().map(|b| b.to_string()).collect::<Vec<_>>(), "ops": OPS}),
            assumptions: vec![
                "integers off the boundary alphabet are not explored".into(),
                "for ** with a negative exponent an error or a float is accepted (no integer result exists)".into(),
                "float Euclid clause uses dyadic rationals so that the identity is exact in f64".into(),
            ],
            extra: Default::default(),
            start: start_t,
        },
        &acc,
    )
}
