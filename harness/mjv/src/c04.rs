//! C04 — compile-time evaluation is transparent: for every expression over the literal syntax and
//! every subset of its literal occurrences hoisted into context variables, status and output agree;
//! failing constant expressions are reported only when executed.
use crate::core::*;
use minijinja::value::Value;
use minijinja::Environment;
use serde_json::{json, Value as J};

#[derive(Clone, Debug)]
enum E {
    Lit(usize),                  // index into the literal pool
    Un(&'static str, Box<E>),    // "-" | "not "
    Bin(&'static str, Box<E>, Box<E>),
    Chain(Box<E>, &'static str, Box<E>, &'static str, Box<E>),
    List(Vec<E>),
    Tuple(Vec<E>),
    Map(Box<E>, Box<E>),
    /// two-entry map display {k1: v1, k2: v2}: the keys may coincide
    Map2(Box<E>, Box<E>, Box<E>, Box<E>),
    DictKw(Box<E>),              // dict(a=L)
    SortKw(Box<E>),              // [2, 1]|sort(reverse=L)
}

const LITS: &[&str] = &[
    "0", "1", "2", "1.5", "''", "'a'", "true", "none", "[1]", "9223372036854775808", "false", "0.0", "[]", "{}",
    "18446744073709551615", "170141183460469231731687303715884105728",
];
const BIG: &[usize] = &[9, 14, 15];
const NON_NUMBER: &[usize] = &[4, 5, 7, 8, 12, 13];

const OPS_ALL: &[&str] = &["+", "-", "*", "/", "//", "%", "**", "~", "and", "or", "in", "not in", "==", "!=", "<", "<=", ">", ">=", "[]"];
const OPS_CORE: &[&str] = &["+", "-", "*", "//", "%", "~", "and", "or", "in", "==", "<", "[]"];

impl E {
    /// source text; `hoist` says for the k-th literal occurrence (left to right) whether it is
    /// replaced by the variable `vK`
    fn src(&self, hoist: u32, counter: &mut u32) -> String {
        match self {
            E::Lit(i) => {
                let k = *counter;
                *counter += 1;
                if hoist & (1 << k) != 0 {
                    format!("v{}", k)
                } else {
                    LITS[*i].to_string()
                }
            }
            E::Un(op, a) => format!("({}{})", op, a.src(hoist, counter)),
            E::Bin("|length", a, b) => {
                let l = a.src(hoist, counter);
                // the right operand is a dummy literal (keeps the occurrence numbering simple)
                let r = b.src(hoist, counter);
                format!("(({})|length + {})", l, r)
            }
            E::Bin("[]", a, b) => {
                let l = a.src(hoist, counter);
                let r = b.src(hoist, counter);
                format!("({}[{}])", l, r)
            }
            E::Bin("|default", a, b) => {
                let l = a.src(hoist, counter);
                let r = b.src(hoist, counter);
                format!("(({})|default({}))", l, r)
            }
            E::Bin(" is defined", a, b) => {
                let l = a.src(hoist, counter);
                let r = b.src(hoist, counter);
                format!("[{} is defined, {}]", l, r)
            }
            E::Bin(" if ", a, b) => {
                let l = a.src(hoist, counter);
                let r = b.src(hoist, counter);
                format!("({} if {} else 9)", r, l)
            }
            E::Bin(op, a, b) => {
                let l = a.src(hoist, counter);
                let r = b.src(hoist, counter);
                format!("({} {} {})", l, op, r)
            }
            E::Chain(a, o1, b, o2, c) => {
                let x = a.src(hoist, counter);
                let y = b.src(hoist, counter);
                let z = c.src(hoist, counter);
                format!("({} {} {} {} {})", x, o1, y, o2, z)
            }
            E::List(xs) => format!("[{}]", xs.iter().map(|x| x.src(hoist, counter)).collect::<Vec<_>>().join(", ")),
            E::Tuple(xs) => format!("({},)", xs.iter().map(|x| x.src(hoist, counter)).collect::<Vec<_>>().join(", ")),
            E::Map(k, v) => {
                let ks = k.src(hoist, counter);
                let vs = v.src(hoist, counter);
                format!("{{{}: {}}}", ks, vs)
            }
            E::Map2(k1, v1, k2, v2) => {
                let a = k1.src(hoist, counter);
                let b = v1.src(hoist, counter);
                let c = k2.src(hoist, counter);
                let d = v2.src(hoist, counter);
                format!("{{{}: {}, {}: {}}}", a, b, c, d)
            }
            E::DictKw(a) => format!("dict(a={})", a.src(hoist, counter)),
            E::SortKw(a) => format!("[2, 1]|sort(reverse={})", a.src(hoist, counter)),
        }
    }
    fn lits(&self, out: &mut Vec<usize>) {
        match self {
            E::Lit(i) => out.push(*i),
            E::Un(_, a) | E::DictKw(a) | E::SortKw(a) => a.lits(out),
            E::Bin(_, a, b) | E::Map(a, b) => {
                a.lits(out);
                b.lits(out);
            }
            E::Chain(a, _, b, _, c) => {
                a.lits(out);
                b.lits(out);
                c.lits(out);
            }
            E::Map2(a, b, c, d) => {
                a.lits(out);
                b.lits(out);
                c.lits(out);
                d.lits(out);
            }
            E::List(xs) | E::Tuple(xs) => xs.iter().for_each(|x| x.lits(out)),
        }
    }
    fn has_op(&self, ops: &[&str]) -> bool {
        match self {
            E::Lit(_) => false,
            E::Un(_, a) | E::DictKw(a) | E::SortKw(a) => a.has_op(ops),
            E::Bin(op, a, b) => ops.contains(op) || a.has_op(ops) || b.has_op(ops),
            E::Map(a, b) => a.has_op(ops) || b.has_op(ops),
            E::Chain(a, _, b, _, c) => a.has_op(ops) || b.has_op(ops) || c.has_op(ops),
            E::Map2(a, b, c, d) => a.has_op(ops) || b.has_op(ops) || c.has_op(ops) || d.has_op(ops),
            E::List(xs) | E::Tuple(xs) => xs.iter().any(|x| x.has_op(ops)),
        }
    }
}

/// repetition of a sequence by an astronomically large count is lazy and would never finish
/// printing; such expressions are outside the enumerated space (C01 covers their crash behaviour)
fn admissible(e: &E) -> bool {
    if e.has_op(&["*", "**"]) {
        let mut l = vec![];
        e.lits(&mut l);
        if l.iter().any(|i| BIG.contains(i)) && l.iter().any(|i| NON_NUMBER.contains(i)) {
            return false;
        }
    }
    true
}

fn depth1(pool: &[usize], ops: &[&'static str]) -> Vec<E> {
    let mut v = vec![];
    for &a in pool {
        v.push(E::Un("-", Box::new(E::Lit(a))));
        v.push(E::Un("not ", Box::new(E::Lit(a))));
        v.push(E::DictKw(Box::new(E::Lit(a))));
        v.push(E::SortKw(Box::new(E::Lit(a))));
        for &b in pool {
            for op in ops {
                v.push(E::Bin(op, Box::new(E::Lit(a)), Box::new(E::Lit(b))));
            }
            v.push(E::List(vec![E::Lit(a), E::Lit(b)]));
            v.push(E::Tuple(vec![E::Lit(a), E::Lit(b)]));
            v.push(E::Map(Box::new(E::Lit(a)), Box::new(E::Lit(b))));
        }
    }
    v
}

/// map displays with two entries over all pairs of hashable literals (equal keys included: identical
/// and equal across kinds such as 1 / 1.0 / true), plus lists holding such maps
fn map_displays() -> Vec<E> {
    let keys = [0usize, 1, 2, 3, 4, 5, 6, 10, 11, 7];
    let lit = |i: usize| Box::new(E::Lit(i));
    let mut v = vec![];
    for &k1 in &keys {
        for &k2 in &keys {
            v.push(E::Map2(lit(k1), lit(1), lit(k2), lit(2)));
            v.push(E::Bin("==", Box::new(E::Map2(lit(k1), lit(1), lit(k2), lit(2))), Box::new(E::Map(lit(k1), lit(2)))));
            v.push(E::List(vec![E::Map2(lit(k1), lit(5), lit(k2), lit(8))]));
        }
    }
    v
}

/// displays whose items are themselves operator expressions over literals (the folder has to
/// evaluate every item; an item that fails must make the display fail like it does at run time)
fn displays_of_operations(pool: &[usize], core: &[usize]) -> Vec<E> {
    let lit = |i: usize| Box::new(E::Lit(i));
    let mut v = vec![];
    for &a in pool {
        for un in ["-", "not "] {
            for &b in core {
                v.push(E::List(vec![E::Un(un, lit(a)), E::Lit(b)]));
                v.push(E::List(vec![E::Lit(b), E::Un(un, lit(a))]));
                v.push(E::Tuple(vec![E::Un(un, lit(a)), E::Lit(b)]));
                v.push(E::Map(lit(b), Box::new(E::Un(un, lit(a)))));
                v.push(E::Map(Box::new(E::Un(un, lit(a))), lit(b)));
            }
            v.push(E::List(vec![E::Un(un, lit(a))]));
            v.push(E::DictKw(Box::new(E::Un(un, lit(a)))));
            v.push(E::Bin("|length", Box::new(E::List(vec![E::Un(un, lit(a)), E::Lit(1)])), lit(0)));
        }
    }
    for &a in core {
        for &b in core {
            for op in ["+", "//", "~", "in", "<", "**"] {
                v.push(E::List(vec![E::Bin(op, lit(a), lit(b)), E::Lit(1)]));
                v.push(E::Tuple(vec![E::Lit(1), E::Bin(op, lit(a), lit(b))]));
                v.push(E::Map(lit(5), Box::new(E::Bin(op, lit(a), lit(b)))));
            }
        }
    }
    v
}

/// subscripts of displays and of literals, with keys that are present and keys that are missing,
/// used as an operand of a further operation: what a missing item is (an undefined value) and what
/// the next operation makes of it must not depend on who evaluates it
fn subscripts_of_displays() -> Vec<E> {
    let lit = |i: usize| Box::new(E::Lit(i));
    let items = [0usize, 1, 5, 7, 6]; // 0, 1, 'a', none, true
    let keys = [0usize, 1, 2, 5, 7, 6];
    let others = [1usize, 5, 7, 12]; // 1, 'a', none, []
    let mut subjects: Vec<E> = vec![];
    for &a in &items {
        for &b in &items {
            subjects.push(E::List(vec![E::Lit(a), E::Lit(b)]));
            subjects.push(E::Tuple(vec![E::Lit(a), E::Lit(b)]));
            subjects.push(E::Map(lit(a), lit(b)));
        }
        subjects.push(E::List(vec![E::Lit(a)]));
    }
    for i in [4usize, 5, 8, 12, 13, 0, 7] {
        subjects.push(E::Lit(i)); // '', 'a', [1], [], {}, 0, none
    }
    let mut v = vec![];
    for subj in &subjects {
        for &k in &keys {
            let x = || Box::new(E::Bin("[]", Box::new(subj.clone()), lit(k)));
            v.push(*x());
            v.push(E::Un("not ", x()));
            v.push(E::Un("-", x()));
            v.push(E::List(vec![*x()]));
            for &d in &others {
                for op in ["==", "!=", "<", ">=", "in", "and", "or", "~", "+", "|default", " is defined", " if ", "[]"] {
                    v.push(E::Bin(op, x(), lit(d)));
                }
                for op in ["==", "<", "in", "and", "or", "~"] {
                    v.push(E::Bin(op, lit(d), x()));
                }
                v.push(E::Chain(lit(d), "<", x(), "<", lit(d)));
                v.push(E::Chain(lit(d), "==", x(), "!=", lit(d)));
                v.push(E::Chain(x(), "<=", lit(d), "<", lit(d)));
                v.push(E::Map(lit(d), x()));
            }
        }
    }
    v
}

fn depth2(pool: &[usize], ops: &[&'static str]) -> Vec<E> {
    let mut v = vec![];
    let lit = |i: usize| Box::new(E::Lit(i));
    for &a in pool {
        for &b in pool {
            for &c in pool {
                for o1 in ops {
                    for o2 in ops {
                        v.push(E::Bin(o2, Box::new(E::Bin(o1, lit(a), lit(b))), lit(c)));
                        v.push(E::Bin(o2, lit(a), Box::new(E::Bin(o1, lit(b), lit(c)))));
                    }
                }
                for (o1, o2) in [("<", "<"), ("<", "<="), ("==", "=="), ("<", "=="), (">", "!="), ("in", "=="), ("<=", "in")] {
                    v.push(E::Chain(lit(a), o1, lit(b), o2, lit(c)));
                }
                v.push(E::List(vec![E::Bin("+", lit(a), lit(b)), E::Lit(c)]));
                v.push(E::Bin("in", lit(a), Box::new(E::List(vec![E::Lit(b), E::Lit(c)]))));
                v.push(E::Un("not ", Box::new(E::Bin("and", lit(a), Box::new(E::Un("-", lit(b)))))));
                v.push(E::Un("-", Box::new(E::Bin("or", lit(a), Box::new(E::Bin("*", lit(b), lit(c)))))));
            }
        }
    }
    v
}

const MODES: [minijinja::UndefinedBehavior; 4] = [minijinja::UndefinedBehavior::Lenient, minijinja::UndefinedBehavior::Chainable, minijinja::UndefinedBehavior::SemiStrict, minijinja::UndefinedBehavior::Strict];
const MODE_NAMES: [&str; 4] = ["lenient", "chainable", "semi_strict", "strict"];
thread_local! { static MODE_NOW: std::cell::Cell<usize> = const { std::cell::Cell::new(0) }; }

#[derive(Clone, Debug, PartialEq)]
enum Out {
    Ok(String),
    Err,
    CompileErr,
    Panic,
}

fn show(v: &Value) -> String {
    format!("{}:{}{}", v.kind(), v, if v.is_safe() { ":safe" } else { "" })
}

fn eval(env: &Environment, src: &str, ctx: &[(String, Value)]) -> Out {
    match catch(|| {
        let expr = match env.compile_expression(src) {
            Ok(e) => e,
            Err(_) => return Out::CompileErr,
        };
        match expr.eval(Value::from_pairs(ctx.iter().cloned())) {
            Ok(v) => Out::Ok(show(&v)),
            Err(_) => Out::Err,
        }
    }) {
        Ok(o) => o,
        Err(_) => Out::Panic,
    }
}

fn check_expr(env: &Environment, lit_values: &[Value], e: &E, acc: &Acc, l: &mut Local) {
    let mut lits = vec![];
    e.lits(&mut lits);
    let k = lits.len() as u32;
    let folded_src = e.src(0, &mut 0);
    let folded = eval(env, &folded_src, &[]);
    l.evals += 1;
    l.outcome(match &folded {
        Out::Ok(_) => "folded ok",
        Out::Err => "folded runtime error",
        Out::CompileErr => "folded compile error",
        Out::Panic => "folded panic",
    });
    let ops_class = |e: &E| -> String {
        match e {
            E::Bin(op, ..) => format!("binop[{}]", op),
            E::Un(op, _) => format!("unary[{}]", op.trim()),
            E::Chain(..) => "chain".into(),
            E::List(_) => "list".into(),
            E::Tuple(_) => "tuple".into(),
            E::Map(..) => "map".into(),
            E::Map2(..) => "map2".into(),
            E::DictKw(_) => "kwarg[dict]".into(),
            E::SortKw(_) => "kwarg[sort]".into(),
            E::Lit(_) => "literal".into(),
        }
    };
    let mode = MODE_NOW.with(|m| m.get());
    let mk = |clause: &str, detail: String, hoist: u32| Failure {
        key: format!("{} outer={}{}", clause, ops_class(e), if mode == 0 { String::new() } else { format!(" undefined={}", MODE_NAMES[mode]) }).trim().to_string(),
        case: format!("{} hoist={:b}{}", folded_src, hoist, if mode == 0 { String::new() } else { format!(" {}", MODE_NAMES[mode]) }),
        detail,
        replay: json!({"expr": folded_src, "hoist": hoist, "lits": lits, "mode": mode}),
    };
    if folded == Out::CompileErr {
        // clause 2: a constant expression may not fail at load time
        acc.fail(mk("load_time_failure", format!("compile_expression({:?}) failed", folded_src), 0));
        return;
    }
    if matches!(folded, Out::Ok(_)) {
        l.nontrivial.insert(fnv(folded_src.as_bytes()));
    }
    for hoist in 1..(1u32 << k) {
        let src = e.src(hoist, &mut 0);
        let ctx: Vec<(String, Value)> = (0..k).filter(|i| hoist & (1 << i) != 0).map(|i| (format!("v{}", i), lit_values[lits[i as usize]].clone())).collect();
        let got = eval(env, &src, &ctx);
        l.evals += 1;
        if got != folded {
            let clause = match (&folded, &got) {
                (Out::Ok(_), Out::Ok(_)) => "output_differs",
                (Out::Ok(_), _) => "literal_ok_variable_fails",
                (_, Out::Ok(_)) => "literal_fails_variable_ok",
                _ => "failure_mode_differs",
            };
            acc.fail(mk(clause, format!("{} -> {:?} but {} with {:?} -> {:?}", folded_src, folded, src, ctx.iter().map(|(k, v)| format!("{}={}", k, show(v))).collect::<Vec<_>>(), got), hoist));
        }
    }
    // clause 2: failing constants are reported only when executed
    if matches!(folded, Out::Err | Out::Panic) {
        l.evals += 1;
        let tsrc = format!("{{% if false %}}{{{{ {} }}}}{{% endif %}}ok", folded_src);
        let r = catch(|| env.render_str(&tsrc, ()));
        match r {
            Ok(Ok(s)) if s == "ok" => {}
            other => acc.fail(mk("dead_code_failure_reported", format!("{:?} -> {:?}", tsrc, other.map(|x| x.map_err(|e| e.to_string()))), 0)),
        }
    }
}

/// Long displays and pairs of displays in one template: N items for N around the sizes at which
/// containers and pools change strategy, item spellings that are equal across kinds (1 / 1.0 / true),
/// lists, tuples and maps (also with the entries in reverse order), two displays side by side in 9
/// contexts.  One item, or a whole display, is hoisted into a variable; the render must not change.
fn long_displays(acc: &Acc, tier: Tier) {
    let sizes: Vec<usize> = tier.pick(vec![1, 2, 3, 7, 8, 9, 16, 17, 32, 33, 64, 65], vec![1, 2, 3, 4, 5, 6, 7, 8, 9, 10, 15, 16, 17, 31, 32, 33, 63, 64, 65, 100, 127, 128, 129, 255, 256, 257]);
    // item spellings by 1-based index
    let kinds: [(&str, fn(usize) -> String); 5] = [
        ("int", |i| format!("{}", i)),
        ("float", |i| format!("{}.0", i)),
        ("mixed", |i| if i == 1 { "true".to_string() } else if i % 2 == 0 { format!("{}", i) } else { format!("{}.0", i) }),
        ("str", |i| format!("'{}'", i)),
        ("nested", |i| format!("[{}]", i)),
    ];
    let shapes: [&str; 5] = ["list", "tuple", "map", "revmap", "strlen"];
    let contexts: [&str; 9] = [
        "{{ [A, B] }}", "{{ A }}|{{ B }}", "{{ A == B }}|{{ A != B }}", "{{ A is sameas(B) }}", "{{ A ~ B }}", "{% set a = A %}{% set b = B %}{{ a }}|{{ b }}",
        "{{ {'a': A, 'b': B} }}", "{% for x in A %}{{ x }},{% endfor %}|{% for x in B %}{{ x }},{% endfor %}", "{{ A|string|length }}|{{ B|last }}{{ (A, B)|length }}",
    ];
    let display = |shape: &str, kind: usize, n: usize, hoisted_item: Option<usize>, var: &str| -> String {
        let item = |i: usize| if hoisted_item == Some(i) { var.to_string() } else { (kinds[kind].1)(i) };
        match shape {
            "list" => format!("[{}]", (1..=n).map(item).collect::<Vec<_>>().join(", ")),
            "tuple" => format!("({},)", (1..=n).map(item).collect::<Vec<_>>().join(", ")),
            "map" => format!("{{{}}}", (1..=n).map(|i| format!("{}: {}", i, item(i))).collect::<Vec<_>>().join(", ")),
            "revmap" => format!("{{{}}}", (1..=n).rev().map(|i| format!("{}: {}", i, item(i))).collect::<Vec<_>>().join(", ")),
            // one string literal of n characters (the "item" is the whole literal)
            _ => if hoisted_item.is_some() { var.to_string() } else { format!("'{}'", "x".repeat(n)) },
        }
    };
    let mut cases: Vec<(usize, usize, usize, usize, usize, usize)> = vec![];
    for (ni, _) in sizes.iter().enumerate() {
        for sa in 0..shapes.len() {
            for sb in 0..shapes.len() {
                // strings pair only with strings; revmap only as the partner of a map
                if (shapes[sa] == "strlen") != (shapes[sb] == "strlen") || shapes[sa] == "revmap" || (shapes[sb] == "revmap" && shapes[sa] != "map") {
                    continue;
                }
                for ka in 0..kinds.len() {
                    for kb in 0..kinds.len() {
                        if shapes[sa] == "strlen" && (ka > 0 || kb > 0) {
                            continue;
                        }
                        for ci in 0..contexts.len() {
                            cases.push((ni, sa, sb, ka, kb, ci));
                        }
                    }
                }
            }
        }
    }
    acc.count("long_display_programs", cases.len() as u64);
    par_chunks(cases.len() as u64, 32, acc, |r, l| {
        let env = Environment::new();
        let render = |src: &str, ctx: &[(String, Value)]| -> Out {
            match catch(|| match env.template_from_str(src) {
                Err(_) => Out::CompileErr,
                Ok(t) => match t.render(Value::from_pairs(ctx.iter().cloned())) {
                    Ok(s) => Out::Ok(s),
                    Err(_) => Out::Err,
                },
            }) {
                Ok(o) => o,
                Err(_) => Out::Panic,
            }
        };
        let value_of = |src: &str| -> Option<Value> { env.compile_expression(src).ok().and_then(|e| e.eval(()).ok()) };
        for i in r {
            let (ni, sa, sb, ka, kb, ci) = cases[i as usize];
            let n = sizes[ni];
            let a_lit = display(shapes[sa], ka, n, None, "");
            let b_lit = display(shapes[sb], kb, n, None, "");
            let lit_src = contexts[ci].replace('A', &a_lit).replace('B', &b_lit);
            let folded = render(&lit_src, &[]);
            l.evals += 1;
            l.outcome(match &folded {
                Out::Ok(_) => "long display ok",
                Out::Err => "long display runtime error",
                Out::CompileErr => "long display compile error",
                Out::Panic => "long display panic",
            });
            if matches!(folded, Out::Ok(_)) {
                l.nontrivial.insert(fnv(lit_src.as_bytes()));
            }
            // hoists: first / middle / last item of A, of B; the whole of A, of B, of both
            let mut hoists: Vec<(String, String, Vec<(String, String)>)> = vec![];
            for pos in [1usize, (n + 1) / 2, n] {
                hoists.push((display(shapes[sa], ka, n, Some(pos), "v0"), b_lit.clone(), vec![("v0".into(), if shapes[sa] == "strlen" { a_lit.clone() } else { (kinds[ka].1)(pos) })]));
                hoists.push((a_lit.clone(), display(shapes[sb], kb, n, Some(pos), "v1"), vec![("v1".into(), if shapes[sb] == "strlen" { b_lit.clone() } else { (kinds[kb].1)(pos) })]));
            }
            hoists.push(("v0".into(), b_lit.clone(), vec![("v0".into(), a_lit.clone())]));
            hoists.push((a_lit.clone(), "v1".into(), vec![("v1".into(), b_lit.clone())]));
            hoists.push(("v0".into(), "v1".into(), vec![("v0".into(), a_lit.clone()), ("v1".into(), b_lit.clone())]));
            hoists.dedup();
            for (a, b, binds) in hoists {
                let src = contexts[ci].replace('A', &a).replace('B', &b);
                let ctx: Vec<(String, Value)> = binds.iter().filter_map(|(k, v)| value_of(v).map(|v| (k.clone(), v))).collect();
                if ctx.len() != binds.len() {
                    continue;
                }
                let got = render(&src, &ctx);
                l.evals += 1;
                if got != folded {
                    let clause = match (&folded, &got) {
                        (Out::Ok(_), Out::Ok(_)) => "output_differs",
                        (Out::CompileErr, _) => "load_time_failure",
                        (Out::Ok(_), _) => "literal_ok_variable_fails",
                        (_, Out::Ok(_)) => "literal_fails_variable_ok",
                        _ => "failure_mode_differs",
                    };
                    acc.fail(Failure {
                        key: format!("{} long_displays context={} shapes={}/{}", clause, contexts[ci], shapes[sa], shapes[sb]),
                        case: format!("n={} kinds={}/{} {} vs {}", n, kinds[ka].0, kinds[kb].0, lit_src, src),
                        detail: format!("{} -> {:?} but {} with {:?} -> {:?}", lit_src, folded, src, binds, got),
                        replay: json!({"long_literal": lit_src, "long_hoisted": src, "binds": binds}),
                    });
                }
            }
        }
    });
}

pub fn main(args: Args) -> i32 {
    let start_t = std::time::Instant::now();
    install_quiet_panic_hook();
    let env0 = Environment::new();
    let lit_values: Vec<Value> = LITS.iter().map(|l| env0.compile_expression(l).unwrap().eval(()).unwrap()).collect();
    let acc = Acc::new();
    if let Some(p) = &args.replay {
        let doc = load_replay(p);
        let j: &J = &doc["replay"];
        if let Some(lit_src) = j["long_literal"].as_str() {
            let render = |src: &str, ctx: Value| -> Out {
                match catch(|| match env0.template_from_str(src) {
                    Err(_) => Out::CompileErr,
                    Ok(t) => match t.render(ctx) {
                        Ok(s) => Out::Ok(s),
                        Err(_) => Out::Err,
                    },
                }) {
                    Ok(o) => o,
                    Err(_) => Out::Panic,
                }
            };
            let ctx: Vec<(String, Value)> = j["binds"].as_array().unwrap().iter().map(|b| (b[0].as_str().unwrap().to_string(), env0.compile_expression(b[1].as_str().unwrap()).unwrap().eval(()).unwrap())).collect();
            let a = render(lit_src, Value::from(()));
            let b = render(j["long_hoisted"].as_str().unwrap(), Value::from_pairs(ctx));
            println!("literal form -> {:?}\nhoisted form -> {:?}", a, b);
            return if a == b {
                println!("replay: case passes");
                0
            } else {
                println!("VIOLATION property=C04 replay={}  # {:?} vs {:?}", p, a, b);
                1
            };
        }
        if let Some(lit_src) = j["site_literal"].as_str() {
            let render = |src: &str, ctx: Value| -> Out {
                match catch(|| match env0.template_from_str(src) {
                    Err(_) => Out::CompileErr,
                    Ok(t) => match t.render(ctx) {
                        Ok(s) => Out::Ok(s),
                        Err(_) => Out::Err,
                    },
                }) {
                    Ok(o) => o,
                    Err(_) => Out::Panic,
                }
            };
            let hoist = j["hoist"].as_u64().unwrap();
            let mut ctx = vec![];
            if hoist & 1 != 0 {
                ctx.push(("v0".to_string(), lit_values[j["v0"].as_u64().unwrap() as usize].clone()));
            }
            if hoist & 2 != 0 {
                ctx.push(("v1".to_string(), lit_values[j["v1"].as_u64().unwrap() as usize].clone()));
            }
            let a = render(lit_src, Value::from(()));
            let b = render(j["site_hoisted"].as_str().unwrap(), Value::from_pairs(ctx));
            println!("literal form -> {:?}\nhoisted form -> {:?}", a, b);
            return if a == b {
                println!("replay: case passes");
                0
            } else {
                println!("VIOLATION property=C04 replay={}  # {:?} vs {:?}", p, a, b);
                1
            };
        }
        let src = j["expr"].as_str().unwrap();
        let hoist = j["hoist"].as_u64().unwrap() as u32;
        let mut env0 = Environment::new();
        env0.set_undefined_behavior(MODES[j["mode"].as_u64().unwrap_or(0) as usize]);
        let lits: Vec<usize> = j["lits"].as_array().unwrap().iter().map(|x| x.as_u64().unwrap() as usize).collect();
        // rebuild the hoisted source textually: replace the k-th literal occurrence left to right
        let folded = eval(&env0, src, &[]);
        println!("literal form {:?} -> {:?}", src, folded);
        let mut pos = 0usize;
        let mut hsrc = String::new();
        let mut ctx = vec![];
        let mut rest = src;
        for (k, li) in lits.iter().enumerate() {
            let lit = LITS[*li];
            let at = rest.find(lit).unwrap();
            hsrc.push_str(&rest[..at]);
            if hoist & (1 << k) != 0 {
                hsrc.push_str(&format!("v{}", k));
                ctx.push((format!("v{}", k), lit_values[*li].clone()));
            } else {
                hsrc.push_str(lit);
            }
            rest = &rest[at + lit.len()..];
            pos += at + lit.len();
        }
        let _ = pos;
        hsrc.push_str(rest);
        let got = eval(&env0, &hsrc, &ctx);
        println!("hoisted form {:?} -> {:?}", hsrc, got);
        return if got == folded && folded != Out::CompileErr {
            println!("replay: case passes");
            0
        } else {
            println!("VIOLATION property=C04 replay={}  # {:?} vs {:?}", p, folded, got);
            1
        };
    }
    let full_pool: Vec<usize> = (0..LITS.len()).collect();
    let core_pool: Vec<usize> = (0..args.tier.pick(8usize, 11usize)).collect();
    let mut exprs = depth1(&full_pool, OPS_ALL);
    exprs.extend(map_displays());
    exprs.extend(displays_of_operations(&full_pool, &core_pool));
    exprs.extend(subscripts_of_displays());
    let d1 = exprs.len();
    exprs.extend(depth2(&core_pool, args.tier.pick(OPS_CORE, OPS_ALL)));
    let before = exprs.len();
    exprs.retain(admissible);
    acc.count("expressions_depth1", d1 as u64);
    acc.count("expressions_total", exprs.len() as u64);
    acc.count("expressions_excluded_lazy_repeat", (before - exprs.len()) as u64);
    // the whole space under every undefined behaviour: what an undefined operand does depends on the
    // mode, and the compile-time evaluator has to agree with the run-time in each of them
    let n_exprs = exprs.len() as u64;
    par_chunks(n_exprs * 4, 512, &acc, |r, l| {
        let envs: Vec<Environment> = MODES.iter().map(|m| { let mut e = Environment::new(); e.set_undefined_behavior(*m); e }).collect();
        for i in r {
            MODE_NOW.with(|m| m.set((i / n_exprs) as usize));
            check_expr(&envs[(i / n_exprs) as usize], &lit_values, &exprs[(i % n_exprs) as usize], &acc, l);
        }
    });
    // sites: the places of the language that take expressions or arguments - positional, keyword and
    // mixed calls of macros, call blocks, filters, tests, functions and filter blocks, statement heads,
    // subscripts, defaults - with literals in one or two argument slots; every non-empty subset of the
    // slots is hoisted and the whole render must agree
    {
        const POOL: &[usize] = &[0, 1, 2, 3, 4, 5, 6, 7, 8, 10];
        const PRE: &str = "{% macro m(a=7, b=8) %}[{{ a }}|{{ b }}]{% endmacro %}{% macro mc(a=7, b=8) %}<{{ a }}|{{ b }}|{{ caller() }}>{% endmacro %}{% macro mx(a=7) %}<{{ a }}|{{ caller(a) }}>{% endmacro %}";
        const SITES: &[&str] = &[
            "{{ m(L0, L1) }}", "{{ m(a=L0, b=L1) }}", "{{ m(L0, b=L1) }}", "{{ m(b=L0) }}", "{{ m(*[L0, L1]) }}", "{{ m(**{'a': L0, 'b': L1}) }}", "{{ m(L0, **{'b': L1}) }}",
            "{% call m(L0, L1) %}x{% endcall %}", "{% call m(a=L0) %}x{% endcall %}",
            "{% call mc(L0, L1) %}x{% endcall %}", "{% call mc(a=L0, b=L1) %}x{% endcall %}", "{% call mc(L0, b=L1) %}x{% endcall %}", "{% call mc(b=L0) %}x{% endcall %}", "{% call mc() %}{{ L0 }}{% endcall %}",
            "{% call(q) mx(a=L0) %}{{ q }}{{ L1 }}{% endcall %}", "{% call(q) mx(L0) %}{{ q }}{% endcall %}", "{% call(q=L1) mx(a=L0) %}{{ q }}{% endcall %}",
            "{{ L0|default(L1) }}", "{{ L0|default(L1, true) }}", "{{ L0|default(L1, boolean=true) }}", "{{ 1.2345|round(L0) }}", "{{ 1.2345|round(precision=L0, method='floor') }}", "{{ 'abcdef'|truncate(length=L0, killwords=L1, leeway=0) }}",
            "{{ [3, 1, 2]|sort(reverse=L0) }}", "{{ [3, 1, 2]|batch(L0, fill_with=L1)|list }}", "{{ [L0, L1]|join(',') }}", "{{ [1, 2]|join(L0) }}", "{{ 'a-b'|replace('-', L0|string) }}", "{{ 'a-b'|split('-', L0)|list }}",
            "{{ range(L0, L1)|list }}", "{{ range(L0)|list }}", "{{ dict(a=L0, b=L1) }}", "{{ dict(a=L0) }}", "{{ namespace(a=L0, b=L1).b }}", "{{ '%s-%s'|format(L0, L1) }}",
            "{{ L0 is divisibleby(L1) }}", "{{ L0 is eq(L1) }}", "{{ L0 is in([L1]) }}", "{{ L0 is ne(L1) }}", "{{ [L0, L1]|select('eq', L1)|list }}", "{{ [L0, L1]|map('default', L1)|list }}",
            "{% filter default(L0) %}{% endfilter %}", "{% filter indent(width=L0, first=L1) %}a\nb{% endfilter %}", "{% filter truncate(L0, L1) %}abc def ghi{% endfilter %}", "{% filter center(width=L0) %}x{% endfilter %}",
            "{% for x in [L0, L1] %}{{ x }};{% endfor %}", "{% for x in [1, 2] if L0 %}{{ x }}{% else %}none{% endfor %}", "{% for x in L0 %}{{ x }}{% else %}{{ L1 }}{% endfor %}", "{% for a, b in [[L0, L1]] %}{{ a }}{{ b }}{% endfor %}",
            "{% if L0 %}a{% elif L1 %}b{% else %}c{% endif %}", "{% set x = L0 %}{{ x }}", "{% set x, y = L0, L1 %}{{ x }}{{ y }}", "{% set x = [L0, L1] %}{{ x }}", "{% with a = L0, b = L1 %}{{ a }}{{ b }}{% endwith %}", "{% set ns = namespace() %}{% set ns.a = L0 %}{{ ns.a }}",
            "{{ 'abc'[L0:L1] }}", "{{ [1, 2, 3][L0] }}", "{{ [1, 2, 3][L0:L1:L0] }}", "{{ {'a': 1, 1: 2}[L0] }}", "{{ L0 if L1 else 2 }}", "{{ L0 if L1 }}|", "{{ (L0, L1)[L0] }}", "{{ L0.real }}", "{{ L0|attr('x') }}",
            "{% autoescape L0 %}{{ '<' }}{% endautoescape %}", "{% macro d(a=L0, b=L1) %}{{ a }}{{ b }}{% endmacro %}{{ d() }}", "{% macro d(a=L0) %}{{ a }}{% endmacro %}{{ d(L1) }}", "{{ L0 ~ L1 }}", "{{ cycler(L0, L1).next() }}", "{{ joiner(L0)() }}{{ lipsum(L0)|length > 0 }}",
            "{% for x in [1, 2] %}{{ loop.cycle(L0, L1) }}{% endfor %}", "{% for x in [[1]] recursive %}{{ loop(L0) }}{% endfor %}", "{% include [L0|string, 'none'] ignore missing %}|", "{{ L0|tojson(indent=L1) }}", "{{ L0|string|upper|length + L1 }}",
        ];
        let mut cases: Vec<(usize, usize, usize)> = vec![];
        for (si, site) in SITES.iter().enumerate() {
            let two = site.contains("L1");
            for a in 0..POOL.len() {
                for b in 0..if two { POOL.len() } else { 1 } {
                    cases.push((si, POOL[a], POOL[b]));
                }
            }
        }
        acc.count("site_programs", cases.len() as u64);
        par_chunks(cases.len() as u64, 64, &acc, |r, l| {
            let env = Environment::new();
            let render = |src: &str, ctx: &[(String, Value)]| -> Out {
                match catch(|| match env.template_from_str(src) {
                    Err(_) => Out::CompileErr,
                    Ok(t) => match t.render(Value::from_pairs(ctx.iter().cloned())) {
                        Ok(s) => Out::Ok(s),
                        Err(_) => Out::Err,
                    },
                }) {
                    Ok(o) => o,
                    Err(_) => Out::Panic,
                }
            };
            for i in r {
                let (si, la, lb) = cases[i as usize];
                let site = SITES[si];
                let two = site.contains("L1");
                let lit_src = format!("{}{}", PRE, site.replace("L0", LITS[la]).replace("L1", LITS[lb]));
                let folded = render(&lit_src, &[]);
                l.evals += 1;
                l.outcome(match &folded {
                    Out::Ok(_) => "site ok",
                    Out::Err => "site runtime error",
                    Out::CompileErr => "site compile error",
                    Out::Panic => "site panic",
                });
                if matches!(folded, Out::Ok(_)) {
                    l.nontrivial.insert(fnv(lit_src.as_bytes()));
                }
                for hoist in 1..if two { 4u32 } else { 2u32 } {
                    let src = format!("{}{}", PRE, site.replace("L0", if hoist & 1 != 0 { "v0" } else { LITS[la] }).replace("L1", if hoist & 2 != 0 { "v1" } else { LITS[lb] }));
                    let mut ctx = vec![];
                    if hoist & 1 != 0 {
                        ctx.push(("v0".to_string(), lit_values[la].clone()));
                    }
                    if hoist & 2 != 0 {
                        ctx.push(("v1".to_string(), lit_values[lb].clone()));
                    }
                    let got = render(&src, &ctx);
                    l.evals += 1;
                    if got != folded {
                        let clause = match (&folded, &got) {
                            (Out::Ok(_), Out::Ok(_)) => "output_differs",
                            (Out::CompileErr, _) => "load_time_failure",
                            (Out::Ok(_), _) => "literal_ok_variable_fails",
                            (_, Out::Ok(_)) => "literal_fails_variable_ok",
                            _ => "failure_mode_differs",
                        };
                        acc.fail(Failure {
                            key: format!("{} site={}", clause, site),
                            case: format!("{} hoist={:b}", lit_src, hoist),
                            detail: format!("{} -> {:?} but {} with {:?} -> {:?}", lit_src, folded, src, ctx.iter().map(|(k, v)| format!("{}={}", k, show(v))).collect::<Vec<_>>(), got),
                            replay: json!({"site_literal": lit_src, "site_hoisted": src, "v0": la, "v1": lb, "hoist": hoist}),
                        });
                    }
                }
            }
        });
    }
    long_displays(&acc, args.tier);
    acc.sample(json!({"literal": "(0 and 1)", "hoisted": ["(v0 and 1)", "(0 and v1)", "(v0 and v1)"], "bindings": "v_k = the Value the literal itself evaluates to"}));
    acc.sample(json!({"literal": exprs[exprs.len() / 2].src(0, &mut 0), "hoisted_all": exprs[exprs.len() / 2].src(u32::MAX, &mut 0)}));
    finish(
        Finish {
            property: "C04",
            level: "exploration",
            tier: args.tier,
            seed: args.seed,
            rule: format!("under each of the 4 undefined behaviours: all depth-1 expressions over a 16-literal pool x 18 binary operators + subscripts (a[b] is an operator of the depth-1 and depth-2 spaces; 82 display / literal subjects x 6 present and missing keys, bare and as an operand of 13 + 6 binary forms, 3 chains, unary operators and displays) + unary -/not + list/tuple/map displays (two-entry maps over all pairs of 10 hashable literals, equal keys included) + list/tuple/map displays and keyword arguments whose items are unary or binary operations over literals + literal keyword arguments, long displays (N items for N around 8 / 16 / 32 / 64 (thorough up to 257), five item spellings equal across kinds, lists / tuples / maps / maps in reverse entry order / long string literals, two displays side by side in 9 contexts; one item or a whole display hoisted), 76 sites of the language that take expressions or arguments (positional, keyword, mixed and splatted calls of macros, call blocks with and without arguments of their own, filters, tests, functions, filter blocks, statement heads, subscripts, macro defaults) with one or two of 10 literals in the argument slots, and all depth-2 expressions ((a o b) o c, a o (b o c), 7 comparison chains, nested displays) over the first {} literals x {} operators; for each expression every non-empty subset of its literal occurrences is hoisted into context variables bound to the value the lexer produces for that literal, and Ok/Err status plus kind:text of the result must equal the all-literal (constant-folded) form; failing constant expressions must load and stay silent in dead code. distinct non-trivial = distinct expressions that evaluate successfully", core_pool.len(), args.tier.pick(OPS_CORE, OPS_ALL).len()),
            exhaustive: true,
            bound: json!({"literals": LITS, "ops": OPS_ALL, "depth2_pool": core_pool.len()}),
            assumptions: vec!["sequence repetition by counts >= 2^31 is excluded (lazy, unprintable); its crash behaviour belongs to C01".into()],
            extra: Default::default(),
            start: start_t,
        },
        &acc,
    )
}
