//! C12 — stricter undefined modes only add errors; the documented matrix holds.
use crate::core::*;
use crate::{gen, reg};
use minijinja::value::Value;
use minijinja::{Environment, ErrorKind, UndefinedBehavior};
use serde_json::json;

// ordered from strictest to weakest
const MODES: [(UndefinedBehavior, &str); 4] = [
    (UndefinedBehavior::Strict, "Strict"),
    (UndefinedBehavior::SemiStrict, "SemiStrict"),
    (UndefinedBehavior::Lenient, "Lenient"),
    (UndefinedBehavior::Chainable, "Chainable"),
];

fn envs() -> Vec<Environment<'static>> {
    envs_variant(0)
}

/// how values reach the output: 0 = plain, 1 = HTML auto-escaping for every template, 2 = a custom
/// formatter that only delegates to the default one (the undefined rules of printing live in more than
/// one place of the engine; all of them must implement the same table)
const ENV_VARIANTS: [&str; 3] = ["plain", "html_autoescape", "delegating_formatter"];

fn envs_variant(variant: usize) -> Vec<Environment<'static>> {
    MODES
        .iter()
        .map(|(m, _)| {
            let mut env = Environment::new();
            env.set_undefined_behavior(*m);
            env.add_function("probe", || Value::from(""));
            match variant {
                1 => env.set_auto_escape_callback(|_| minijinja::AutoEscape::Html),
                2 => env.set_formatter(|out, state, value| minijinja::escape_formatter(out, state, value)),
                _ => {}
            }
            env
        })
        .collect()
}

#[derive(Clone, Debug, PartialEq)]
enum Out {
    Ok(String),
    Err(ErrorKind),
    Panic(String),
}

fn render(env: &Environment, src: &str, ctx: &Value) -> Out {
    match catch(|| env.render_str(src, ctx.clone())) {
        Ok(Ok(s)) => Out::Ok(s),
        Ok(Err(e)) => Out::Err(e.kind()),
        Err(p) => Out::Panic(format!("{} at {}", p, last_panic_loc())),
    }
}

fn contexts() -> Vec<Value> {
    let g = gen::contexts();
    vec![
        g[1].clone(),
        Value::from_pairs([("m", Value::from_pairs([("a", 1), ("b", 2)])), ("xs", Value::from(vec![1, 2, 3]))]),
        Value::from_pairs(Vec::<(String, Value)>::new()),
    ]
}

fn check_monotone(envs: &[Environment<'static>], src: &str, name: &str, family: &str, ctx: &Value, ci: usize, acc: &Acc, l: &mut Local) -> Vec<Out> {
    let outs: Vec<Out> = envs.iter().map(|e| render(e, src, ctx)).collect();
    l.evals += 4;
    let pat: String = outs.iter().map(|o| match o { Out::Ok(_) => 'o', Out::Err(_) => 'e', Out::Panic(_) => 'p' }).collect();
    l.outcome(&format!("pattern {}", pat));
    let mk = |clause: &str, detail: String| Failure {
        key: format!("undefined {} family={}", clause, family),
        case: format!("{} ctx#{} :: {}", name, ci, src),
        detail,
        replay: json!({"source": src, "ctx": ci, "variant": ENV_VARIANTS.iter().position(|v| family.ends_with(v)).unwrap_or(0)}),
    };
    for (i, o) in outs.iter().enumerate() {
        if let Out::Panic(p) = o {
            acc.fail(mk("panic", format!("mode {}: {}", MODES[i].1, p)));
        }
    }
    for i in 0..4 {
        if let Out::Ok(strict_out) = &outs[i] {
            for j in i + 1..4 {
                match &outs[j] {
                    Out::Ok(w) if w == strict_out => {}
                    other => {
                        acc.fail(mk(
                            &format!("monotonicity[{}>{}]", MODES[i].1, MODES[j].1),
                            format!("{} -> {:?} but weaker {} -> {:?}", MODES[i].1, outs[i], MODES[j].1, other),
                        ));
                    }
                }
            }
        }
    }
    if pat != "oooo" && pat != "eeee" {
        l.nontrivial.insert(fnv(format!("{}|{}", src, ci).as_bytes()));
    }
    outs
}

/// expected Ok/Err per mode [Strict, SemiStrict, Lenient, Chainable] and the output where Ok
struct MatrixSite {
    src: String,
    class: &'static str,
    ok: [bool; 4],
    out: &'static str,
}

fn matrix_sites() -> Vec<MatrixSite> {
    // undefined operands that are reachable without an attribute access on an undefined
    let undef = ["u", "m.nokey", "m['nokey']", "xs[99]"];
    let mut v = vec![];
    for u in undef {
        let s = |t: &str| t.replace("U", u);
        v.push(MatrixSite { src: s("[{{ U }}]"), class: "print", ok: [false, false, true, true], out: "[]" });
        v.push(MatrixSite { src: s("[{% for i in U %}x{% endfor %}]"), class: "iterate", ok: [false, false, true, true], out: "[]" });
        v.push(MatrixSite { src: s("[{% for i in U %}x{% else %}e{% endfor %}]"), class: "iterate", ok: [false, false, true, true], out: "[e]" });
        v.push(MatrixSite { src: s("{% if U %}a{% else %}b{% endif %}"), class: "truth_if", ok: [false, true, true, true], out: "b" });
        v.push(MatrixSite { src: s("{% if 0 %}z{% elif U %}a{% else %}b{% endif %}"), class: "truth_elif", ok: [false, true, true, true], out: "b" });
        v.push(MatrixSite { src: s("{{ not U }}"), class: "truth_not", ok: [false, true, true, true], out: "True" });
        v.push(MatrixSite { src: s("{{ 'a' if U else 'b' }}"), class: "truth_ternary", ok: [false, true, true, true], out: "b" });
        v.push(MatrixSite { src: s("{{ U and 1 or 2 }}"), class: "truth_and_or", ok: [false, true, true, true], out: "2" });
        v.push(MatrixSite { src: s("{{ (U or 3) }}"), class: "truth_or", ok: [false, true, true, true], out: "3" });
        v.push(MatrixSite { src: s("{% for i in [1, 2] if U %}x{% else %}n{% endfor %}"), class: "truth_loop_filter", ok: [false, true, true, true], out: "n" });
        // re-entering a recursive loop iterates, too
        v.push(MatrixSite { src: s("{% for i in [1] recursive %}[{{ loop(U) }}]{% endfor %}"), class: "iterate_recursive_call", ok: [false, false, true, true], out: "[]" });
        v.push(MatrixSite { src: s("{% for i in [1] recursive %}[{{ loop(U)|upper }}]{% endfor %}"), class: "iterate_recursive_call_expr", ok: [false, false, true, true], out: "[]" });
        v.push(MatrixSite { src: s("{% for i in [[1]] recursive %}{% if i is iterable %}{{ loop(i) }}{% else %}[{{ loop(U) }}]{% endif %}{% endfor %}"), class: "iterate_recursive_nested", ok: [false, false, true, true], out: "[]" });
        v.push(MatrixSite { src: s("[{{ U.attr }}]"), class: "attr_of_undefined", ok: [false, false, false, true], out: "[]" });
        v.push(MatrixSite { src: s("[{{ U['k'] }}]"), class: "item_of_undefined", ok: [false, false, false, true], out: "[]" });
        v.push(MatrixSite { src: s("[{{ U[0] }}]"), class: "item_of_undefined", ok: [false, false, false, true], out: "[]" });
        v.push(MatrixSite { src: s("[{{ U.a.b.c }}]"), class: "attr_chain_of_undefined", ok: [false, false, false, true], out: "[]" });
        v.push(MatrixSite { src: s("{{ U is defined }}"), class: "is_defined", ok: [true; 4], out: "False" });
        v.push(MatrixSite { src: s("{{ U is undefined }}"), class: "is_undefined", ok: [true; 4], out: "True" });
        v.push(MatrixSite { src: s("{{ U is not defined }}"), class: "is_defined", ok: [true; 4], out: "True" });
        v.push(MatrixSite { src: s("{{ U|default('d') }}"), class: "default", ok: [true; 4], out: "d" });
        v.push(MatrixSite { src: s("{{ U|d('d') }}"), class: "default", ok: [true; 4], out: "d" });
        v.push(MatrixSite { src: s("{{ U|default }}|"), class: "default", ok: [true; 4], out: "|" });
        // every argument form of the three sites that never fail
        for (form, out) in [
            ("{{ U|default('d', true) }}", "d"), ("{{ U|default('d', false) }}", "d"), ("{{ U|d('d', 1) }}", "d"),
            ("{{ U|default(U, true)|default('e') }}", "e"), ("{{ (U is defined) and (U is not undefined) }}", "False"), ("{{ U is defined or U is undefined }}", "True"), ("{{ [U is defined, U is undefined]|join }}", "FalseTrue"),
            ("{% if U is defined %}a{% else %}b{% endif %}", "b"), ("{{ 'a' if U is defined else 'b' }}", "b"), ("{% for i in [1] if U is undefined %}x{% endfor %}", "x"),
        ] {
            v.push(MatrixSite { src: s(form), class: "never_failing_sites", ok: [true; 4], out });
        }
        // truth tests whose result goes to a consumer that takes an undefined without complaint: the
        // test itself is the failing site under Strict, whoever looks at the result afterwards
        for (t, val) in [("U and 1", None), ("U and U", None), ("(U and 1) and 2", None), ("U or 1", Some("1")), ("not U", Some("True")), ("(5 if U else 2)", Some("2")), ("U and 1 or 7", Some("7")), ("(U or U) or 4", Some("4"))] {
            let consumers: [(&str, String); 9] = [
                ("{% set v = T %}done", "done".to_string()),
                ("{% with v = T %}x{% endwith %}", "x".to_string()),
                ("{{ (T)|default('d') }}", val.unwrap_or("d").to_string()),
                ("{{ (T) is defined }}", if val.is_some() { "True" } else { "False" }.to_string()),
                ("{{ [T]|length }}", "1".to_string()),
                ("{{ {'k': T}|length }}", "1".to_string()),
                ("{{ ((T), 2)|length }}", "2".to_string()),
                ("{% macro f(a) %}[{{ a is defined }}]{% endmacro %}{{ f(T) }}", if val.is_some() { "[True]" } else { "[False]" }.to_string()),
                // (an undefined argument selects the parameter's default)
                ("{% macro f(a=3) %}[{{ a is defined }}]{% endmacro %}{{ f(a=T) }}", "[True]".to_string()),
            ];
            for (c, out) in consumers {
                let out: &'static str = Box::leak(out.into_boxed_str());
                v.push(MatrixSite { src: s(&c.replace('T', t)), class: "truth_test_feeding_tolerant_consumer", ok: [false, true, true, true], out });
            }
        }
        v.push(MatrixSite { src: s("{% set q = U %}{{ q is defined }}"), class: "assign_then_is_defined", ok: [true; 4], out: "False" });
        v.push(MatrixSite { src: s("{% if U is defined %}a{% else %}b{% endif %}"), class: "is_defined", ok: [true; 4], out: "b" });
    }
    // the value of an else-less conditional expression whose condition is false is an undefined too
    // (printing, truth-testing and iterating it is exempt from errors in every mode, by design), and
    // attribute, item and slice access on it must fail like on any other undefined
    for (pre, sil) in [("", "(1 if false)"), ("", "(m if 0)"), ("{% set sv = 1 if false %}", "sv"), ("{% set sv = (m if false) %}", "sv")] {
        let s = |t: &str| format!("{}{}", pre, t.replace('S', sil));
        v.push(MatrixSite { src: s("[{{ S }}]"), class: "silent_print", ok: [true; 4], out: "[]" });
        v.push(MatrixSite { src: s("{{ S is undefined }}"), class: "silent_is_undefined", ok: [true; 4], out: "True" });
        v.push(MatrixSite { src: s("{{ S|default('d') }}"), class: "silent_default", ok: [true; 4], out: "d" });
        v.push(MatrixSite { src: s("[{{ S.attr }}]"), class: "attr_of_silent_undefined", ok: [false, false, false, true], out: "[]" });
        v.push(MatrixSite { src: s("[{{ S['k'] }}]"), class: "item_of_silent_undefined", ok: [false, false, false, true], out: "[]" });
        v.push(MatrixSite { src: s("[{{ S[0] }}]"), class: "item_of_silent_undefined", ok: [false, false, false, true], out: "[]" });
        v.push(MatrixSite { src: s("[{{ S.a.b }}]"), class: "attr_chain_of_silent_undefined", ok: [false, false, false, true], out: "[]" });
        v.push(MatrixSite { src: s("[{{ S.attr|default('d') }}]"), class: "attr_of_silent_undefined_defaulted", ok: [false, false, false, true], out: "[d]" });
        v.push(MatrixSite { src: s("[{{ S.attr is defined }}]"), class: "attr_of_silent_undefined_tested", ok: [false, false, false, true], out: "[False]" });
        v.push(MatrixSite { src: s("{% macro f(a) %}[{{ a.attr is defined }}]{% endmacro %}{{ f(S) }}"), class: "attr_of_silent_undefined_in_macro", ok: [false, false, false, true], out: "[False]" });
    }
    v
}

fn site_table(r: &reg::Registry) -> Vec<(String, String)> {
    // (family, source); only the monotonicity oracle applies
    let mut v = vec![];
    let undefs = ["u", "m.nokey", "(1 if false)"];
    for f in &r.filters {
        for u in undefs {
            for form in [
                "{{ U|F }}", "{{ U|F(1) }}", "{{ U|F('a') }}", "{{ 1|F(U) }}", "{{ 'ab'|F(U) }}", "{{ xs|F(U) }}", "{{ m|F(U) }}", "{{ U|F(U) }}",
                "{{ xs|F(1, U) }}", "{{ 'ab'|F('a', U) }}", "{{ xs|F(attribute=U) }}", "{{ xs|F(U, U) }}", "{{ [U]|F }}", "{{ [U, 1]|F }}", "{{ {'k': U}|F }}",
                "{% if U|F %}t{% else %}f{% endif %}", "{% for i in U|F %}x{% endfor %}",
                // captured / safe operands next to the undefined one (filters have separate paths for them)
                "{{ [U, 1]|F('-'|safe) }}", "{{ [U, 'a'|safe]|F }}", "{{ U|F('a'|safe) }}", "{{ ('a'|safe)|F(U) }}", "{{ ('a'|safe)|F(U, 'b') }}", "{{ ('a'|safe)|F('b', U) }}",
            ] {
                v.push(("filter".to_string(), form.replace('F', f).replace('U', u).replace("(attribute", "(attribute")));
            }
        }
    }
    for t in &r.tests {
        // symbolic test names (==, <, ...) cannot be written after `is`
        if !t.chars().all(|c| c.is_ascii_alphanumeric() || c == '_') {
            continue;
        }
        for u in undefs {
            for form in ["{{ U is T }}", "{{ 1 is T(U) }}", "{{ 'a' is T(U) }}", "{{ U is T(U) }}", "{{ U is T(1) }}", "{{ xs is T(U) }}", "{{ xs|select('T', U)|list }}", "{{ [U]|select('T')|list }}"] {
                v.push(("test".to_string(), form.replace('T', t).replace('U', u)));
            }
        }
    }
    for f in &r.functions {
        for u in undefs {
            for form in ["{{ F(U) }}", "{{ F(1, U) }}", "{{ F(U, 1) }}", "{{ F(a=U) }}", "{{ F(U, U, U) }}", "{% for i in F(U) %}x{% endfor %}"] {
                v.push(("function".to_string(), form.replace('F', f).replace('U', u)));
            }
        }
    }
    // operators and statements with an undefined operand in every position
    for u in undefs {
        for form in [
            "{{ U + 1 }}", "{{ 1 + U }}", "{{ U - 1 }}", "{{ U * 2 }}", "{{ 2 / U }}", "{{ U // 2 }}", "{{ U % 2 }}", "{{ U ** 2 }}", "{{ -U }}", "{{ U ~ 'a' }}", "{{ 'a' ~ U }}",
            "{{ U == 1 }}", "{{ U != 1 }}", "{{ U < 1 }}", "{{ 1 >= U }}", "{{ U == U }}", "{{ U in [1] }}", "{{ 1 in U }}", "{{ U not in xs }}", "{{ U[1:] }}", "{{ xs[U:] }}", "{{ xs[:U] }}",
            "{{ xs[::U] }}", "{{ xs[U] }}", "{{ m[U] }}", "{{ [U] }}", "{{ {'a': U} }}", "{{ (U, 1) }}", "{{ U() }}", "{{ U.method() }}", "{{ m.method(U) }}", "{{ 'a'.upper(U) }}",
            "{% set a, b = U %}{{ a }}", "{% set a = U %}{{ a }}", "{% with a = U %}{{ a }}{% endwith %}", "{% with a = U %}x{% endwith %}", "{% filter upper %}{{ U }}{% endfilter %}",
            "{% set y %}{{ U }}{% endset %}{{ y }}", "{% macro f(a) %}[{{ a }}]{% endmacro %}{{ f(U) }}", "{% macro f(a=U) %}[{{ a }}]{% endmacro %}{{ f() }}", "{% macro f(a) %}[{{ a is defined }}]{% endmacro %}{{ f(U) }}",
            "{% macro f(a) %}[{{ a }}]{% endmacro %}{{ f() }}", "{% call U() %}x{% endcall %}", "{% autoescape U %}x{% endautoescape %}", "{% for a, b in [U] %}x{% endfor %}", "{% for a in [U] %}{{ a }}{% endfor %}",
            "{% for a in xs %}{{ loop.previtem }}{% endfor %}", "{% for a in xs %}{{ loop.nextitem }}|{% endfor %}", "{{ loop }}", "{{ U|string }}", "{{ U|list }}", "{{ U|length }}", "{{ U|int }}", "{{ U|safe }}", "{{ U|e }}",
            "{{ 1 if U }}", "{{ (1 if false) }}", "{{ (1 if false)|string }}", "{{ [(1 if false)] }}", "{{ U if U else U }}", "{{ range(U) }}", "{{ dict(a=U) }}", "{{ namespace(a=U).a }}", "{% set ns = namespace() %}{{ ns.missing }}",
            "{% set ns = namespace() %}{% set ns.a = U %}{{ ns.a }}",
        ] {
            v.push(("syntax".to_string(), form.replace('U', u)));
        }
    }
    v
}

pub fn main(args: Args) -> i32 {
    let start_t = std::time::Instant::now();
    install_quiet_panic_hook();
    let ctxs = contexts();
    let acc = Acc::new();
    if let Some(p) = &args.replay {
        let doc = load_replay(p);
        let j = &doc["replay"];
        let envs = envs_variant(j["variant"].as_u64().unwrap_or(0) as usize);
        if let Some(ts) = j["templates"].as_array() {
            // a placed matrix site, decided like in the run
            let mut bad = false;
            for (i, e) in envs.iter().enumerate() {
                let mut env = e.clone();
                env.add_function("rb", |state: &mut minijinja::State, name: String| state.render_block(&name).map(Value::from_safe_string));
                for t in ts {
                    let _ = env.add_template_owned(t[0].as_str().unwrap().to_string(), t[1].as_str().unwrap().to_string());
                }
                let r = catch(|| env.get_template("main").and_then(|t| t.render(ctxs[1].clone())));
                let shown = format!("{:?}", r.as_ref().map(|r| r.as_ref().map_err(|e| e.to_string())));
                let want_ok = j["expect_ok"][i].as_bool().unwrap_or(true);
                let good = match r {
                    Ok(Ok(s)) => want_ok && Some(s.as_str()) == j["expect_out"].as_str(),
                    Ok(Err(e)) => {
                        let mut k = e.kind();
                        let mut cur: Option<&(dyn std::error::Error + 'static)> = std::error::Error::source(&e);
                        while let Some(c) = cur {
                            if let Some(me) = c.downcast_ref::<minijinja::Error>() {
                                k = me.kind();
                            }
                            cur = c.source();
                        }
                        !want_ok && (k == ErrorKind::UndefinedError || j["recursive_site"].as_bool().unwrap_or(false))
                    }
                    Err(_) => false,
                };
                println!("{:<11} -> {} {}", MODES[i].1, shown, if good { "(as the matrix says)" } else { "(NOT what the matrix says)" });
                bad |= !good;
            }
            if bad {
                println!("VIOLATION property=C12 replay={}  # placed matrix site", p);
            } else {
                println!("replay: as the matrix says");
            }
            return if bad { 1 } else { 0 };
        }
        let mut l = Local::default();
        let ci = j["ctx"].as_u64().unwrap() as usize;
        let outs = check_monotone(&envs, j["source"].as_str().unwrap(), "replay", "replay", &ctxs[ci], ci, &acc, &mut l);
        for (i, o) in outs.iter().enumerate() {
            println!("{:<11} -> {:?}", MODES[i].1, o);
        }
        let fs = acc.take_failures();
        return if fs.is_empty() {
            println!("replay: monotone");
            0
        } else {
            for f in &fs {
                println!("VIOLATION property=C12 replay={}  # {} :: {}", p, f.key, f.detail);
            }
            1
        };
    }
    // 1. matrix on direct syntactic sites, under every output route
    for variant in 0..ENV_VARIANTS.len() {
        let envs = envs_variant(variant);
        let mut l = Local::default();
        for site in matrix_sites() {
            let outs = check_monotone(&envs, &site.src, "matrix", &format!("matrix/{}", ENV_VARIANTS[variant]), &ctxs[1], 1, &acc, &mut l);
            for i in 0..4 {
                let good = match (&outs[i], site.ok[i]) {
                    (Out::Ok(s), true) => s == site.out,
                    // re-entering a recursive loop wraps the undefined error ("cannot recurse because
                    // of non-iterable value"), so there only "an error" is demanded
                    (Out::Err(k), false) => *k == ErrorKind::UndefinedError || site.class.starts_with("iterate_recursive"),
                    _ => false,
                };
                if !good {
                    acc.fail(Failure {
                        key: format!("undefined matrix site={} mode={}{}", site.class, MODES[i].1, if variant > 0 { format!(" output={}", ENV_VARIANTS[variant]) } else { String::new() }),
                        case: format!("{} under {}", site.src, MODES[i].1),
                        detail: format!("expected {} but got {:?}", if site.ok[i] { format!("Ok({:?})", site.out) } else { "Err(UndefinedError)".into() }, outs[i]),
                        replay: json!({"source": site.src, "ctx": 1, "variant": variant}),
                    });
                }
            }
            acc.count("matrix_sites", 1);
        }
        l.flush(&acc);
    }
    // 1a. an operator site is the same site wherever the expression grammar puts it: a comparison
    // chain `a o1 b o2 c` is by definition `(a o1 b) and (b o2 c)` (the middle operand evaluated once),
    // so with an undefined in any of the three positions the chain must succeed or fail exactly as the
    // conjunction of its links does, in each of the four modes; likewise `not (a o b)`, `a o b if ..`,
    // and a link under a filter or inside a display
    {
        let envs = envs();
        let mut l = Local::default();
        let ops = ["==", "!=", "<", "<=", ">", ">=", "in", "not in"];
        let defined = ["1", "3", "'a'", "[1, 3]", "none"];
        let undefs = ["u", "m.nokey", "xs[99]"];
        for o1 in ops {
            for o2 in ops {
                for d1 in defined {
                    for d2 in defined {
                        for u in undefs {
                            for pos in 0..3 {
                                let (a, b, c) = match pos {
                                    0 => (u, d1, d2),
                                    1 => (d1, u, d2),
                                    _ => (d1, d2, u),
                                };
                                let forms = [
                                    (format!("{{{{ {} {} {} {} {} }}}}", a, o1, b, o2, c), format!("{{{{ ({} {} {}) and ({} {} {}) }}}}", a, o1, b, b, o2, c)),
                                    (format!("{{{{ not ({} {} {} {} {}) }}}}", a, o1, b, o2, c), format!("{{{{ not (({} {} {}) and ({} {} {})) }}}}", a, o1, b, b, o2, c)),
                                    (format!("{{% if {} {} {} {} {} %}}y{{% else %}}n{{% endif %}}", a, o1, b, o2, c), format!("{{% if ({} {} {}) and ({} {} {}) %}}y{{% else %}}n{{% endif %}}", a, o1, b, b, o2, c)),
                                ];
                                for (chain, conj) in forms {
                                    l.evals += 2;
                                    for (i, env) in envs.iter().enumerate() {
                                        let x = render(env, &chain, &ctxs[1]);
                                        let y = render(env, &conj, &ctxs[1]);
                                        let same = match (&x, &y) {
                                            (Out::Ok(p), Out::Ok(q)) => p == q,
                                            (Out::Err(_), Out::Err(_)) => true,
                                            _ => false,
                                        };
                                        if same {
                                            l.outcome(if matches!(x, Out::Ok(_)) { "chain as its links: ok" } else { "chain as its links: error" });
                                        } else {
                                            acc.fail(Failure {
                                                key: format!("undefined chain_differs_from_its_links undefined_operand={} mode={}", ["first", "middle", "last"][pos], MODES[i].1),
                                                case: format!("{} under {}", chain, MODES[i].1),
                                                detail: format!("{} -> {:?} but {} -> {:?}", chain, x, conj, y),
                                                replay: json!({"source": chain, "ctx": 1, "variant": 0}),
                                            });
                                        }
                                    }
                                }
                            }
                        }
                    }
                }
            }
        }
        acc.count("chain_link_cases", 8 * 8 * 5 * 5 * 3 * 3 * 3);
        l.flush(&acc);
    }
    // 1b. the matrix at every site *wherever the site is placed*: in macro, call, set and filter bodies,
    // in included templates, child blocks, the discarded top level of an extending template, the top
    // level of a module that is imported (captured) or imported from (discarded), and in an imported
    // macro.  Where the text goes nowhere the expected output is empty; the error table is the same
    {
        // (name, templates with SITE, does the site's output reach the result, sees the render context)
        const PLACEMENTS: &[(&str, &[(&str, &str)], bool, bool)] = &[
            ("macro_body", &[("main", "{% macro mm() %}SITE{% endmacro %}{{ mm() }}")], true, true),
            ("call_body", &[("main", "{% macro mm() %}{{ caller() }}{% endmacro %}{% call mm() %}SITE{% endcall %}")], true, true),
            ("set_block", &[("main", "{% set cap %}SITE{% endset %}{{ cap }}")], true, true),
            ("filter_block", &[("main", "{% filter string %}SITE{% endfilter %}")], true, true),
            ("loop_body_in_with", &[("main", "{% with w = 1 %}{% for q in [1] %}SITE{% endfor %}{% endwith %}")], true, true),
            ("included", &[("main", "{% include 'inc' %}"), ("inc", "SITE")], true, true),
            ("included_in_set_block", &[("main", "{% set cap %}{% include 'inc' %}{% endset %}{{ cap }}"), ("inc", "SITE")], true, true),
            ("child_block", &[("main", "{% extends 'base' %}{% block b %}SITE{% endblock %}"), ("base", "{% block b %}{% endblock %}")], true, true),
            ("parent_block_via_super", &[("main", "{% extends 'base' %}{% block b %}{{ super() }}{% endblock %}"), ("base", "{% block b %}SITE{% endblock %}")], true, true),
            ("child_top_level_discarded", &[("main", "{% extends 'base' %}SITE{% block b %}{% endblock %}"), ("base", "{% block b %}{% endblock %}")], false, true),
            ("child_top_level_discarded_in_if", &[("main", "{% extends 'base' %}{% if true %}SITE{% endif %}"), ("base", "{% block b %}{% endblock %}")], false, true),
            ("from_imported_top_level", &[("main", "{% from 'lib' import x %}"), ("lib", "SITE{% macro x() %}{% endmacro %}")], false, false),
            ("imported_top_level", &[("main", "{% import 'lib' as lib %}"), ("lib", "SITE{% macro x() %}{% endmacro %}")], false, false),
            ("imported_macro", &[("main", "{% from 'lib' import x %}{{ x() }}"), ("lib", "{% macro x() %}SITE{% endmacro %}")], true, false),
            ("imported_macro_via_module", &[("main", "{% import 'lib' as lib %}{{ lib.x() }}"), ("lib", "{% macro x() %}SITE{% endmacro %}")], true, false),
            ("block_via_state_render_block", &[("main", "{{ rb('b') }}{% if false %}{% block b %}SITE{% endblock %}{% endif %}")], true, true),
        ];
        let sites = matrix_sites();
        par_chunks((sites.len() * PLACEMENTS.len()) as u64, 16, &acc, |r, l| {
            let all: Vec<Vec<Environment<'static>>> = (0..ENV_VARIANTS.len()).map(envs_variant).collect();
            for n in r {
                let site = &sites[n as usize / PLACEMENTS.len()];
                let (pname, templates, visible, sees_ctx) = PLACEMENTS[n as usize % PLACEMENTS.len()];
                // operands that need the render context only where the placement sees it
                if !sees_ctx && (site.src.contains("m.") || site.src.contains("m[") || site.src.contains("xs[") || site.src.contains("(m ")) {
                    continue;
                }
                for (variant, envs) in all.iter().enumerate() {
                    let outs: Vec<Out> = envs
                        .iter()
                        .map(|e| {
                            let mut env = e.clone();
                            env.add_function("rb", |state: &mut minijinja::State, name: String| state.render_block(&name).map(Value::from_safe_string));
                            for (tn, ts) in templates {
                                if let Err(err) = env.add_template_owned(tn.to_string(), ts.replace("SITE", &site.src)) {
                                    return Out::Err(err.kind());
                                }
                            }
                            l.evals += 1;
                            match catch(|| env.get_template("main").and_then(|t| t.render(ctxs[1].clone()))) {
                                Ok(Ok(s)) => Out::Ok(s),
                                Ok(Err(e)) => {
                                    // the located cause counts: a failure inside an include or a block is wrapped
                                    let mut k = e.kind();
                                    let mut cur: Option<&(dyn std::error::Error + 'static)> = std::error::Error::source(&e);
                                    while let Some(c) = cur {
                                        if let Some(me) = c.downcast_ref::<minijinja::Error>() {
                                            k = me.kind();
                                        }
                                        cur = c.source();
                                    }
                                    Out::Err(k)
                                }
                                Err(p) => Out::Panic(format!("{} at {}", p, last_panic_loc())),
                            }
                        })
                        .collect();
                    l.outcome(&format!("placed pattern {}", outs.iter().map(|o| match o { Out::Ok(_) => 'o', Out::Err(_) => 'e', Out::Panic(_) => 'p' }).collect::<String>()));
                    for i in 0..4 {
                        let want = if visible { site.out } else { "" };
                        let good = match (&outs[i], site.ok[i]) {
                            (Out::Ok(s), true) => s == want,
                            (Out::Err(k), false) => *k == ErrorKind::UndefinedError || site.class.starts_with("iterate_recursive"),
                            _ => false,
                        };
                        if good {
                            l.nontrivial.insert(fnv(format!("placed|{}|{}|{}", pname, site.src, i).as_bytes()));
                        } else {
                            acc.fail(Failure {
                                key: format!("undefined matrix site={} mode={} placement={}{}", site.class, MODES[i].1, pname, if variant > 0 { format!(" output={}", ENV_VARIANTS[variant]) } else { String::new() }),
                                case: format!("{} placed {} under {}", site.src, pname, MODES[i].1),
                                detail: format!("expected {} but got {:?}", if site.ok[i] { format!("Ok({:?})", want) } else { "Err(UndefinedError)".into() }, outs[i]),
                                replay: json!({"templates": templates.iter().map(|(a, b)| (a.to_string(), b.replace("SITE", &site.src))).collect::<Vec<_>>(), "ctx": 1, "variant": variant, "expect_ok": site.ok, "expect_out": want, "recursive_site": site.class.starts_with("iterate_recursive")}),
                            });
                        }
                    }
                }
            }
        });
        acc.count("placed_matrix_sites", (sites.len() * PLACEMENTS.len()) as u64);
    }
    // 2. site table: every built-in with an undefined in each argument position
    let registry = reg::discover();
    acc.count("builtin_filters", registry.filters.len() as u64);
    acc.count("builtin_tests", registry.tests.len() as u64);
    acc.count("builtin_functions", registry.functions.len() as u64);
    let sites = site_table(&registry);
    acc.count("table_sites", sites.len() as u64);
    par_chunks(sites.len() as u64, 32, &acc, |r, l| {
        let all: Vec<Vec<Environment<'static>>> = (0..ENV_VARIANTS.len()).map(envs_variant).collect();
        for i in r {
            let (fam, src) = &sites[i as usize];
            for (variant, envs) in all.iter().enumerate() {
                let fam = if variant == 0 { fam.clone() } else { format!("{}/{}", fam, ENV_VARIANTS[variant]) };
                for (ci, ctx) in ctxs.iter().enumerate().skip(1) {
                    // (the other output routes with one context: they differ in how values are written)
                    if variant > 0 && ci > 1 {
                        continue;
                    }
                    check_monotone(envs, src, &format!("site#{}", i), &fam, ctx, ci, &acc, l);
                }
            }
        }
    });
    // 3. the program space
    let opts = gen::Opts { depth: 2, max_programs: u64::MAX, multi_template: false, loop_controls: false, extra_leaves: false };
    let size = gen::Gen::new(opts).size();
    let stride = 1u64;
    let n_prog = (size + stride - 1) / stride;
    acc.count("programs", n_prog);
    par_chunks(n_prog, 128, &acc, |r, l| {
        let envs = envs();
        let g = gen::Gen::new(opts);
        for k in r {
            let n = k * stride;
            let src = g.program(n).source();
            for (ci, ctx) in ctxs.iter().enumerate() {
                check_monotone(&envs, &src, &format!("d2#{}", n), "program", ctx, ci, &acc, l);
            }
        }
    });
    if args.tier == Tier::Thorough {
        // depth 3 by stride
        let opts3 = gen::Opts { depth: 3, ..opts };
        let size3 = gen::Gen::new(opts3).size();
        let stride3 = 11u64;
        let n3 = (size3 + stride3 - 1) / stride3;
        acc.count("programs_depth3_stride11", n3);
        par_chunks(n3, 128, &acc, |r, l| {
            let envs = envs();
            let g = gen::Gen::new(opts3);
            for k in r {
                let n = k * stride3;
                let src = g.program(n).source();
                for (ci, ctx) in ctxs.iter().enumerate().skip(1) {
                    check_monotone(&envs, &src, &format!("d3#{}", n), "program", ctx, ci, &acc, l);
                }
            }
        });
    }
    // multi-template families
    {
        let multis = gen::multi_corpus(args.tier.pick(7, 1));
        acc.count("multi_template_programs", multis.len() as u64);
        par_chunks(multis.len() as u64, 16, &acc, |r, l| {
            for i in r {
                let m = &multis[i as usize];
                let mut envs = envs();
                let mut ok = true;
                for e in envs.iter_mut() {
                    for (n, src) in &m.templates {
                        ok &= e.add_template_owned(n.to_string(), src.clone()).is_ok();
                    }
                }
                if !ok {
                    continue;
                }
                for (ci, ctx) in ctxs.iter().enumerate().skip(1) {
                    let outs: Vec<Out> = envs
                        .iter()
                        .map(|e| match catch(|| e.get_template(m.main).unwrap().render(ctx.clone())) {
                            Ok(Ok(s)) => Out::Ok(s),
                            Ok(Err(er)) => Out::Err(er.kind()),
                            Err(p) => Out::Panic(p),
                        })
                        .collect();
                    l.evals += 4;
                    for a in 0..4 {
                        if let Out::Ok(so) = &outs[a] {
                            for b in a + 1..4 {
                                if outs[b] != Out::Ok(so.clone()) {
                                    acc.fail(Failure {
                                        key: format!("undefined monotonicity[{}>{}] family=multi:{}", MODES[a].1, MODES[b].1, m.name.split(':').nth(1).unwrap_or("")),
                                        case: format!("{} ctx#{}", m.name, ci),
                                        detail: format!("{:?} vs {:?}", outs[a], outs[b]),
                                        replay: json!({"templates": m.templates, "ctx": ci}),
                                    });
                                }
                            }
                        }
                    }
                }
            }
        });
    }
    acc.sample(json!({"matrix_site": "{% if U %}a{% else %}b{% endif %}", "U": ["u", "m.nokey", "m['nokey']", "xs[99]"], "expected": "Err under Strict only, 'b' otherwise"}));
    acc.sample(json!({"table_site": sites[sites.len() / 3].1, "oracle": "if a mode succeeds every weaker mode succeeds with the same output"}));
    finish(
        Finish {
            property: "C12",
            level: "exploration",
            tier: args.tier,
            seed: args.seed,
            rule: format!("(1) matrix: 35 direct syntactic sites (incl. every argument form of default / is defined / is undefined) (incl. re-entry of a recursive loop) x 4 undefined operand spellings x 4 modes against the documented table (error kind UndefinedError, exact output); (2) site table generated from the registry in defaults.rs: every built-in filter x 23 argument forms (six with safe strings next to the undefined operand), every test x 8, every global function x 6, 62 operator/statement forms, each with 3 undefined operand spellings x 2 contexts x 4 modes, monotonicity oracle; the matrix and the site table are repeated under HTML auto-escaping and under a custom formatter that only delegates to the default one; (3) every {} program of the depth-2 space of G x 3 contexts (two with missing keys) x 4 modes{}; (4) 5 multi-template families. distinct non-trivial = (source, context) pairs whose outcome differs between modes", if stride == 1 { "".to_string() } else { format!("{}rd", stride) }, if args.tier == Tier::Thorough { " plus every 11th depth-3 program" } else { "" }),
            exhaustive: true,
            bound: json!({"modes": ["Strict", "SemiStrict", "Lenient", "Chainable"]}),
            assumptions: vec!["monotonicity compares whole-render outputs; error kinds are only checked on the matrix sites".into()],
            extra: Default::default(),
            start: start_t,
        },
        &acc,
    )
}
