//! mjv — bounded-exhaustive checks for the minijinja properties C01..C20.
mod core;
mod big;
mod c01;
mod c02;
mod c03;
mod c04;
mod crash;
mod c05;
mod c06;
mod c07;
mod c08;
mod vals;
mod c09;
mod c10;
mod c11;
mod c12;
mod c13;
mod refint;
mod reg;
mod c14;
mod c15;
mod c16;
mod c17;
mod c18;
mod c19;
mod gen;

fn main() {
    let argv: Vec<String> = std::env::args().collect();
    if argv.len() < 2 {
        eprintln!("usage: mjv <cNN> [--tier quick|thorough] [--replay file]");
        std::process::exit(2);
    }
    let args = core::parse_args(&argv[2..]);
    if !argv.iter().any(|a| a == "--child") {
        // children of the supervised engines inherit the effective tier through the environment
        std::env::set_var("VERIF_TIER_EFFECTIVE", args.tier.name());
        std::env::set_var("VERIF_TIER", args.tier.name());
    }
    let code = match argv[1].to_ascii_lowercase().as_str() {
        "c01" => c01::main(args),
        "c02" => c02::main(args),
        "c03" => c03::main(args),
        "c04" => c04::main(args),
        "c05" => c05::main(args),
        "c06" => c06::main(args),
        "c07" => c07::main(args),
        "c08" => c08::main(args),
        "c09" => c09::main(args),
        "c10" => c10::main(args),
        "c11" => c11::main(args),
        "c12" => c12::main(args),
        "c13" => c13::main(args),
        "c14" => c14::main(args),
        "c15" => c15::main(args),
        "c16" => c16::main(args),
        "c17" => c17::main(args),
        "c18" => c18::main(args),
        "c19" => c19::main(args),
        "probe" => probe(&argv[2]),
        "gensizes" => {
            print_gen_sizes();
            0
        }
        other => {
            eprintln!("unknown check {}", other);
            2
        }
    };
    std::process::exit(code);
}

#[allow(dead_code)]
pub fn print_gen_sizes() {
    for d in 1..=3 {
        for lc in [false, true] {
            let g = gen::Gen::new(gen::Opts { depth: d, max_programs: u64::MAX, multi_template: false, loop_controls: lc, extra_leaves: false });
            println!("depth {} loop_controls {} size {}", d, lc, g.size());
        }
    }
}

/// developer tool: `mjv probe spec.json` renders one template of a small set and prints the result.
/// spec: {"templates": {name: source}, "render": name, "ctx": json, "trim_blocks": bool,
/// "lstrip_blocks": bool, "undefined": "strict"|..., "fuel": n, "recursion_limit": n, "path_join": bool}
fn probe(path: &str) -> i32 {
    use minijinja::{Environment, UndefinedBehavior};
    let spec: serde_json::Value = serde_json::from_str(&std::fs::read_to_string(path).expect("spec file")).expect("json");
    let mut env = Environment::new();
    minijinja_contrib::add_to_environment(&mut env);
    env.set_unknown_method_callback(minijinja_contrib::pycompat::unknown_method_callback);
    if let Some(m) = spec["templates"].as_object() {
        for (k, v) in m {
            if let Err(e) = env.add_template_owned(k.clone(), v.as_str().unwrap().to_string()) {
                println!("add_template({:?}) -> Err: {:#}", k, e);
            }
        }
    }
    env.set_trim_blocks(spec["trim_blocks"].as_bool().unwrap_or(false));
    env.set_lstrip_blocks(spec["lstrip_blocks"].as_bool().unwrap_or(false));
    if let Some(n) = spec["fuel"].as_u64() {
        env.set_fuel(Some(n));
    }
    if let Some(n) = spec["recursion_limit"].as_u64() {
        env.set_recursion_limit(n as usize);
    }
    match spec["undefined"].as_str() {
        Some("strict") => env.set_undefined_behavior(UndefinedBehavior::Strict),
        Some("semi_strict") => env.set_undefined_behavior(UndefinedBehavior::SemiStrict),
        Some("chainable") => env.set_undefined_behavior(UndefinedBehavior::Chainable),
        _ => {}
    }
    if spec["path_join"].as_bool().unwrap_or(false) {
        env.set_path_join_callback(|name, parent| {
            let mut rv: Vec<&str> = parent.split('/').collect();
            rv.pop();
            for seg in name.split('/') {
                match seg {
                    "." => {}
                    ".." => {
                        rv.pop();
                    }
                    s => rv.push(s),
                }
            }
            rv.join("/").into()
        });
    }
    let name = spec["render"].as_str().unwrap_or("main");
    let ctx = minijinja::value::Value::from(minijinja::value::Serde(&spec["ctx"]));
    let r = core::catch(|| env.get_template(name).and_then(|t| t.render(ctx)));
    match r {
        Ok(Ok(s)) => println!("Ok: {:?}", s),
        Ok(Err(e)) => {
            println!("Err: {:#}\n{:?}", e, e.kind());
            let mut src = std::error::Error::source(&e);
            while let Some(s) = src {
                println!("caused by: {}", s);
                src = s.source();
            }
        }
        Err(p) => println!("PANIC: {} at {}", p, core::last_panic_loc()),
    }
    0
}
