//! mjv — bounded-exhaustive checks for the minijinja properties C01..C20.
mod core;
mod big;
mod c01;
mod c02;
mod c03;
mod c04;
mod crash;
mod c05;
mod c06;
mod c07;
mod c08;
mod vals;
mod c09;
mod c10;
mod c11;
mod c12;
mod c13;
mod refint;
mod reg;
mod c14;
mod c15;
mod c16;
mod c17;
mod c18;
mod c19;
mod gen;

fn main() {
    let argv: Vec<String> = std::env::args().collect();
    if argv.len() < 2 {
        eprintln!("usage: mjv <cNN> [--tier quick|thorough] [--replay file]");
        std::process::exit(2);
    }
    let args = core::parse_args(&argv[2..]);
    if !argv.iter().any(|a| a == "--child") {
        // children of the supervised engines inherit the effective tier through the environment
        std::env::set_var("VERIF_TIER_EFFECTIVE", args.tier.name());
        std::env::set_var("VERIF_TIER", args.tier.name());
    }
    let code = match argv[1].to_ascii_lowercase().as_str() {
        "c01" => c01::main(args),
        "c02" => c02::main(args),
        "c03" => c03::main(args),
        "c04" => c04::main(args),
        "c05" => c05::main(args),
        "c06" => c06::main(args),
        "c07" => c07::main(args),
        "c08" => c08::main(args),
        "c09" => c09::main(args),
        "c10" => c10::main(args),
        "c11" => c11::main(args),
        "c12" => c12::main(args),
        "c13" => c13::main(args),
        "c14" => c14::main(args),
        "c15" => c15::main(args),
        "c16" => c16::main(args),
        "c17" => c17::main(args),
        "c18" => c18::main(args),
        "c19" => c19::main(args),
        "gensizes" => {
            print_gen_sizes();
            0
        }
        other => {
            eprintln!("unknown check {}", other);
            2
        }
    };
    std::process::exit(code);
}

#[allow(dead_code)]
pub fn print_gen_sizes() {
    for d in 1..=3 {
        for lc in [false, true] {
            let g = gen::Gen::new(gen::Opts { depth: d, max_programs: u64::MAX, multi_template: false, loop_controls: lc, extra_leaves: false });
            println!("depth {} loop_controls {} size {}", d, lc, g.size());
        }
    }
}
