//! C09 — subscripts and slices follow Python for every bound and step.
//! Exhaustive box: kind x len 0..=6 x start,stop in {omitted} U [-9,9] U {i64::MIN,i64::MAX}
//! x step in {omitted} U [-4,4] U {i64::MIN,i64::MAX}; literal and variable operand forms.
use crate::core::*;
use minijinja::value::{Tuple, Value};
use minijinja::{context, Environment};
use serde_json::{json, Value as J};

const KINDS: &[&str] = &[
    "str_ascii",
    "str_multibyte",
    "list",
    "tuple",
    "iter_sized",
    "iter_unsized",
    "bytes",
 "str_ascii_heap", "str_multibyte_heap", "str_multibyte_safe", "list_concat", "list_repeat", "list_reversed",
    // the subject written in the source (a constant the compiler may evaluate ahead of time)
    "str_ascii_lit", "str_multibyte_lit", "list_lit", "tuple_lit", "list_lit_concat"];

/// source text of the subject: `v` (a context value) or the literal itself
fn subject_src(kind: &str, len: usize) -> String {
    let ints = || (0..len).map(|i| i.to_string()).collect::<Vec<_>>();
    match kind {
        "str_ascii_lit" => format!("'{}'", ASCII[..len].iter().collect::<String>()),
        "str_multibyte_lit" => format!("'{}'", MULTI[..len].iter().collect::<String>()),
        "list_lit" => format!("[{}]", ints().join(", ")),
        "tuple_lit" => match len {
            0 => "()".to_string(),
            1 => "(0,)".to_string(),
            _ => format!("({})", ints().join(", ")),
        },
        "list_lit_concat" => format!("([{}] + [{}])", ints()[..len / 2].join(", "), ints()[len / 2..].join(", ")),
        _ => "v".to_string(),
    }
}
const ASCII: &[char] = &['a', 'b', 'c', 'd', 'e', 'f'];
const MULTI: &[char] = &['a', 'é', '☃', '😀', 'b', 'ç'];

fn bounds() -> Vec<Option<i64>> {
    let mut v = vec![None];
    for i in -9..=9 {
        v.push(Some(i));
    }
    v.push(Some(i64::MIN));
    v.push(Some(i64::MAX));
    v
}

fn steps() -> Vec<Option<i64>> {
    let mut v = vec![None];
    for i in -4..=4 {
        v.push(Some(i));
    }
    v.push(Some(i64::MIN));
    v.push(Some(i64::MAX));
    v
}

/// CPython's PySlice_AdjustIndices + iteration, on i128 so nothing can overflow.
pub fn py_slice_indices(len: usize, start: Option<i64>, stop: Option<i64>, step: Option<i64>) -> Vec<usize> {
    let len = len as i128;
    let step = step.unwrap_or(1) as i128;
    assert!(step != 0);
    let (lower, upper) = if step > 0 { (0, len) } else { (-1, len - 1) };
    let adj = |b: Option<i64>, dflt: i128| -> i128 {
        match b {
            None => dflt,
            Some(s) => {
                let s = s as i128;
                if s < 0 {
                    (s + len).max(lower)
                } else {
                    s.min(upper)
                }
            }
        }
    };
    let start = adj(start, if step < 0 { upper } else { lower });
    let stop = adj(stop, if step < 0 { lower } else { upper });
    let mut rv = vec![];
    let mut i = start;
    while (step > 0 && i < stop) || (step < 0 && i > stop) {
        rv.push(i as usize);
        i += step;
    }
    rv
}

fn make_value(kind: &str, len: usize) -> Value {
    let ints = || (0..len as i64).map(Value::from).collect::<Vec<_>>();
    match kind {
        k if k.ends_with("_lit") || k == "list_lit_concat" => Value::from(()),
        "str_ascii" => Value::from(ASCII[..len].iter().collect::<String>()),
        "str_multibyte" => Value::from(MULTI[..len].iter().collect::<String>()),
        // the same texts in the heap representation (shared string, safe string): short strings built
        // from &str are stored inline, so these are a different code path for lengths <= 6
        "str_ascii_heap" => Value::from(std::sync::Arc::<str>::from(ASCII[..len].iter().collect::<String>())),
        "str_multibyte_heap" => Value::from(std::sync::Arc::<str>::from(MULTI[..len].iter().collect::<String>())),
        "str_multibyte_safe" => Value::from_safe_string(MULTI[..len].iter().collect::<String>()),
        "list" => Value::from(ints()),
        // lazily combined sequences of known length (what `a + b`, `x * n` and `|reverse` hand out)
        "list_concat" => {
            let k = len / 2;
            let a: Vec<Value> = (0..k as i64).map(Value::from).collect();
            let b: Vec<Value> = (k as i64..len as i64).map(Value::from).collect();
            Environment::new().compile_expression("a + b").unwrap().eval(context! { a => a, b => b }).unwrap()
        }
        "list_repeat" => {
            // len elements 0..len as two repetitions are not a range; use a one-element step: [0]*0,
            // or the sequence [0, 1, .., len-1] written as ([...]) * 1
            let a: Vec<Value> = (0..len as i64).map(Value::from).collect();
            Environment::new().compile_expression("a * 1").unwrap().eval(context! { a => a }).unwrap()
        }
        "list_reversed" => {
            let a: Vec<Value> = (0..len as i64).rev().map(Value::from).collect();
            Environment::new().compile_expression("a|reverse").unwrap().eval(context! { a => a }).unwrap()
        }
        "tuple" => Value::from(Tuple::from(ints())),
        "iter_sized" => Value::make_iterable(move || 0..len as i64),
        "iter_unsized" => Value::make_iterable(move || (0..len as i64).filter(|_| true)),
        "bytes" => Value::from_bytes((0..len as u8).map(|b| b + 65).collect()),
        _ => unreachable!(),
    }
}

fn lit(b: Option<i64>) -> String {
    match b {
        None => String::new(),
        Some(v) => v.to_string(),
    }
}

fn cls(b: Option<i64>) -> &'static str {
    match b {
        None => "omitted",
        Some(i64::MIN) => "i64min",
        Some(i64::MAX) => "i64max",
        Some(0) => "zero",
        Some(v) if v < 0 => "neg",
        Some(_) => "pos",
    }
}

/// How a bound or key reaches the engine: 0 = written in the source, 1.. = a variable holding the integer
/// in one of the value model's integer storage widths.
const FORMS: &[&str] = &[
    "literal", "var_i64", "var_i128", "var_u64_or_i128", "var_u128_or_i128",
    // mixed: some bounds written in the source, the others variables (i64); the three letters say
    // which of start, stop, step are Variables / Literals
    "mix_VLL", "mix_LVL", "mix_LLV", "mix_VVL", "mix_VLV", "mix_LVV",
];

/// for every form, which of (start, stop, step) are supplied through variables
fn var_mask(form: u8) -> [bool; 3] {
    match form {
        0 => [false; 3],
        1..=4 => [true; 3],
        f => {
            let n = FORMS[f as usize].as_bytes();
            [n[4] == b'V', n[5] == b'V', n[6] == b'V']
        }
    }
}

fn ival(v: i64, form: u8) -> Value {
    match form {
        2 => Value::from(v as i128),
        3 if v >= 0 => Value::from(v as u64),
        4 if v >= 0 => Value::from(v as u128),
        3 | 4 => Value::from(v as i128),
        _ => Value::from(v),
    }
}

fn bval(b: Option<i64>, form: u8) -> Value {
    match b {
        None => Value::from(()),
        Some(v) => ival(v, form),
    }
}

#[derive(Clone, Debug)]
struct Case {
    kind: usize,
    len: usize,
    start: Option<i64>,
    stop: Option<i64>,
    step: Option<i64>,
    form: u8,
}

impl Case {
    fn name(&self) -> String {
        format!(
            "{} len={} [{}:{}:{}]{}",
            KINDS[self.kind],
            self.len,
            lit(self.start),
            lit(self.stop),
            lit(self.step),
            if self.form > 0 { format!(" {}", FORMS[self.form as usize]) } else { String::new() }
        )
    }
    fn to_json(&self) -> J {
        json!({"op": "slice", "kind": KINDS[self.kind], "len": self.len, "start": self.start, "stop": self.stop,
               "step": self.step, "form": self.form})
    }
}

fn expected_check(kind: &str, len: usize, idx: &[usize], got: &Value) -> Result<(), (String, String)> {
    // returns Err((class, detail))
    match kind {
        k if k.starts_with("str_") => {
            let src = if kind.starts_with("str_ascii") { ASCII } else { MULTI };
            let exp: String = idx.iter().map(|&i| src[..len][i]).collect();
            match got.as_str() {
                Some(s) if got.kind() == minijinja::value::ValueKind::String => {
                    if s == exp {
                        Ok(())
                    } else {
                        Err(("wrong_elements".into(), format!("expected {:?} got {:?}", exp, s)))
                    }
                }
                _ => Err(("wrong_kind".into(), format!("expected string got {:?}", got.kind()))),
            }
        }
        "bytes" => {
            let exp: Vec<u8> = idx.iter().map(|&i| i as u8 + 65).collect();
            match got.as_bytes() {
                Some(b) if got.kind() == minijinja::value::ValueKind::Bytes => {
                    if b == &exp[..] {
                        Ok(())
                    } else {
                        Err(("wrong_elements".into(), format!("expected {:?} got {:?}", exp, b)))
                    }
                }
                _ => Err(("wrong_kind".into(), format!("expected bytes got {:?}", got.kind()))),
            }
        }
        _ => {
            let exp: Vec<i64> = idx.iter().map(|&i| i as i64).collect();
            let kind = if kind == "tuple_lit" { "tuple" } else { kind };
            if kind == "tuple" && !got.is_tuple() {
                return Err(("wrong_kind".into(), format!("expected tuple got {:?}", got.kind())));
            }
            if kind != "tuple" && got.is_tuple() {
                return Err(("wrong_kind".into(), "unexpected tuple".into()));
            }
            if !matches!(
                got.kind(),
                minijinja::value::ValueKind::Seq | minijinja::value::ValueKind::Iterable
            ) {
                return Err(("wrong_kind".into(), format!("expected list-like got {:?}", got.kind())));
            }
            let items: Vec<Option<i64>> = match got.try_iter() {
                Ok(it) => it.map(|v| v.as_i64()).collect(),
                Err(e) => return Err(("not_iterable".into(), e.to_string())),
            };
            // iterate a second time: the result must be re-iterable with the same content
            let items2: Vec<Option<i64>> = got.try_iter().unwrap().map(|v| v.as_i64()).collect();
            if items != items2 {
                return Err(("unstable_iteration".into(), format!("{:?} then {:?}", items, items2)));
            }
            let expo: Vec<Option<i64>> = exp.iter().map(|&x| Some(x)).collect();
            if items == expo {
                Ok(())
            } else {
                Err(("wrong_elements".into(), format!("expected {:?} got {:?}", exp, items)))
            }
        }
    }
}

fn run_slice(env: &Environment, c: &Case) -> Result<(), Failure> {
    let kind = KINDS[c.kind];
    let v = make_value(kind, c.len);
    let res = catch(|| {
        let m = var_mask(c.form);
        let part = |is_var: bool, name: &str, b: Option<i64>| if is_var { name.to_string() } else { lit(b) };
        let src = format!("{}[{}:{}:{}]", subject_src(kind, c.len), part(m[0], "a", c.start), part(m[1], "b", c.stop), part(m[2], "c", c.step));
        let expr = match env.compile_expression(&src) {
            Ok(e) => e,
            Err(e) => return Err(e),
        };
        expr.eval(context! { v => v, a => bval(c.start, c.form), b => bval(c.stop, c.form), c => bval(c.step, c.form) })
    });
    let step_sign = match c.step {
        Some(0) => "zero",
        Some(s) if s < 0 => "neg",
        _ => "pos",
    };
    let mk = |class: &str, detail: String| Failure {
        key: format!(
            "slice {} kind={} step={} start={} stop={}",
            class,
            kind,
            if matches!(c.step, Some(i64::MIN)) { "i64min" } else { step_sign },
            cls(c.start),
            cls(c.stop)
        ),
        case: c.name(),
        detail,
        replay: c.to_json(),
    };
    let res = match res {
        Err(p) => return Err(mk("panic", format!("panic: {} at {}", p, last_panic_loc()))),
        Ok(r) => r,
    };
    if c.step == Some(0) {
        return match res {
            Err(_) => Ok(()),
            Ok(v) => Err(mk("missing_error", format!("zero step returned {:?}", v))),
        };
    }
    let got = match res {
        Ok(v) => v,
        Err(e) => return Err(mk("unexpected_error", format!("{:#}", e))),
    };
    let idx = py_slice_indices(c.len, c.start, c.stop, c.step);
    // materialising the result may panic too (lazy slices)
    match catch(|| expected_check(kind, c.len, &idx, &got)) {
        Err(p) => return Err(mk("panic", format!("panic while iterating: {} at {}", p, last_panic_loc()))),
        Ok(Ok(())) => {}
        Ok(Err((class, detail))) => return Err(mk(&class, detail)),
    }
    // a slice is a sequence in its own right: what a second operation sees (its length, counting
    // from its end, slicing it again) must agree with the elements it just produced
    let n = idx.len();
    let second = catch(|| -> Result<(), String> {
        let e = |src: &str| env.compile_expression(src).unwrap().eval(context! { r => got.clone() });
        if !kind.starts_with("iter_unsized") {
            if let Ok(l) = e("r|length") {
                if l.as_usize() != Some(n) {
                    return Err(format!("the slice has {} elements but r|length is {:?}", n, l));
                }
            }
        }
        let elem = |k: usize| -> Value { e(&format!("(r|list)[{}]", k)).unwrap_or(Value::UNDEFINED) };
        let chars = kind.starts_with("str_") || kind == "bytes";
        if !chars {
            let last = e("r[-1]").map_err(|x| x.to_string())?;
            if n == 0 && !last.is_undefined() {
                return Err(format!("r[-1] of an empty slice is {:?}", last));
            }
            if n > 0 && last != elem(n - 1) {
                return Err(format!("r[-1] is {:?} but the last element is {:?}", last, elem(n - 1)));
            }
            let tail = e("r[-2:]|list").map_err(|x| x.to_string())?;
            let want: Vec<Value> = (n.saturating_sub(2)..n).map(elem).collect();
            if tail != Value::from(want.clone()) {
                return Err(format!("r[-2:] is {:?} but the last two elements are {:?}", tail, want));
            }
            let rev = e("r[::-1]|list").map_err(|x| x.to_string())?;
            let want: Vec<Value> = (0..n).rev().map(elem).collect();
            if rev != Value::from(want.clone()) {
                return Err(format!("r[::-1] is {:?} but the elements reversed are {:?}", rev, want));
            }
        }
        Ok(())
    });
    match second {
        Err(p) => Err(mk("panic", format!("panic in a second operation on the slice: {} at {}", p, last_panic_loc()))),
        Ok(Err(d)) => Err(mk("second_operation_disagrees", d)),
        Ok(Ok(())) => Ok(()),
    }
}

fn sub_indices() -> Vec<i64> {
    let mut v: Vec<i64> = (-9..=9).collect();
    v.push(i64::MIN);
    v.push(i64::MAX);
    v
}

fn run_subscript(env: &Environment, kind_i: usize, len: usize, i: i64, form: u8) -> Result<(), Failure> {
    let kind = KINDS[kind_i];
    let v = make_value(kind, len);
    let case = format!("{} len={} [{}] {}", kind, len, i, FORMS[form as usize]);
    let mk = |class: &str, detail: String| Failure {
        key: format!(
            "subscript {} kind={} index={}",
            class,
            kind,
            cls(Some(i))
        ),
        case: case.clone(),
        detail,
        replay: json!({"op": "subscript", "kind": kind, "len": len, "index": i, "form": form}),
    };
    let res = catch(|| {
        let subj = subject_src(kind, len);
        if form > 0 {
            env.compile_expression(&format!("{}[i]", subj))?.eval(context! { v => v, i => ival(i, form) })
        } else {
            let src = format!("{}[{}]", subj, i);
            env.compile_expression(&src)?.eval(context! { v => v })
        }
    });
    let got = match res {
        Err(p) => return Err(mk("panic", format!("panic: {} at {}", p, last_panic_loc()))),
        Ok(Err(e)) => return Err(mk("unexpected_error", format!("{:#}", e))),
        Ok(Ok(v)) => v,
    };
    let li = len as i128;
    let ii = i as i128;
    let pos = if ii < 0 { ii + li } else { ii };
    if pos < 0 || pos >= li {
        // Python raises IndexError; Jinja turns a failed subscript into undefined
        return if got.is_undefined() {
            Ok(())
        } else {
            Err(mk("out_of_range_not_undefined", format!("got {:?}", got)))
        };
    }
    let pos = pos as usize;
    let ok = match kind {
        k if k.starts_with("str_ascii") => got.as_str() == Some(&ASCII[pos].to_string()),
        k if k.starts_with("str_multibyte") => got.as_str() == Some(&MULTI[pos].to_string()),
        "bytes" => got.as_i64() == Some(pos as i64 + 65),
        _ => got.as_i64() == Some(pos as i64),
    };
    if ok {
        Ok(())
    } else {
        Err(mk("wrong_element", format!("expected element {} got {:?}", pos, got)))
    }
}

pub fn replay_case(j: &J) -> Result<(), Failure> {
    let env = Environment::new();
    let kind = KINDS
        .iter()
        .position(|k| Some(*k) == j["kind"].as_str())
        .expect("kind");
    let len = j["len"].as_u64().unwrap() as usize;
    let vf = j["form"].as_u64().map(|f| f as u8).unwrap_or(if j["variable_form"].as_bool().unwrap_or(false) { 1 } else { 0 });
    if j["op"] == "subscript" {
        run_subscript(&env, kind, len, j["index"].as_i64().unwrap(), vf)
    } else {
        run_slice(
            &env,
            &Case {
                kind,
                len,
                start: j["start"].as_i64(),
                stop: j["stop"].as_i64(),
                step: j["step"].as_i64(),
                form: vf,
            },
        )
    }
}

pub fn main(args: Args) -> i32 {
    let start_t = std::time::Instant::now();
    install_quiet_panic_hook();
    if let Some(p) = &args.replay {
        let doc = load_replay(p);
        return match replay_case(&doc["replay"]) {
            Ok(()) => {
                println!("replay: case passes");
                0
            }
            Err(f) => {
                println!("VIOLATION property=C09 replay={}  # {} :: {}", p, f.key, f.detail);
                1
            }
        };
    }
    let acc = Acc::new();
    let bs = bounds();
    let ss = steps();
    let nb = bs.len() as u64;
    let ns = ss.len() as u64;
    let combos = nb * nb * ns;
    par_chunks(combos, 16, &acc, |r, l| {
        let env = Environment::new();
        for n in r {
            let start = bs[(n / (nb * ns)) as usize];
            let stop = bs[((n / ns) % nb) as usize];
            let step = ss[(n % ns) as usize];
            for kind in 0..KINDS.len() {
                for len in 0..=6usize {
                    for vf in 0..FORMS.len() as u8 {
                        // mixtures of written and variable bounds matter where the compiler may
                        // evaluate ahead of time: the literal subjects, and two context subjects as controls
                        if vf >= 5 && !(KINDS[kind].contains("_lit") || KINDS[kind] == "list" || KINDS[kind] == "str_multibyte") {
                            continue;
                        }
                        let c = Case { kind, len, start, stop, step, form: vf };
                        l.evals += 1;
                        match run_slice(&env, &c) {
                            Ok(()) => {
                                if step != Some(0) {
                                    let idx = py_slice_indices(len, start, stop, step);
                                    l.outcome(&format!("ok selected={}", idx.len()));
                                    if !idx.is_empty() && vf == 0 {
                                        // distinct non-trivial: a non-empty selection, keyed by (kind,len,indices)
                                        l.nontrivial.insert(fnv(format!("{}|{}|{:?}", kind, len, idx).as_bytes()));
                                    }
                                } else {
                                    l.outcome("zero step error");
                                }
                            }
                            Err(f) => {
                                l.outcome("FAIL");
                                acc.fail(f);
                            }
                        }
                    }
                }
            }
        }
    });
    // subscripts
    let subs = sub_indices();
    par_chunks(subs.len() as u64, 1, &acc, |r, l| {
        let env = Environment::new();
        for n in r {
            let i = subs[n as usize];
            for kind in 0..KINDS.len() {
                for len in 0..=6usize {
                    for vf in 0..5u8 {
                        l.evals += 1;
                        match run_subscript(&env, kind, len, i, vf) {
                            Ok(()) => {
                                l.outcome("subscript ok");
                                l.nontrivial.insert(fnv(format!("sub|{}|{}|{}", kind, len, i).as_bytes()));
                            }
                            Err(f) => {
                                l.outcome("FAIL");
                                acc.fail(f);
                            }
                        }
                    }
                }
            }
        }
    });
    acc.sample(json!({"expr": "v[-3::-2]", "v": "list of len 5", "expected_indices": py_slice_indices(5, Some(-3), None, Some(-2))}));
    acc.sample(json!({"expr": "v[7:0:-1]", "v": "'aé☃😀b' (len 5)", "expected_indices": py_slice_indices(5, Some(7), Some(0), Some(-1))}));
    acc.sample(json!({"expr": "v[a:b:c]", "a": i64::MIN, "b": null, "c": i64::MAX, "v": "tuple of len 6", "expected_indices": py_slice_indices(6, Some(i64::MIN), None, Some(i64::MAX))}));
    finish(
        Finish {
            property: "C09",
            level: "exploration",
            tier: args.tier,
            seed: args.seed,
            rule: "complete box: 18 kinds (ASCII and multi-byte strings in inline, shared-heap and safe-string storage, list, tuple, sized and unsized lazy iterables, bytes, lazily concatenated / repeated / reversed lists; string, list, tuple and concatenated-list subjects written as literals in the source); every slice result is also used as an operand (its |length, [-1], [-2:], [::-1] must agree with the elements it produced) x len 0..=6 x start,stop in {omitted}U[-9,9]U{i64::MIN,i64::MAX} x step in {omitted}U[-4,4]U{i64::MIN,i64::MAX} x 11 forms of the bounds (all written in the source; all variables holding the integer as i64, i128, u64 or u128 - what |int, serde and the embedding program produce; every mixture of written and variable bounds) and 5 of a key, plus subscripts v[i] for i in [-9,9]U{i64::MIN,i64::MAX}; oracle = CPython PySlice_AdjustIndices transcribed on i128 + result-kind rule; a case is distinct non-trivial when it selects a non-empty index list, keyed by (kind,len,selected indices)".into(),
            exhaustive: true,
            bound: json!({"kinds": KINDS, "len": "0..=6", "start_stop": "omitted, -9..=9, i64::MIN, i64::MAX", "step": "omitted, -4..=4, i64::MIN, i64::MAX"}),
            assumptions: vec![
                "bounds beyond i64 (which the engine rejects with an error) are outside the box".into(),
                "the Python reference is a transcription of PySlice_AdjustIndices, trusted".into(),
            ],
            extra: Default::default(),
            start: start_t,
        },
        &acc,
    )
}
