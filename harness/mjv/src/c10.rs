//! C10 — verbatim text, whitespace control (independent model of the rules) and delimiter
//! independence (metamorphic rewriting of tags under a family of syntax configurations).
use crate::core::*;
use crate::gen;
use minijinja::syntax::SyntaxConfig;
use minijinja::{context, Environment};
use serde_json::{json, Value as J};

pub const TEXTS_FULL: &[&str] = &[
    "", " ", "\t", "\n", "\r\n", " \n ", "a", "a\n", "\n a", "{a", "}", "%}", "a b", "  a  ", "\r", "\r \t ", " \r\n \r ",
];
/// whitespace beyond blank / tab / CR / LF: vertical tab, form feed, NEL, no-break space, em space, line
/// separator, ideographic space, ogham space mark - and two look-alikes that are not whitespace (zero
/// width space, byte order mark)
pub const TEXTS_UNI: &[&str] = &[
    "", " ", "\n", "a", "\u{b}", "\u{c}", "\u{85}", "\u{a0}", " \u{2003}", "\u{2028}", "\u{3000} \n", "\n\u{a0}", "a\u{a0}", "\u{a0}a", "\u{1680}\t", "\u{200b}", " \u{feff} ", "\n \u{b}", "\u{a0}\n",
];
pub const TEXTS_CORE: &[&str] = &["", " ", "\n", " \n ", "a", "\r\n"];

#[derive(Clone, Copy, Debug, PartialEq, Eq)]
pub enum Mk {
    None,
    Minus,
    Plus,
}
const MKS: [Mk; 3] = [Mk::None, Mk::Minus, Mk::Plus];

impl Mk {
    fn s(self) -> &'static str {
        match self {
            Mk::None => "",
            Mk::Minus => "-",
            Mk::Plus => "+",
        }
    }
}

#[derive(Clone, Copy, Debug, PartialEq, Eq)]
pub enum Kind {
    Var,
    Block,
    Comment,
    Raw,
}
const KINDS: [Kind; 4] = [Kind::Var, Kind::Block, Kind::Comment, Kind::Raw];

/// how the inside of a tag is written: padded with blanks, without any blank, or (comments) with no
/// body at all — the markers then sit directly against each other or against the delimiters
#[derive(Clone, Copy, Debug, PartialEq, Eq)]
pub enum Body {
    Padded,
    Tight,
    Empty,
}

#[derive(Clone, Debug)]
pub struct Tag {
    pub kind: Kind,
    pub body: Body,
    pub left: Mk,
    pub right: Mk,
    // raw only
    pub inner_l: Mk, // {% raw X%}
    pub inner_r: Mk, // {%X endraw %}
    pub content: &'static str,
}

impl Tag {
    /// the same tag written with another delimiter set
    fn source_with(&self, d: &Delims) -> String {
        let (l, r) = (self.left.s(), self.right.s());
        let pad = if self.body == Body::Padded { " " } else { "" };
        match self.kind {
            Kind::Var => format!("{}{}{}v{}{}{}", d.var.0, l, pad, pad, r, d.var.1),
            Kind::Block => format!("{}{}{}set x = 1{}{}{}", d.block.0, l, pad, pad, r, d.block.1),
            Kind::Comment => {
                if self.body == Body::Empty {
                    format!("{}{}{}{}", d.comment.0, l, r, d.comment.1)
                } else {
                    format!("{}{}{}c{}{}{}", d.comment.0, l, pad, pad, r, d.comment.1)
                }
            }
            Kind::Raw => format!("{}{} raw {}{}{}{}{} endraw {}{}", d.block.0, l, self.inner_l.s(), d.block.1, self.content, d.block.0, self.inner_r.s(), r, d.block.1),
        }
    }

    fn source(&self) -> String {
        let (l, r) = (self.left.s(), self.right.s());
        match (self.kind, self.body) {
            (Kind::Var, Body::Tight) => return format!("{{{{{}v{}}}}}", l, r),
            (Kind::Block, Body::Tight) => return format!("{{%{}set x = 1{}%}}", l, r),
            (Kind::Comment, Body::Tight) => return format!("{{#{}c{}#}}", l, r),
            (Kind::Comment, Body::Empty) => return format!("{{#{}{}#}}", l, r),
            _ => {}
        }
        match self.kind {
            Kind::Var => format!("{{{{{} v {}}}}}", l, r),
            Kind::Block => format!("{{%{} set x = 1 {}%}}", l, r),
            Kind::Comment => format!("{{#{} c {}#}}", l, r),
            Kind::Raw => format!(
                "{{%{} raw {}%}}{}{{%{} endraw {}%}}",
                l,
                self.inner_l.s(),
                self.content,
                self.inner_r.s(),
                r
            ),
        }
    }
}

#[derive(Clone, Copy, Debug)]
pub struct Cfg {
    pub trim_blocks: bool,
    pub lstrip_blocks: bool,
    pub keep_trailing_newline: bool,
}

fn is_hws(c: char) -> bool {
    c.is_whitespace() && c != '\n' && c != '\r'
}

fn strip_one_newline_front(t: &str) -> &str {
    let t = t.strip_prefix('\r').unwrap_or(t);
    t.strip_prefix('\n').unwrap_or(t)
}

/// does the trailing horizontal whitespace of `orig` reach back to a line start?
/// `at_file_start`: nothing precedes `orig` in the source.
fn trailing_hws_at_line_start(orig: &str, at_file_start: bool) -> bool {
    let body = orig.trim_end_matches(is_hws);
    if body.is_empty() {
        at_file_start
    } else {
        body.ends_with('\n')
    }
}

/// The independent model of the whitespace rules, exactly as the property names them.
pub fn model(texts: &[&str], tags: &[Tag], cfg: Cfg) -> String {
    assert_eq!(texts.len(), tags.len() + 1);
    let mut out = String::new();
    let n = texts.len();
    for i in 0..n {
        let orig = texts[i];
        let mut t: &str = orig;
        // one trailing newline of the template
        if i == n - 1 && !cfg.keep_trailing_newline {
            if let Some(x) = t.strip_suffix('\n') {
                t = x;
                if let Some(y) = t.strip_suffix('\r') {
                    t = y;
                }
            } else if let Some(x) = t.strip_suffix('\r') {
                t = x;
            }
        }
        let final_orig = t;
        // right side of the previous tag
        let mut lone_cr_removed = false;
        if i > 0 {
            let prev = &tags[i - 1];
            match prev.right {
                Mk::Minus => t = t.trim_start(),
                Mk::Plus => {}
                Mk::None => {
                    if cfg.trim_blocks && prev.kind != Kind::Var {
                        // a lone CR counts as the newline following the tag, like LF and CRLF
                        lone_cr_removed = t.starts_with('\r') && !t.starts_with("\r\n");
                        t = strip_one_newline_front(t);
                    }
                }
            }
        }
        // left side of the next tag
        if i < tags.len() {
            let next = &tags[i];
            match next.left {
                Mk::Minus => t = t.trim_end(),
                Mk::Plus => {}
                Mk::None => {
                    // a line starts after LF (CRLF included), at the start of the file, or right after a
                    // lone CR that trim_blocks has just removed; blanks after any other lone CR stay
                    // (the rules name "the start of a line" and are silent about a bare CR: this is what
                    // the engine does, written down so that a change of it is noticed)
                    if cfg.lstrip_blocks && next.kind != Kind::Var && (trailing_hws_at_line_start(final_orig, i == 0) || (lone_cr_removed && t.chars().all(is_hws))) {
                        t = t.trim_end_matches(is_hws);
                    }
                }
            }
        }
        out.push_str(t);
        if i < tags.len() {
            let tag = &tags[i];
            match tag.kind {
                Kind::Var => out.push_str("<V>"),
                Kind::Block | Kind::Comment => {}
                Kind::Raw => {
                    let mut c: &str = tag.content;
                    match tag.inner_l {
                        Mk::Minus => c = c.trim_start(),
                        Mk::Plus => {}
                        Mk::None => {
                            if cfg.trim_blocks {
                                c = strip_one_newline_front(c);
                            }
                        }
                    }
                    match tag.inner_r {
                        Mk::Minus => c = c.trim_end(),
                        Mk::Plus => {}
                        Mk::None => {
                            // judged on the original source: the content is preceded by the raw tag's
                            // end delimiter, so only whitespace after a newline inside the content is
                            // "between the start of a line and the tag"
                            if cfg.lstrip_blocks && trailing_hws_at_line_start(tag.content, false) {
                                c = c.trim_end_matches(is_hws);
                            }
                        }
                    }
                    out.push_str(c);
                }
            }
        }
    }
    out
}

fn make_env(cfg: Cfg) -> Environment<'static> {
    let mut env = Environment::new();
    env.set_trim_blocks(cfg.trim_blocks);
    env.set_lstrip_blocks(cfg.lstrip_blocks);
    env.set_keep_trailing_newline(cfg.keep_trailing_newline);
    env
}

fn cfgs() -> Vec<Cfg> {
    let mut v = vec![];
    for a in [false, true] {
        for b in [false, true] {
            for c in [false, true] {
                v.push(Cfg { trim_blocks: a, lstrip_blocks: b, keep_trailing_newline: c });
            }
        }
    }
    v
}

fn outer_tags() -> Vec<Tag> {
    let mut v = vec![];
    for kind in KINDS {
        for l in MKS {
            for r in MKS {
                v.push(Tag { kind, body: Body::Padded, left: l, right: r, inner_l: Mk::None, inner_r: Mk::None, content: "\n r \n" });
            }
        }
    }
    v
}

/// tags written without blanks and comments without a body.  `{#-#}` is a comment with a left
/// marker and no right one, so body-less comments with only a right marker are not a distinct source
fn compact_tags() -> Vec<Tag> {
    let mut v = vec![];
    for (kind, body) in [(Kind::Var, Body::Tight), (Kind::Block, Body::Tight), (Kind::Comment, Body::Tight), (Kind::Comment, Body::Empty)] {
        for l in MKS {
            for r in MKS {
                if body == Body::Empty && l == Mk::None && r != Mk::None {
                    continue;
                }
                v.push(Tag { kind, body, left: l, right: r, inner_l: Mk::None, inner_r: Mk::None, content: "" });
            }
        }
    }
    v
}

fn build_source(texts: &[&str], tags: &[Tag]) -> String {
    let mut s = String::new();
    for i in 0..texts.len() {
        s.push_str(texts[i]);
        if i < tags.len() {
            s.push_str(&tags[i].source());
        }
    }
    s
}

fn case_json(texts: &[&str], tags: &[Tag], ci: usize) -> J {
    json!({"family": "ws", "texts": texts, "cfg": ci,
        "tags": tags.iter().map(|t| json!({"kind": format!("{:?}", t.kind), "body": format!("{:?}", t.body), "left": t.left.s(), "right": t.right.s(), "inner_l": t.inner_l.s(), "inner_r": t.inner_r.s(), "content": t.content})).collect::<Vec<_>>()})
}

fn check_ws_case(envs: &[Environment<'static>], cfgs: &[Cfg], texts: &[&str], tags: &[Tag], ci: usize, acc: &Acc, l: &mut Local) {
    let src = build_source(texts, tags);
    l.evals += 1;
    let got = catch(|| envs[ci].render_str(&src, context! { v => "<V>" }));
    let exp = model(texts, tags, cfgs[ci]);
    let cfg = cfgs[ci];
    let mk = |class: &str, detail: String| {
        let kinds: Vec<String> = tags.iter().map(|t| format!("{:?}", t.kind)).collect();
        Failure {
            key: format!(
                "ws {} tags=[{}]{} trim_blocks={} lstrip_blocks={} raw_inner={}",
                class,
                kinds.join(","),
                if tags.iter().any(|t| t.body != Body::Padded) { " compact_body" } else { "" },
                cfg.trim_blocks,
                cfg.lstrip_blocks,
                tags.iter().any(|t| t.kind == Kind::Raw && (t.inner_l != Mk::None || t.inner_r != Mk::None || t.content != "\n r \n"))
            ),
            case: format!("{:?} cfg={}", src, ci),
            detail,
            replay: case_json(texts, tags, ci),
        }
    };
    match got {
        Err(p) => acc.fail(mk("panic", format!("{} at {}", p, last_panic_loc()))),
        Ok(Err(e)) => acc.fail(mk("error", format!("source {:?} failed: {}", src, e))),
        Ok(Ok(out)) => {
            if out != exp {
                acc.fail(mk("mismatch", format!("source {:?} cfg {:?}: engine {:?} model {:?}", src, cfg, out, exp)));
            } else {
                // distinct non-trivial: sources in which the full setting (all three on... cfg 6: trim+lstrip)
                // strips something; counted once per source
                if ci == 6 && tags.len() < 3 && exp.len() != texts.iter().map(|t| t.len()).sum::<usize>() + 3 * tags.iter().filter(|t| t.kind == Kind::Var).count() + tags.iter().filter(|t| t.kind == Kind::Raw).map(|t| t.content.len()).sum::<usize>() {
                    l.nontrivial.insert(fnv(src.as_bytes()));
                }
                l.outcome(if exp.len() == texts.iter().map(|t| t.len()).sum::<usize>() + 3 * tags.iter().filter(|t| t.kind == Kind::Var).count() + tags.iter().filter(|t| t.kind == Kind::Raw).map(|t| t.content.len()).sum::<usize>() { "nothing stripped" } else { "stripped" });
            }
        }
    }
}

fn mk_from(s: &str) -> Mk {
    match s {
        "-" => Mk::Minus,
        "+" => Mk::Plus,
        _ => Mk::None,
    }
}

fn leak(s: &str) -> &'static str {
    Box::leak(s.to_string().into_boxed_str())
}

// ---------------------------------------------------------------------------------------------
// delimiter metamorphosis

#[derive(Clone, Debug)]
pub struct Delims {
    pub name: &'static str,
    pub block: (&'static str, &'static str),
    pub var: (&'static str, &'static str),
    pub comment: (&'static str, &'static str),
    pub line_stmt: Option<&'static str>,
    pub line_comment: Option<&'static str>,
}

pub fn delim_family() -> Vec<Delims> {
    let v = vec![
        Delims { name: "erb-prefix-sharing", block: ("<%", "%>"), var: ("<%=", "%>"), comment: ("<%#", "%>"), line_stmt: None, line_comment: None },
        Delims { name: "nested-prefix", block: ("<<", ">>"), var: ("<<<", ">>>"), comment: ("<<#", "#>>"), line_stmt: None, line_comment: None },
        Delims { name: "single-brace", block: ("{%", "%}"), var: ("{", "}"), comment: ("{#", "#}"), line_stmt: None, line_comment: None },
        Delims { name: "latex", block: ("\\BLOCK{", "}"), var: ("\\VAR{", "}"), comment: ("\\#{", "}"), line_stmt: None, line_comment: None },
        Delims { name: "shared-end", block: ("[%", "]"), var: ("[[", "]"), comment: ("[#", "]"), line_stmt: None, line_comment: None },
        Delims { name: "square", block: ("[%", "%]"), var: ("[[", "]]"), comment: ("[#", "#]"), line_stmt: None, line_comment: None },
        Delims { name: "default+line", block: ("{%", "%}"), var: ("{{", "}}"), comment: ("{#", "#}"), line_stmt: Some("#"), line_comment: Some("##") },
        Delims { name: "erb+line", block: ("<%", "%>"), var: ("<%=", "%>"), comment: ("<%#", "%>"), line_stmt: Some("%%"), line_comment: Some("%#") },
        Delims { name: "long", block: ("<!--{", "}-->"), var: ("${", "}"), comment: ("<!--#", "#-->"), line_stmt: None, line_comment: None },
        Delims { name: "php", block: ("<?", "?>"), var: ("<?=", "?>"), comment: ("<!--", "-->"), line_stmt: None, line_comment: None },
    ];
    // line-statement / line-comment prefixes that overlap with the tag delimiters in every way the
    // start-marker search can confuse: prefix is a suffix of a delimiter, a prefix of one, equal to a
    // character inside one, or shares its first character with the comment prefix
    let mut v = v;
    let bases: [(&'static str, (&'static str, &'static str), (&'static str, &'static str), (&'static str, &'static str)); 5] = [
        ("default", ("{%", "%}"), ("{{", "}}"), ("{#", "#}")),
        ("erb", ("<%", "%>"), ("<%=", "%>"), ("<%#", "%>")),
        ("nested", ("<<", ">>"), ("<<<", ">>>"), ("<<#", "#>>")),
        ("square", ("[%", "%]"), ("[[", "]]"), ("[#", "#]")),
        ("brace", ("{%", "%}"), ("{", "}"), ("{#", "#}")),
    ];
    let prefixes: [(&'static str, &'static str); 6] = [("%", "%#"), ("#", "##"), ("%%", "%#"), ("<", "<#"), ("//", "///"), ("=", "=="),];
    for (bname, block, var, comment) in bases {
        for (ls, lc) in prefixes {
            let name: &'static str = Box::leak(format!("{}+ls[{}]lc[{}]", bname, ls, lc).into_boxed_str());
            v.push(Delims { name, block, var, comment, line_stmt: Some(ls), line_comment: Some(lc) });
        }
    }
    v
}

pub fn syntax_of(d: &Delims) -> Result<SyntaxConfig, minijinja::Error> {
    let mut b = SyntaxConfig::builder();
    b.block_delimiters(d.block.0, d.block.1)
        .variable_delimiters(d.var.0, d.var.1)
        .comment_delimiters(d.comment.0, d.comment.1);
    if let Some(p) = d.line_stmt {
        b.line_statement_prefix(p);
    }
    if let Some(p) = d.line_comment {
        b.line_comment_prefix(p);
    }
    b.build()
}

fn render_pieces(pieces: &[gen::Piece], d: Option<&Delims>) -> String {
    let dflt = Delims { name: "default", block: ("{%", "%}"), var: ("{{", "}}"), comment: ("{#", "#}"), line_stmt: None, line_comment: None };
    let d = d.unwrap_or(&dflt);
    let mut s = String::new();
    for p in pieces {
        match p {
            gen::Piece::Text(t) => s.push_str(t),
            gen::Piece::Var(e) => {
                s.push_str(d.var.0);
                s.push(' ');
                s.push_str(e);
                s.push(' ');
                s.push_str(d.var.1);
            }
            gen::Piece::Block(b) => {
                s.push_str(d.block.0);
                s.push(' ');
                s.push_str(b);
                s.push(' ');
                s.push_str(d.block.1);
            }
            gen::Piece::Comment(c) => {
                s.push_str(d.comment.0);
                s.push(' ');
                s.push_str(c);
                s.push(' ');
                s.push_str(d.comment.1);
            }
        }
    }
    s
}

/// A program is usable under a delimiter set when none of its text pieces or expression/statement
/// bodies contains any of the set's delimiters (otherwise the rewrite is not meaning-preserving by
/// construction, not by a defect).
fn compatible(pieces: &[gen::Piece], d: &Delims) -> bool {
    let mut marks: Vec<&str> = vec![d.block.0, d.block.1, d.var.0, d.var.1, d.comment.0, d.comment.1];
    if let Some(p) = d.line_stmt {
        marks.push(p);
    }
    if let Some(p) = d.line_comment {
        marks.push(p);
    }
    for p in pieces {
        let body = match p {
            gen::Piece::Text(t) => t.as_str(),
            gen::Piece::Var(e) => e.as_str(),
            gen::Piece::Block(b) => b.as_str(),
            gen::Piece::Comment(c) => c.as_str(),
        };
        if marks.iter().any(|m| body.contains(m)) {
            return false;
        }
        if let gen::Piece::Text(t) = p {
            // text ending in a proper prefix of a start delimiter would fuse with the next tag
            for start in [d.block.0, d.var.0, d.comment.0] {
                for cut in 1..start.len() {
                    if start.is_char_boundary(cut) && t.ends_with(&start[..cut]) {
                        return false;
                    }
                }
            }
        }
    }
    true
}

fn check_delims(opts: gen::Opts, stride: u64, acc: &Acc) {
    let fam = delim_family();
    let mut envs: Vec<(Delims, Environment<'static>)> = vec![];
    for d in &fam {
        match syntax_of(d) {
            Ok(sc) => {
                let mut env = Environment::new();
                env.set_syntax(sc);
                envs.push((d.clone(), env));
            }
            Err(e) => {
                acc.note(format!("delimiter set {} rejected by build(): {}", d.name, e));
            }
        }
    }
    acc.count("delimiter_sets", envs.len() as u64);
    let ctxs = gen::contexts();
    let size = gen::Gen::new(opts).size();
    let n_prog = (size + stride - 1) / stride;
    acc.count("delimiter_programs", n_prog);
    acc.count("delimiter_program_space", size);
    acc.count("delimiter_program_stride", stride);
    par_chunks(n_prog, 256, acc, |range, l| {
      let g = gen::Gen::new(opts);
      let base_env = Environment::new();
      for k in range {
        let pi = k * stride;
        let prog = g.program(pi);
        let pieces = &prog.pieces;
        let base_src = render_pieces(pieces, None);
        for (ci, ctx) in ctxs.iter().enumerate() {
            let base = catch(|| base_env.render_str(&base_src, ctx.clone()).map_err(|e| e.kind()));
            let base = match base {
                Ok(b) => b,
                Err(_) => continue, // crashes are C01's business
            };
            for (d, env) in &envs {
                if !compatible(pieces, d) {
                    continue;
                }
                let src = render_pieces(pieces, Some(d));
                l.evals += 1;
                let got = catch(|| env.render_str(&src, ctx.clone()).map_err(|e| e.kind()));
                let mk = |class: &str, detail: String| Failure {
                    key: format!("delims {} set={}", class, d.name),
                    case: format!("depth{} program#{} ctx#{} set={}", opts.depth, pi, ci, d.name),
                    detail,
                    replay: json!({"family": "delims", "program": pi, "ctx": ci, "set": d.name, "source_default": base_src, "source_rewritten": src}),
                };
                match got {
                    Err(p) => acc.fail(mk("panic", format!("{:?}: {} at {}", src, p, last_panic_loc()))),
                    Ok(g) => {
                        if g != base {
                            acc.fail(mk("differs", format!("default {:?} -> {:?}; rewritten {:?} -> {:?}", base_src, base, src, g)));
                        } else {
                            l.outcome(if g.is_ok() { "same output" } else { "same error kind" });
                            l.nontrivial.insert(fnv(src.as_bytes()));
                        }
                    }
                }
                // default-looking delimiters embedded as text come out verbatim under the custom set
                if ci == 0 && !["single-brace", "default+line"].contains(&d.name) && !d.name.starts_with("default+") && !d.name.starts_with("brace+") {
                    let lookalike = "{{ v }}{% if %}{# c #}{";
                    let src2 = format!("{}{}", lookalike, src);
                    l.evals += 1;
                    match catch(|| env.render_str(&src2, ctx.clone()).map_err(|e| e.kind())) {
                        Err(p) => acc.fail(mk("panic_lookalike", format!("{:?}: {}", src2, p))),
                        Ok(g2) => {
                            let want = base.clone().map(|b| format!("{}{}", lookalike, b));
                            if g2 != want {
                                acc.fail(mk("lookalike_not_verbatim", format!("{:?} -> {:?}, wanted {:?}", src2, g2, want)));
                            }
                        }
                    }
                }
            }
        }
      }
    });
    // line statements / comments behave like the tag occupying the whole line
    let line_sets: Vec<&(Delims, Environment<'static>)> = envs.iter().filter(|(d, _)| d.line_stmt.is_some() && !d.name.contains("+ls[")).collect();
    for (d, env) in line_sets {
        let ls = d.line_stmt.unwrap();
        let lc = d.line_comment.unwrap();
        let bodies = ["if x", "for i in [1, 2]", "set q = 1"];
        let ends = ["endif", "endfor", ""];
        for (bi, body) in bodies.iter().enumerate() {
            for indent in ["", "  ", "\t"] {
                for nl in ["\n", "\r\n"] {
                    for inner in ["a", " a ", "a\nb"] {
                        for trailing in ["", "  "] {
                            // line form
                            let mut line_src = format!("pre{nl}{indent}{ls} {body}{trailing}{nl}{inner}{nl}", nl = nl, indent = indent, ls = ls, body = body, trailing = trailing, inner = inner);
                            // tag form: the tag occupies the line; leading blanks and the newline are removed
                            let mut tag_src = format!("pre{nl}{b0} {body} {b1}{inner}{nl}", nl = nl, b0 = d.block.0, b1 = d.block.1, body = body, inner = inner);
                            if !ends[bi].is_empty() {
                                line_src.push_str(&format!("{indent}{ls} {end}{nl}post", indent = indent, ls = ls, end = ends[bi], nl = nl));
                                tag_src.push_str(&format!("{b0} {end} {b1}post", b0 = d.block.0, b1 = d.block.1, end = ends[bi]));
                            } else {
                                line_src.push_str("post");
                                tag_src.push_str("post");
                            }
                            // a line comment is like a comment tag occupying its line
                            let line_src_c = format!("{}{nl}{indent}{lc} note{nl}tail", line_src, nl = nl, indent = indent, lc = lc);
                            let tag_src_c = format!("{}{nl}{c0} note {c1}tail", tag_src, nl = nl, c0 = d.comment.0, c1 = d.comment.1);
                            for (a, b, what) in [(&line_src, &tag_src, "line_statement"), (&line_src_c, &tag_src_c, "line_comment")] {
                                acc.eval(1);
                                let ra = catch(|| env.render_str(a, context! { x => true }).map_err(|e| e.to_string()));
                                let rb = catch(|| env.render_str(b, context! { x => true }).map_err(|e| e.to_string()));
                                if ra != rb || !matches!(ra, Ok(Ok(_))) {
                                    acc.fail(Failure {
                                        key: format!("delims {}_equals_tag set={}", what, d.name),
                                        case: format!("{:?} vs {:?}", a, b),
                                        detail: format!("line form -> {:?}; tag form -> {:?}", ra, rb),
                                        replay: json!({"family": "line", "set": d.name, "line": a, "tag": b}),
                                    });
                                } else {
                                    acc.outcome("line form equals tag form");
                                }
                            }
                        }
                    }
                }
            }
        }
    }
}

/// Family L: line statements under every whitespace setting.  A line statement removes the blanks in
/// front of its prefix and its own line end and nothing else, whatever the settings say about block
/// tags: it must render like the block tag written with `+` on both sides (which switches trimming
/// off for that tag) in the place where the line stood.  Lines around it - empty, blank-only, at the
/// start or end of the file - are the alphabet.
fn check_lines(acc: &Acc, tier: Tier) {
    let fam: Vec<Delims> = delim_family().into_iter().filter(|d| d.line_stmt.is_some()).collect();
    let cfgs = cfgs();
    let bodies: [(&str, &str); 4] = [("if x", "endif"), ("for i in [1, 2]", "endfor"), ("set q = 1", ""), ("with w = 1", "endwith")];
    let indents = ["", "  ", "\t"];
    let nls = ["\n", "\r\n"];
    let inners_q: Vec<&str> = vec!["a", " a ", "a\nb", "", "\na", "\n\na", "  \na", "a\n", "a\n\n", " \n \n"];
    let inners_t: Vec<&str> = vec!["\n", "\t\na\n\t", "a \n b", "\n \n\n", "a\n  ", "\n\n\n"];
    let inners: Vec<&str> = if tier == Tier::Thorough { inners_q.iter().chain(inners_t.iter()).cloned().collect() } else { inners_q };
    let trailings = ["", "  "];
    let befores = ["pre\n", "", "pre\n\n", "pre \n", "\n"];
    let afters = ["post", "\npost", "", "\n", " \npost"];
    // the end statement's own line end: present, or the file ends right after the statement
    let end_nl = [true, false];
    let mut cases: Vec<(usize, usize, usize, usize, usize, usize, usize, usize, usize)> = vec![];
    for di in 0..fam.len() {
        for bi in 0..bodies.len() {
            for ii in 0..indents.len() {
                for ni in 0..nls.len() {
                    for xi in 0..inners.len() {
                        for ti in 0..trailings.len() {
                            for pi in 0..befores.len() {
                                for ai in 0..afters.len() {
                                    for ei in 0..end_nl.len() {
                                        cases.push((di, bi, ii, ni, xi, ti, pi, ai, ei));
                                    }
                                }
                            }
                        }
                    }
                }
            }
        }
    }
    acc.count("line_settings_sources", cases.len() as u64);
    acc.count("line_settings_sets", fam.len() as u64);
    par_chunks(cases.len() as u64, 512, acc, |r, l| {
        let envs: Vec<Vec<Environment<'static>>> = fam
            .iter()
            .map(|d| {
                cfgs.iter()
                    .map(|c| {
                        let mut env = make_env(*c);
                        if let Ok(sc) = syntax_of(d) {
                            env.set_syntax(sc);
                        }
                        env
                    })
                    .collect()
            })
            .collect();
        for n in r {
            let (di, bi, ii, ni, xi, ti, pi, ai, ei) = cases[n as usize];
            let d = &fam[di];
            if syntax_of(d).is_err() {
                continue;
            }
            let ls = d.line_stmt.unwrap();
            let (body, end) = bodies[bi];
            let nl = nls[ni];
            let fix = |t: &str| t.replace('\n', nl);
            let before = fix(befores[pi]);
            let inner = fix(inners[xi]);
            let after = fix(afters[ai]);
            let indent = indents[ii];
            let trailing = trailings[ti];
            // texts that contain a delimiter of the set are not usable under it
            let marks = [d.block.0, d.block.1, d.var.0, d.var.1, d.comment.0, d.comment.1, ls, d.line_comment.unwrap_or("\u{1}")];
            if [&before, &inner, &after].iter().any(|t| marks.iter().any(|m| t.contains(m))) {
                continue;
            }
            let mut line_src = format!("{before}{indent}{ls} {body}{trailing}{nl}{inner}");
            let mut tag_src = format!("{before}{b0}+ {body} +{b1}{inner}", b0 = d.block.0, b1 = d.block.1);
            if !end.is_empty() {
                // the end statement starts a line: the inner text has to end one (or be empty right
                // after the opening statement's line end)
                if !(inner.is_empty() || inner.ends_with('\n')) {
                    line_src.push_str(nl);
                    tag_src.push_str(nl);
                }
                line_src.push_str(&format!("{indent}{ls} {end}{trailing}"));
                tag_src.push_str(&format!("{b0}+ {end} +{b1}", b0 = d.block.0, b1 = d.block.1));
                if end_nl[ei] {
                    line_src.push_str(nl);
                } else if !after.is_empty() {
                    continue; // text after a statement without a line end would be part of the statement
                }
            } else if ei == 1 {
                continue;
            }
            line_src.push_str(&after);
            tag_src.push_str(&after);
            for (ci, env) in envs[di].iter().enumerate() {
                l.evals += 1;
                let ra = catch(|| env.render_str(&line_src, context! { x => true }).map_err(|e| e.to_string()));
                let rb = catch(|| env.render_str(&tag_src, context! { x => true }).map_err(|e| e.to_string()));
                if ra != rb || !matches!(ra, Ok(Ok(_))) {
                    acc.fail(Failure {
                        key: format!("lines line_statement_equals_plus_tag set={} cfg#{}", d.name, ci),
                        case: format!("{:?} vs {:?}", line_src, tag_src),
                        detail: format!("settings {:?}: line form -> {:?}; tag form -> {:?}", cfgs[ci], ra, rb),
                        replay: json!({"family": "line", "set": d.name, "cfg": ci, "line": line_src, "tag": tag_src}),
                    });
                } else {
                    l.outcome("line statement equals the untrimmed tag in its place");
                    if cfgs[ci].trim_blocks || cfgs[ci].lstrip_blocks {
                        l.nontrivial.insert(fnv(line_src.as_bytes()) ^ ci as u64);
                    }
                }
            }
        }
    });
}

pub fn main(args: Args) -> i32 {
    let start_t = std::time::Instant::now();
    install_quiet_panic_hook();
    let cfgs = cfgs();
    if let Some(p) = &args.replay {
        let doc = load_replay(p);
        let j = &doc["replay"];
        let acc = Acc::new();
        match j["family"].as_str() {
            Some("ws") => {
                let texts: Vec<&'static str> = j["texts"].as_array().unwrap().iter().map(|t| leak(t.as_str().unwrap())).collect();
                let tags: Vec<Tag> = j["tags"]
                    .as_array()
                    .unwrap()
                    .iter()
                    .map(|t| Tag {
                        kind: match t["kind"].as_str().unwrap() {
                            "Var" => Kind::Var,
                            "Block" => Kind::Block,
                            "Comment" => Kind::Comment,
                            _ => Kind::Raw,
                        },
                        body: match t["body"].as_str() {
                            Some("Tight") => Body::Tight,
                            Some("Empty") => Body::Empty,
                            _ => Body::Padded,
                        },
                        left: mk_from(t["left"].as_str().unwrap()),
                        right: mk_from(t["right"].as_str().unwrap()),
                        inner_l: mk_from(t["inner_l"].as_str().unwrap()),
                        inner_r: mk_from(t["inner_r"].as_str().unwrap()),
                        content: leak(t["content"].as_str().unwrap()),
                    })
                    .collect();
                let envs: Vec<Environment<'static>> = cfgs.iter().map(|c| make_env(*c)).collect();
                let mut l = Local::default();
                check_ws_case(&envs, &cfgs, &texts, &tags, j["cfg"].as_u64().unwrap() as usize, &acc, &mut l);
            }
            Some("delims") | Some("line") => {
                let fam = delim_family();
                let d = fam.iter().find(|d| Some(d.name) == j["set"].as_str()).unwrap();
                let mut env = match j["cfg"].as_u64() {
                    Some(ci) if j["family"] == "line" => make_env(cfgs[ci as usize]),
                    _ => Environment::new(),
                };
                env.set_syntax(syntax_of(d).unwrap());
                if j["family"] == "delims" {
                    let ctxs = gen::contexts();
                    let ctx = ctxs[j["ctx"].as_u64().unwrap() as usize].clone();
                    let a = Environment::new().render_str(j["source_default"].as_str().unwrap(), ctx.clone()).map_err(|e| e.kind());
                    let b = env.render_str(j["source_rewritten"].as_str().unwrap(), ctx).map_err(|e| e.kind());
                    println!("default: {:?}\nrewritten: {:?}", a, b);
                    if a != b {
                        acc.fail(Failure { key: "delims differs".into(), case: String::new(), detail: format!("{:?} vs {:?}", a, b), replay: J::Null });
                    }
                } else {
                    let a = env.render_str(j["line"].as_str().unwrap(), context! { x => true }).map_err(|e| e.to_string());
                    let b = env.render_str(j["tag"].as_str().unwrap(), context! { x => true }).map_err(|e| e.to_string());
                    println!("line: {:?}\ntag: {:?}", a, b);
                    if a != b {
                        acc.fail(Failure { key: "line differs".into(), case: String::new(), detail: format!("{:?} vs {:?}", a, b), replay: J::Null });
                    }
                }
            }
            _ => {}
        }
        let fs = acc.take_failures();
        return if fs.is_empty() {
            println!("replay: case passes");
            0
        } else {
            for f in &fs {
                println!("VIOLATION property=C10 replay={}  # {} :: {}", p, f.key, f.detail);
            }
            1
        };
    }
    let acc = Acc::new();
    let tags = outer_tags();
    let nt = tags.len() as u64;
    // family A: two tags over the full text alphabet
    {
        let texts = TEXTS_FULL;
        let nx = texts.len() as u64;
        let total = nx * nx * nx * nt * nt;
        par_chunks(total, 4096, &acc, |r, l| {
            let envs: Vec<Environment<'static>> = cfgs.iter().map(|c| make_env(*c)).collect();
            for n in r {
                let mut k = n;
                let t2 = (k % nt) as usize;
                k /= nt;
                let t1 = (k % nt) as usize;
                k /= nt;
                let x2 = (k % nx) as usize;
                k /= nx;
                let x1 = (k % nx) as usize;
                k /= nx;
                let x0 = k as usize;
                let tx = [texts[x0], texts[x1], texts[x2]];
                let tg = [tags[t1].clone(), tags[t2].clone()];
                for ci in 0..cfgs.len() {
                    check_ws_case(&envs, &cfgs, &tx, &tg, ci, &acc, l);
                }
            }
        });
        acc.count("ws_two_tag_sources", total);
    }
    // family B (thorough): three tags over the core alphabet
    if args.tier == Tier::Thorough {
        let texts = TEXTS_CORE;
        let nx = texts.len() as u64;
        let total = nx.pow(4) * nt.pow(3);
        par_chunks(total, 4096, &acc, |r, l| {
            let envs: Vec<Environment<'static>> = cfgs.iter().map(|c| make_env(*c)).collect();
            for n in r {
                let mut k = n;
                let mut ti = [0usize; 3];
                for slot in ti.iter_mut() {
                    *slot = (k % nt) as usize;
                    k /= nt;
                }
                let mut xi = [0usize; 4];
                for slot in xi.iter_mut() {
                    *slot = (k % nx) as usize;
                    k /= nx;
                }
                let tx = [texts[xi[0]], texts[xi[1]], texts[xi[2]], texts[xi[3]]];
                let tg = [tags[ti[0]].clone(), tags[ti[1]].clone(), tags[ti[2]].clone()];
                for ci in 0..cfgs.len() {
                    check_ws_case(&envs, &cfgs, &tx, &tg, ci, &acc, l);
                }
            }
        });
        acc.count("ws_three_tag_sources", total);
    }
    // family C: one raw block with every inner/outer marker combination and several contents
    {
        let texts = TEXTS_FULL;
        let contents: [&'static str; 6] = ["", " ", "\n r \n", "  r  ", "\n  ", "r\n  "];
        let mut raws = vec![];
        for l in MKS {
            for r in MKS {
                for il in MKS {
                    for ir in MKS {
                        for c in contents {
                            raws.push(Tag { kind: Kind::Raw, body: Body::Padded, left: l, right: r, inner_l: il, inner_r: ir, content: c });
                        }
                    }
                }
            }
        }
        let nx = texts.len() as u64;
        let total = nx * nx * raws.len() as u64;
        par_chunks(total, 1024, &acc, |r, l| {
            let envs: Vec<Environment<'static>> = cfgs.iter().map(|c| make_env(*c)).collect();
            for n in r {
                let ri = (n % raws.len() as u64) as usize;
                let x1 = ((n / raws.len() as u64) % nx) as usize;
                let x0 = (n / raws.len() as u64 / nx) as usize;
                for ci in 0..cfgs.len() {
                    check_ws_case(&envs, &cfgs, &[texts[x0], texts[x1]], &[raws[ri].clone()], ci, &acc, l);
                }
            }
        });
        acc.count("ws_raw_inner_sources", total);
    }
    // family F: whitespace outside ASCII around one tag of every kind and marker combination, and as
    // the content of raw blocks
    {
        let texts = TEXTS_UNI;
        let mut one: Vec<Tag> = tags.clone();
        one.extend(compact_tags());
        for il in MKS {
            for ir in MKS {
                for c in ["\u{a0}r\u{a0}", "\u{b}\n\u{2003}", "\n\u{a0}", "\u{85}r\n \u{c}"] {
                    for (l, r) in [(Mk::None, Mk::None), (Mk::Minus, Mk::Minus)] {
                        one.push(Tag { kind: Kind::Raw, body: Body::Padded, left: l, right: r, inner_l: il, inner_r: ir, content: c });
                    }
                }
            }
        }
        let nx = texts.len() as u64;
        let total = nx * nx * one.len() as u64;
        par_chunks(total, 1024, &acc, |r, l| {
            let envs: Vec<Environment<'static>> = cfgs.iter().map(|c| make_env(*c)).collect();
            for n in r {
                let ti = (n % one.len() as u64) as usize;
                let x1 = ((n / one.len() as u64) % nx) as usize;
                let x0 = (n / one.len() as u64 / nx) as usize;
                for ci in 0..cfgs.len() {
                    check_ws_case(&envs, &cfgs, &[texts[x0], texts[x1]], &[one[ti].clone()], ci, &acc, l);
                }
            }
        });
        acc.count("ws_unicode_sources", total);
    }
    // family D: tags written without blanks and body-less comments, alone between all texts and next
    // to every ordinary tag over the core texts
    {
        let compact = compact_tags();
        let nc = compact.len() as u64;
        let texts = TEXTS_FULL;
        let nx = texts.len() as u64;
        let total = nx * nx * nc;
        par_chunks(total, 1024, &acc, |r, l| {
            let envs: Vec<Environment<'static>> = cfgs.iter().map(|c| make_env(*c)).collect();
            for n in r {
                let ti = (n % nc) as usize;
                let x1 = ((n / nc) % nx) as usize;
                let x0 = (n / nc / nx) as usize;
                for ci in 0..cfgs.len() {
                    check_ws_case(&envs, &cfgs, &[texts[x0], texts[x1]], &[compact[ti].clone()], ci, &acc, l);
                }
            }
        });
        let core = TEXTS_CORE;
        let ncx = core.len() as u64;
        let total2 = ncx.pow(3) * nc * nt * 2;
        par_chunks(total2, 4096, &acc, |r, l| {
            let envs: Vec<Environment<'static>> = cfgs.iter().map(|c| make_env(*c)).collect();
            for n in r {
                let mut k = n;
                let order = k % 2;
                k /= 2;
                let t2 = (k % nt) as usize;
                k /= nt;
                let t1 = (k % nc) as usize;
                k /= nc;
                let x2 = (k % ncx) as usize;
                k /= ncx;
                let x1 = (k % ncx) as usize;
                k /= ncx;
                let x0 = k as usize;
                let tx = [core[x0], core[x1], core[x2]];
                let tg = if order == 0 { [compact[t1].clone(), tags[t2].clone()] } else { [tags[t2].clone(), compact[t1].clone()] };
                for ci in 0..cfgs.len() {
                    check_ws_case(&envs, &cfgs, &tx, &tg, ci, &acc, l);
                }
            }
        });
        acc.count("ws_compact_body_sources", total + total2);
    }
    // family E: the whitespace rules under every delimiter set without line prefixes - one tag
    // (ordinary and compact) between all pairs of core texts under all settings, two ordinary tags
    // between blank texts under the two extreme settings.  The model does not know about delimiters.
    {
        let sets: Vec<Delims> = delim_family().into_iter().filter(|d| d.line_stmt.is_none() && d.line_comment.is_none()).collect();
        acc.count("ws_delimiter_sets", sets.len() as u64);
        let mut singles = tags.clone();
        singles.extend(compact_tags());
        let core = TEXTS_CORE;
        let blanks: [&'static str; 3] = ["", " ", "\n"];
        par_items(&sets, &acc, |_, d, l| {
            let Ok(syntax) = syntax_of(d) else { return };
            let envs: Vec<Environment<'static>> = cfgs
                .iter()
                .map(|c| {
                    let mut e = make_env(*c);
                    e.set_syntax(syntax.clone());
                    e
                })
                .collect();
            let mut judge = |texts: &[&'static str], tg: &[Tag], ci: usize, l: &mut Local| {
                let mut src = String::new();
                for i in 0..texts.len() {
                    src.push_str(texts[i]);
                    if i < tg.len() {
                        src.push_str(&tg[i].source_with(d));
                    }
                }
                l.evals += 1;
                let got = catch(|| envs[ci].render_str(&src, context! { v => "<V>" }).map_err(|e| e.to_string()));
                let exp = model(texts, tg, cfgs[ci]);
                if got != Ok(Ok(exp.clone())) {
                    acc.fail(Failure {
                        key: format!("ws mismatch_under_delimiters set={} tags=[{}] trim_blocks={} lstrip_blocks={}", d.name, tg.iter().map(|t| format!("{:?}", t.kind)).collect::<Vec<_>>().join(","), cfgs[ci].trim_blocks, cfgs[ci].lstrip_blocks),
                        case: format!("{:?} cfg={} set={}", src, ci, d.name),
                        detail: format!("source {:?} under {}: engine {:?} model {:?}", src, d.name, got, exp),
                        replay: json!({"family": "ws_delims", "source": src, "set": d.name, "cfg": ci, "expect": exp}),
                    });
                } else {
                    l.outcome("whitespace rules hold under custom delimiters");
                    if ci == 6 {
                        l.nontrivial.insert(fnv(format!("{}|{}", d.name, src).as_bytes()));
                    }
                }
            };
            for t in &singles {
                if t.kind == Kind::Raw && t.body != Body::Padded {
                    continue;
                }
                // `<!---->` is not an empty comment under comment delimiters `<!--` / `-->`: the
                // first byte of the end delimiter reads as a left marker.  Such spellings are
                // ambiguous in the source language itself and are not generated.
                let end = match t.kind {
                    Kind::Var => d.var.1,
                    Kind::Comment => d.comment.1,
                    _ => d.block.1,
                };
                if t.body != Body::Padded && t.left == Mk::None && (end.starts_with('-') || end.starts_with('+')) {
                    continue;
                }
                for a in core {
                    for b in core {
                        for ci in 0..cfgs.len() {
                            judge(&[a, b], std::slice::from_ref(t), ci, l);
                        }
                    }
                }
            }
            for t1 in &tags {
                for t2 in &tags {
                    for a in blanks {
                        for b in blanks {
                            for c in blanks {
                                for ci in [0usize, 7] {
                                    judge(&[a, b, c], &[t1.clone(), t2.clone()], ci, l);
                                }
                            }
                        }
                    }
                }
            }
        });
    }
    // delimiter metamorphosis over the program corpus
    let opts2 = gen::Opts { depth: 2, max_programs: u64::MAX, multi_template: false, loop_controls: true, extra_leaves: false };
    check_delims(opts2, 1, &acc);
    if args.tier == Tier::Thorough {
        // depth 3 is 4.3e7 programs x 3 contexts x 10 sets: a systematic subset (every 29th rank)
        let opts3 = gen::Opts { depth: 3, ..opts2 };
        check_delims(opts3, 29, &acc);
    }
    check_lines(&acc, args.tier);
    let programs = vec![gen::Gen::new(opts2).program(98_765)];
    acc.sample(json!({"ws_source": build_source(&[" \n ", "a\n", "\n a"], &[tags[10].clone(), tags[29].clone()]), "settings": "all 8"}));
    acc.sample(json!({"delims_program_default": render_pieces(&programs[programs.len() / 2].pieces, None), "rewritten_erb": render_pieces(&programs[programs.len() / 2].pieces, Some(&delim_family()[0]))}));
    finish(
        Finish {
            property: "C10",
            level: "exploration",
            tier: args.tier,
            seed: args.seed,
            rule: "whitespace: every source text0 tag1 text1 tag2 text2 over a 14-text alphabet and 36 tags ({variable, set tag, comment, raw..endraw} x left marker x right marker in {none,-,+}) x 8 settings (thorough: plus three tags over a 6-text core alphabet); 34 tags written without blanks or, for comments, without a body ({{-v-}}, {%-set x = 1-%}, {#-c-#}, {#-#}, {#--#}, {##} ...) alone between all texts and next to every ordinary tag over the core texts; every single raw block with all 81 outer/inner marker combinations x 6 contents x 14^2 texts x 8 settings; engine output compared with an independent model of the rules as the property names them (lstrip judged on the original source). whitespace x delimiters: under each of the delimiter sets without line prefixes, one tag (36 ordinary + 34 compact) between all pairs of core texts under all 8 settings and two ordinary tags between blank texts under the two extreme settings, against the same model; delimiters: every program of the depth-2 space of G (thorough: plus every 29th program of the depth-3 space, a systematic subset, reported under delimiter_program_stride) x 3 contexts rewritten token by token to each of 10 delimiter sets must render identically (or fail with the same error kind); default-looking delimiters as text must come out verbatim; line statements/comments compared with the tag occupying the line. distinct non-trivial = distinct one- and two-tag sources in which trim_blocks+lstrip_blocks strips something (three-tag sources are not counted, conservatively) + distinct rewritten sources".into(),
            exhaustive: true,
            bound: json!({"texts": TEXTS_FULL, "texts_core": TEXTS_CORE, "delimiter_sets": delim_family().iter().map(|d| d.name).collect::<Vec<_>>()}),
            assumptions: vec![
                "lone CR line ends are outside the text alphabet (line starts are defined by LF)".into(),
                "only ASCII blanks occur in the text alphabet".into(),
                "programs whose text or expression bodies contain a delimiter of the target set are skipped for that set".into(),
            ],
            extra: Default::default(),
            start: start_t,
        },
        &acc,
    )
}
