//! E5 — supervised crash enumeration.  The parent splits a ranked case space into shards and runs
//! each shard in a child process (`mjv <check> --child ...`) under RLIMIT_AS; the child publishes
//! the index of the case it is working on in a small file, catches panics itself and appends them
//! to a result file; when a child dies (abort, SIGSEGV from a stack overflow, OOM abort) or makes no
//! progress for the wall cap, the parent attributes the death to the published case, records it
//! and restarts a child behind it.  A crash is therefore a *result*, never an engine death.
use crate::core::*;
use serde_json::{json, Value as J};
use std::io::Write;
use std::os::unix::fs::FileExt;
use std::os::unix::process::ExitStatusExt;
use std::process::{Command, Stdio};
use std::sync::atomic::{AtomicU64, Ordering};
use std::sync::Mutex;
use std::time::{Duration, Instant};

#[derive(Clone, Debug)]
pub struct Shard {
    pub family: String,
    pub from: u64,
    pub to: u64,
    pub stack: &'static str, // "main" | "2m"
    pub profile: &'static str, // "release" (checked) | "debug"
}

#[derive(Clone, Debug)]
pub struct Event {
    pub family: String,
    pub n: u64,
    pub stack: String,
    pub profile: String,
    pub kind: String, // panic | signal | abort | timeout | exit
    pub detail: String,
}

pub struct ChildCtx {
    cur: std::fs::File,
    out: std::fs::File,
    pub evals: u64,
    pub outcomes: std::collections::BTreeMap<String, u64>,
}

impl ChildCtx {
    pub fn begin(&mut self, n: u64) {
        let _ = self.cur.write_at(&n.to_le_bytes(), 0);
        self.evals += 1;
    }
    pub fn panic(&mut self, n: u64, msg: &str) {
        let line = json!({"n": n, "kind": "panic", "detail": format!("{} at {}", msg, last_panic_loc())});
        let _ = writeln!(self.out, "{}", line);
    }
    pub fn violation(&mut self, n: u64, kind: &str, msg: &str) {
        let line = json!({"n": n, "kind": kind, "detail": msg});
        let _ = writeln!(self.out, "{}", line);
    }
    pub fn outcome(&mut self, o: &str) {
        *self.outcomes.entry(o.to_string()).or_insert(0) += 1;
    }
}

/// Entry point of a child process.  `run(family, n, ctx)` executes one case.
pub fn child_main(rest: &[String], run: &(dyn Fn(&str, u64, &mut ChildCtx) + Sync)) -> i32 {
    let get = |flag: &str| -> String {
        rest.iter().position(|a| a == flag).and_then(|i| rest.get(i + 1)).cloned().unwrap_or_default()
    };
    let family = get("--family");
    let from: u64 = get("--from").parse().unwrap_or(0);
    let to: u64 = get("--to").parse().unwrap_or(0);
    let stack = get("--stack");
    let cur_path = get("--cur");
    let out_path = get("--out");
    let mem_gib: u64 = get("--mem-gib").parse().unwrap_or(4);
    unsafe {
        let lim = libc::rlimit { rlim_cur: mem_gib << 30, rlim_max: mem_gib << 30 };
        libc::setrlimit(libc::RLIMIT_AS, &lim);
        // no core dumps
        let z = libc::rlimit { rlim_cur: 0, rlim_max: 0 };
        libc::setrlimit(libc::RLIMIT_CORE, &z);
    }
    install_quiet_panic_hook();
    let cur = std::fs::OpenOptions::new().create(true).write(true).truncate(false).open(&cur_path).expect("cur file");
    let out = std::fs::OpenOptions::new().create(true).append(true).open(&out_path).expect("out file");
    let mut ctx = ChildCtx { cur, out, evals: 0, outcomes: Default::default() };
    let body = |ctx: &mut ChildCtx| {
        for n in from..to {
            ctx.begin(n);
            let t0 = Instant::now();
            let r = catch(|| run(&family, n, ctx));
            if t0.elapsed() > Duration::from_millis(300) {
                ctx.violation(n, "slow", &format!("{:.1}s", t0.elapsed().as_secs_f64()));
            }
            if let Err(p) = r {
                ctx.panic(n, &p);
                ctx.outcome("panic");
            }
        }
    };
    if stack == "2m" {
        std::thread::scope(|s| {
            std::thread::Builder::new()
                .stack_size(2 << 20)
                .spawn_scoped(s, || body(&mut ctx))
                .unwrap()
                .join()
                .ok();
        });
    } else {
        body(&mut ctx);
    }
    let _ = ctx.cur.write_at(&u64::MAX.to_le_bytes(), 0);
    let line = json!({"done": true, "evals": ctx.evals, "outcomes": ctx.outcomes});
    let _ = writeln!(ctx.out, "{}", line);
    0
}

pub struct SuperviseResult {
    pub events: Vec<Event>,
    pub evals: u64,
    pub outcomes: std::collections::BTreeMap<String, u64>,
    pub children_spawned: u64,
}

fn bin_for(profile: &str) -> String {
    format!("/verif/harness/target/{}/mjv", profile)
}

/// Run all shards, up to `jobs` children at a time.
pub fn supervise(check: &str, shards: Vec<Shard>, wall_cap: Duration, mem_gib: u64) -> SuperviseResult {
    let queue = Mutex::new(shards.into_iter().rev().collect::<Vec<_>>());
    let events: Mutex<Vec<Event>> = Mutex::new(vec![]);
    let evals = AtomicU64::new(0);
    let spawned = AtomicU64::new(0);
    let outcomes: Mutex<std::collections::BTreeMap<String, u64>> = Default::default();
    let scratch = format!("/verif/harness/target/crash-{}-{}", check, std::process::id());
    let _ = std::fs::create_dir_all(&scratch);
    let jobs = n_workers();
    std::thread::scope(|s| {
        for w in 0..jobs {
            let (queue, events, evals, spawned, outcomes, scratch) = (&queue, &events, &evals, &spawned, &outcomes, &scratch);
            s.spawn(move || loop {
                let Some(mut shard) = queue.lock().unwrap().pop() else { break };
                let shard_t = Instant::now();
                let shard_name = format!("{}:{}:{}", shard.family, shard.stack, shard.profile);
                let shard_from = shard.from;
                // a shard may need several children when cases kill the process
                while shard.from < shard.to {
                    let cur_path = format!("{}/cur-{}", scratch, w);
                    let out_path = format!("{}/out-{}", scratch, w);
                    let _ = std::fs::write(&cur_path, u64::MAX.to_le_bytes());
                    let _ = std::fs::remove_file(&out_path);
                    spawned.fetch_add(1, Ordering::Relaxed);
                    let mut child = Command::new(bin_for(shard.profile))
                        .env("VERIF_TIER", std::env::var("VERIF_TIER_EFFECTIVE").unwrap_or_default())
                        .arg(check)
                        .args(["--child", "--family", &shard.family, "--from", &shard.from.to_string(), "--to", &shard.to.to_string(), "--stack", shard.stack, "--cur", &cur_path, "--out", &out_path, "--mem-gib", &mem_gib.to_string()])
                        .stdin(Stdio::null())
                        .stdout(Stdio::null())
                        .stderr(Stdio::piped())
                        .spawn()
                        .expect("spawn child");
                    let read_cur = || -> u64 {
                        std::fs::read(&cur_path).ok().and_then(|b| b.get(..8).map(|x| u64::from_le_bytes(x.try_into().unwrap()))).unwrap_or(u64::MAX)
                    };
                    let mut last_cur = read_cur();
                    let mut last_change = Instant::now();
                    let status = loop {
                        match child.try_wait() {
                            Ok(Some(st)) => break Some(st),
                            Ok(None) => {}
                            Err(_) => break None,
                        }
                        std::thread::sleep(Duration::from_millis(20));
                        let c = read_cur();
                        if c != last_cur {
                            last_cur = c;
                            last_change = Instant::now();
                        } else if last_change.elapsed() > wall_cap {
                            let _ = child.kill();
                            let _ = child.wait();
                            break None;
                        }
                    };
                    // harvest what the child reported
                    let mut done = false;
                    if let Ok(text) = std::fs::read_to_string(&out_path) {
                        for line in text.lines() {
                            let Ok(j) = serde_json::from_str::<J>(line) else { continue };
                            if j["done"] == true {
                                done = true;
                                evals.fetch_add(j["evals"].as_u64().unwrap_or(0), Ordering::Relaxed);
                                if let Some(o) = j["outcomes"].as_object() {
                                    let mut m = outcomes.lock().unwrap();
                                    for (k, v) in o {
                                        *m.entry(k.clone()).or_insert(0) += v.as_u64().unwrap_or(0);
                                    }
                                }
                            } else {
                                events.lock().unwrap().push(Event {
                                    family: shard.family.clone(),
                                    n: j["n"].as_u64().unwrap_or(0),
                                    stack: shard.stack.into(),
                                    profile: shard.profile.into(),
                                    kind: j["kind"].as_str().unwrap_or("panic").into(),
                                    detail: j["detail"].as_str().unwrap_or("").into(),
                                });
                            }
                        }
                    }
                    let mut stderr_tail = String::new();
                    if let Some(mut e) = child.stderr.take() {
                        use std::io::Read;
                        let mut buf = String::new();
                        let _ = e.read_to_string(&mut buf);
                        stderr_tail = buf.lines().rev().take(3).collect::<Vec<_>>().into_iter().rev().collect::<Vec<_>>().join(" | ");
                    }
                    if done {
                        break;
                    }
                    // the child died or hung at case `culprit`
                    let culprit = read_cur();
                    let (kind, detail) = match status {
                        None => ("timeout".to_string(), format!("no progress for {:?}", wall_cap)),
                        Some(st) => match st.signal() {
                            Some(sig) => ("signal".to_string(), format!("killed by signal {} ({})", sig, stderr_tail)),
                            None => ("exit".to_string(), format!("exit status {:?} ({})", st.code(), stderr_tail)),
                        },
                    };
                    if culprit == u64::MAX || culprit < shard.from || culprit >= shard.to {
                        // died outside any case: machinery problem
                        events.lock().unwrap().push(Event { family: shard.family.clone(), n: u64::MAX, stack: shard.stack.into(), profile: shard.profile.into(), kind: "machinery".into(), detail: format!("child died outside a case: {} {}", kind, detail) });
                        break;
                    }
                    // the cases before the culprit were evaluated by the dead child
                    evals.fetch_add(culprit - shard.from + 1, Ordering::Relaxed);
                    events.lock().unwrap().push(Event { family: shard.family.clone(), n: culprit, stack: shard.stack.into(), profile: shard.profile.into(), kind, detail });
                    shard.from = culprit + 1;
                }
                if std::env::var("VERIF_TIMING").is_ok() {
                    eprintln!("shard {} from {} took {:.1}s", shard_name, shard_from, shard_t.elapsed().as_secs_f64());
                }
            });
        }
    });
    let _ = std::fs::remove_dir_all(&scratch);
    SuperviseResult { events: events.into_inner().unwrap(), evals: evals.load(Ordering::Relaxed), outcomes: outcomes.into_inner().unwrap(), children_spawned: spawned.load(Ordering::Relaxed) }
}

pub fn shards_for(family: &str, total: u64, chunk: u64, stack: &'static str, profile: &'static str) -> Vec<Shard> {
    let mut v = vec![];
    let mut a = 0;
    while a < total {
        let b = (a + chunk).min(total);
        v.push(Shard { family: family.to_string(), from: a, to: b, stack, profile });
        a = b;
    }
    v
}
