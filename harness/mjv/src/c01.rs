//! C01 — loading and rendering never crashes the host process (E5: supervised crash enumeration).
use crate::core::*;
use crate::crash::{self, ChildCtx, Event};
use crate::{gen, reg, vals};
use minijinja::value::Value;
use minijinja::{context, Environment, Error};
use serde_json::json;
use std::fmt::Write as _;
use std::time::Duration;

// ---------------------------------------------------------------------------------------------
// shared "exercise everything" routine: load, render, format the error in every form

fn base_env() -> Environment<'static> {
    let mut env = Environment::new();
    env.set_debug(true);
    minijinja_contrib::add_to_environment(&mut env);
    env.set_unknown_method_callback(minijinja_contrib::pycompat::unknown_method_callback);
    env.add_function("probe", || Value::from(""));
    env.add_template("p", "{% block b %}pb{% endblock %}{% macro a() %}ma{% endmacro %}").unwrap();
    env
}

fn fmt_error(e: &Error) {
    let mut s = String::new();
    let _ = write!(s, "{}", e);
    let _ = write!(s, "{:#}", e);
    let _ = write!(s, "{:?}", e);
    let _ = write!(s, "{:#?}", e);
    let _ = write!(s, "{}", e.display_debug_info());
}

#[derive(Debug)]
struct HostObj;
impl minijinja::value::Object for HostObj {}

fn std_ctx() -> Value {
    context! {
        x => 1, xs => vec![1, 2, 3], m => Value::from_pairs([("a", 1), ("b", 2)]), s => "str", f => 1.5, n => Value::from(()),
        b => true, e => Vec::<i32>::new(), tree => Vec::<Value>::new(),
        // values only the embedding program can supply: a streaming iterable without a length, a
        // one-shot iterator, a byte string, a plain object
        hu => Value::make_iterable(|| (0..3).filter(|_| true)), ho => Value::make_one_shot_iterator((0..3).filter(|_| true)), hb => Value::from_bytes(vec![104, 105, 255]), hobj => Value::from_object(HostObj),
    }
}

fn exercise_template(env: &Environment, src: &str, ctx: &Value, cc: &mut ChildCtx) {
    match env.template_from_named_str("t.html", src) {
        Err(e) => {
            fmt_error(&e);
            cc.outcome("load error");
        }
        Ok(t) => match t.render(ctx.clone()) {
            Ok(_) => cc.outcome("rendered"),
            Err(e) => {
                fmt_error(&e);
                cc.outcome("render error");
            }
        },
    }
}

fn exercise_expression(env: &Environment, src: &str, ctx: &Value, cc: &mut ChildCtx) {
    match env.compile_expression(src) {
        Err(e) => {
            fmt_error(&e);
            cc.outcome("expr load error");
        }
        Ok(x) => match x.eval(ctx.clone()) {
            Ok(v) => {
                // force lazies a little, but never materialise astronomically long ones
                let _ = v.len();
                cc.outcome("expr ok");
            }
            Err(e) => {
                fmt_error(&e);
                cc.outcome("expr error");
            }
        },
    }
}

// ---------------------------------------------------------------------------------------------
// families

const FRAGS: &[&str] = &["{{", "{%", "{#", "}}", "%}", "#}", "-", "+", "'", "\"", "\\", "\n", " ", "1", "x", "é", ".", "(", ")", "[", "]", "|", ":", "="];

/// pieces of string-literal bodies: every escape form the lexer knows, well-formed, truncated and out
/// of range, surrogate halves in both roles, and plain characters between them
const ESCAPES: &[&str] = &[
    "\\n", "\\\\", "\\'", "\\\"", "\\x41", "\\x", "\\xZ", "\\xff", "\\u0041", "\\ud83d", "\\ude00", "\\ud800", "\\udbff", "\\udc00", "\\udfff", "\\uffff", "\\u", "\\u12", "\\u{41}", "\\U0001f600", "\\0", "\\7", "\\777", "\\8", "\\q", "a",
    "\u{e9}", "\\",
];

/// format specifications: flags x width x precision x conversion x value, in printf style (the
/// `format` filter) and in str.format style (pycompat), numbers at the limits of what the formatter
/// and the allocator can take
const FMT_FLAGS: &[&str] = &["", "-", "0", "+", " ", "#", "-0+ #"];
const FMT_NUMS: &[&str] = &["", "0", "1", "12", "1023", "65534", "65535", "65536", "99999999999", "18446744073709551616"];
const FMT_TYPES: &[&str] = &["d", "i", "s", "r", "f", "F", "e", "E", "g", "G", "x", "X", "o", "c", "%", "b", "n", ""];
const FMT_VALUES: &[&str] = &["1", "-1.5", "1e300", "'a'", "170141183460469231731687303715884105727", "none", "[1]", "0.0001", "1e-300", "0.0", "123456789.125"];

/// format strings as such: every string of pieces out of the two formatting mini-languages plus
/// multi-byte characters in every position (keys, fill characters, conversions, stray text)
const FMT_PIECES: &[&str] = &["%", "(", ")", "s", "d", "c", "5", ".", "*", "é", "€", "😀", "{", "}", ":", "!", "<", "0", "a", "-", "#", "r", "[", "x"];

fn fmt_total() -> u64 {
    (FMT_FLAGS.len() * FMT_NUMS.len() * FMT_NUMS.len() * FMT_TYPES.len() * FMT_VALUES.len()) as u64
}

fn fmt_case(mut n: u64) -> (String, String) {
    let mut pick = |l: &'static [&'static str]| {
        let x = l[(n % l.len() as u64) as usize];
        n /= l.len() as u64;
        x
    };
    let (val, ty, prec, width, flags) = (pick(FMT_VALUES), pick(FMT_TYPES), pick(FMT_NUMS), pick(FMT_NUMS), pick(FMT_FLAGS));
    let dot = if prec.is_empty() { String::new() } else { format!(".{}", prec) };
    let printf = format!("{{{{ '%{}{}{}{}'|format({}) }}}}", flags, width, dot, ty, val);
    let align = if flags.contains('-') { "<" } else if flags.contains('0') { "0>" } else { ">" };
    let sign = if flags.contains('+') { "+" } else if flags.contains(' ') { " " } else { "" };
    let alt = if flags.contains('#') { "#" } else { "" };
    let newstyle = format!("{{{{ '{{:{}{}{}{}{}{}}}'.format({}) }}}}", align, sign, alt, width, dot, if ty == "%" || ty == "r" || ty == "i" { "" } else { ty }, val);
    (printf, newstyle)
}

/// objects that outlive the construct that made them (a loop object, a caller, a macro, a block
/// reference, a namespace handed out through a namespace), then every way of using them
const AFTER_MAKERS: &[(&str, &str)] = &[
    ("loop_exhausted", "{% for x in [1, 2, 3] %}{% set ns.o = loop %}{% endfor %}"),
    ("loop_one_item", "{% for x in [1] %}{% set ns.o = loop %}{% endfor %}"),
    ("loop_over_string", "{% for x in 'ab' %}{% set ns.o = loop %}{% endfor %}"),
    ("loop_unsized", "{% for x in xs|select %}{% set ns.o = loop %}{% endfor %}"),
    ("loop_left_by_break", "{% for x in [1, 2, 3] %}{% set ns.o = loop %}{% break %}{% endfor %}"),
    ("loop_filtered", "{% for x in [1, 2, 3] if x > 1 %}{% set ns.o = loop %}{% endfor %}"),
    ("loop_recursive", "{% for x in [[1], [2]] recursive %}{% set ns.o = loop %}{% if x is iterable %}{{ loop(x) }}{% endif %}{% endfor %}"),
    ("loop_inner_of_nested", "{% for y in [1, 2] %}{% for x in [1, 2] %}{% set ns.o = loop %}{% endfor %}{% endfor %}"),
    ("loop_from_macro", "{% macro mk() %}{% for x in [1, 2] %}{% set ns.o = loop %}{% endfor %}{% endmacro %}{{ mk() }}"),
    ("caller", "{% macro cw() %}{% set ns.o = caller %}{% endmacro %}{% call cw() %}body{% endcall %}"),
    ("macro_from_loop", "{% for x in [1, 2] %}{% macro lm(a) %}{{ x }}{{ a }}{{ loop.index }}{% endmacro %}{% set ns.o = lm %}{% endfor %}"),
    ("macro_from_macro", "{% macro outer(p) %}{% macro inner(a) %}{{ p }}{{ a }}{% endmacro %}{% set ns.o = inner %}{% endmacro %}{{ outer(1) }}"),
    ("self_reference", "{% block bb %}b{% endblock %}{% set ns.o = self %}"),
    ("namespace_of_with", "{% with %}{% set inner = namespace(a=1) %}{% set ns.o = inner %}{% endwith %}"),
    ("cycler_and_joiner", "{% set ns.o = cycler(1, 2) %}{% set ns.j = joiner(', ') %}{{ ns.o.next() }}{{ ns.j() }}"),
];
const AFTER_USES: &[&str] = &[
    "{{ ns.o }}", "{{ ns.o.index }}", "{{ ns.o.index0 }}", "{{ ns.o.revindex }}", "{{ ns.o.revindex0 }}", "{{ ns.o.first }}", "{{ ns.o.last }}", "{{ ns.o.length }}", "{{ ns.o.depth }}", "{{ ns.o.depth0 }}",
    "{{ ns.o.previtem }}", "{{ ns.o.nextitem }}", "{{ ns.o.cycle('a', 'b') }}", "{{ ns.o.cycle() }}", "{{ ns.o.changed(1) }}{{ ns.o.changed(1) }}", "{{ ns.o() }}", "{{ ns.o(1) }}", "{{ ns.o([[3]]) }}", "{{ ns.o(1, 2, 3, a=4) }}",
    "{% for q in ns.o %}{{ q }}{% endfor %}", "{{ ns.o|length }}", "{{ ns.o|list }}", "{{ ns.o == ns.o }}{{ ns.o < ns.o }}", "{{ ns.o|tojson }}", "{{ ns.o|string|length }}", "{{ ns.o.bb() }}", "{{ ns.o.nope }}{{ ns.o['index'] }}{{ ns.o[0] }}",
    "{% call ns.o() %}x{% endcall %}", "{% for y in [1] %}{{ ns.o.index }}{{ loop.index }}{% endfor %}", "{{ ns.o.next() }}{{ ns.o.current }}{{ ns.o.reset() }}", "{{ ns.o.a }}{% set ns.o.a = 2 %}{{ ns.o.a }}",
    "{% macro later() %}{{ ns.o.revindex0 }}{{ ns.o() }}{% endmacro %}{{ later() }}", "{{ [ns.o, ns.o]|unique|list|length }}{{ {'k': ns.o}|items|list|length }}",
];

/// loop controls in every statement position, legal or not: through up to two enclosing constructs,
/// inside and outside loops of several kinds (where the grammar refuses them the load fails; where it
/// accepts them the jump must land in the same evaluation)
const CTL_OUTER: &[(&str, &str, &str)] = &[
    ("no_loop", "", ""),
    ("for", "{% for x in xs %}a", "c{% endfor %}"),
    ("for_else", "{% for x in xs %}a", "c{% else %}e{% endfor %}"),
    ("for_recursive", "{% for x in [[1, 2], 3] recursive %}a{{ loop(x) if x is iterable }}", "c{% endfor %}"),
    ("for_filtered_in_for", "{% for y in [1, 2] %}{% for x in xs if x %}a", "c{% endfor %}d{% endfor %}"),
    ("else_branch_of_for", "{% for x in [] %}{% else %}", "{% endfor %}"),
    ("else_branch_of_inner_for", "{% for y in [1, 2] %}{% for x in [] %}{% else %}", "{% endfor %}d{% endfor %}"),
];
const CTL_SCOPED: &[(&str, &str, &str)] = &[
    ("with", "{% with w = 1 %}", "{% endwith %}"),
    ("set", "{% set cap %}", "{% endset %}{{ cap }}"),
    ("filter", "{% filter upper %}", "{% endfilter %}"),
    ("autoescape", "{% autoescape true %}", "{% endautoescape %}"),
    ("if", "{% if xs %}", "{% endif %}"),
    ("else_of_if", "{% if false %}{% else %}", "{% endif %}"),
    ("call_body", "{% call cw() %}", "{% endcall %}"),
    ("call_body_with_args", "{% call(q) cwa() %}", "{% endcall %}"),
    ("macro_body", "{% macro inner() %}", "{% endmacro %}{{ inner() }}"),
    ("block", "{% block bb %}", "{% endblock %}"),
    ("inner_for", "{% for z in [1, 2] %}", "{% endfor %}"),
];
const CTL_FORMS: &[&str] = &["{% break %}", "{% continue %}", "{% if x == 2 %}{% break %}{% endif %}b", "{% if x == 2 %}{% continue %}{% endif %}b"];

fn ctl_count() -> u64 {
    let n = CTL_SCOPED.len() as u64;
    (CTL_OUTER.len() * CTL_FORMS.len()) as u64 * (1 + n + n * n)
}

fn ctl_case(n: u64) -> (String, String) {
    let ns = CTL_SCOPED.len() as u64;
    let paths = 1 + ns + ns * ns;
    let (oname, opre, opost) = CTL_OUTER[(n / paths / CTL_FORMS.len() as u64) as usize];
    let form = CTL_FORMS[((n / paths) % CTL_FORMS.len() as u64) as usize];
    let p = n % paths;
    let seq: Vec<usize> = if p == 0 {
        vec![]
    } else if p <= ns {
        vec![(p - 1) as usize]
    } else {
        vec![((p - 1 - ns) / ns) as usize, ((p - 1 - ns) % ns) as usize]
    };
    let mut src = String::from("{% macro cw() %}{{ caller() }}{{ caller() }}{% endmacro %}{% macro cwa() %}{{ caller(1) }}{% endmacro %}");
    src.push_str(opre);
    for i in &seq {
        src.push_str(CTL_SCOPED[*i].1);
    }
    src.push_str(form);
    for i in seq.iter().rev() {
        src.push_str(CTL_SCOPED[*i].2);
    }
    src.push_str(opost);
    src.push_str("{{ x }}|end");
    (format!("{} [{}] {}", oname, seq.iter().map(|i| CTL_SCOPED[*i].0).collect::<Vec<_>>().join(">"), form), src)
}

fn after_case(n: u64) -> String {
    let (_, maker) = AFTER_MAKERS[(n as usize) / AFTER_USES.len()];
    format!("{{% set ns = namespace(o=none) %}}{}{}", maker, AFTER_USES[(n as usize) % AFTER_USES.len()])
}

/// special calls where nothing provides them: inside templates reached by include / import / from
/// import / extends from every kind of place
const COMPOSE_INNER: &[&str] = &[
    "{{ super() }}", "{{ self.b() }}", "{{ self.nope() }}", "{{ caller() }}", "{{ loop }}{{ loop.index }}", "{{ loop([1]) }}", "{% block b %}{{ super() }}{% endblock %}", "{% block other %}{{ super() }}{{ self.b() }}{% endblock %}",
    "{% extends 'host' %}", "{% extends 'leaf' %}{% block b %}{{ super() }}{% endblock %}", "{{ varargs }}{{ kwargs }}", "{% macro im() %}{{ super() }}{{ caller() }}{{ self.b() }}{% endmacro %}{{ im() }}",
    "{% include 'leaf' %}{{ super() }}", "{% set x = super %}{{ x() }}", "{% for q in [1] %}{{ super() }}{{ loop.index }}{% endfor %}",
    // a recursive loop of the host re-entered from the other template's code, at several offsets of it
    "<{{ loop([2]) if i == 1 }}>", "<{{ loop([2]) if i is iterable }}>", "{{ 'aaaa' }}{{ 'bbbb' }}{% for q in [1, 2] %}{{ q }}{% endfor %}<{{ loop([2]) if i is iterable }}>", "{% set l = loop %}{{ l([[3]]) if i is iterable }}{{ l.depth }}",
    "{% macro im(l) %}[{{ l([2]) if l }}]{% endmacro %}{{ im(loop) }}", "{% macro im(l) %}{{ 1 + 2 }}{% for q in [1] %}{{ l([3]) if l }}{% endfor %}{% endmacro %}", "{% if i is iterable %}{% for q in [1] %}{{ loop.index }}{% endfor %}{{ loop(i) }}{{ loop(i) }}{% endif %}",
];
const COMPOSE_PLACES: &[(&str, &str)] = &[
    ("top", "@"),
    ("in_block", "{% block b %}@{% endblock %}"),
    ("in_child_block", "{% extends 'base' %}{% block b %}[{{ super() }}]@{% endblock %}"),
    ("in_macro", "{% macro hm() %}@{% endmacro %}{{ hm() }}"),
    ("in_call_block", "{% macro hw() %}{{ caller() }}{% endmacro %}{% call hw() %}@{% endcall %}"),
    ("in_loop", "{% for i in [1, 2] %}@{% endfor %}"),
    ("in_recursive_loop", "{% for i in [[1]] recursive %}@{% if i is iterable %}{{ loop(i) }}{% endif %}{% endfor %}"),
    ("in_recursive_loop_of_scalars", "{% for i in [1] recursive %}{{ i }}@{% endfor %}"),
    ("in_recursive_loop_after_text", "some text {{ 1 }}{{ 2 }}{% for i in [1, [4]] recursive %}@{% endfor %}"),
    ("in_block_in_loop", "{% for i in [1] %}{% block b %}@{% endblock %}{% endfor %}"),
    ("in_set_block", "{% set cap %}@{% endset %}{{ cap }}"),
];
const COMPOSE_VIA: &[&str] = &[
    "{% include 'inner' %}", "{% import 'inner' as m %}{{ m }}", "{% from 'inner' import im %}{{ im() if im is defined }}", "{% include ['nope', 'inner'] %}{% include 'inner' %}",
    "{% from 'inner' import im %}{{ im(loop) if im is defined }}", "{% import 'inner' as m %}{{ m.im(loop) if m.im is defined }}",
];

fn compose_case(n: u64) -> Vec<(String, String)> {
    let n = n as usize;
    let inner = COMPOSE_INNER[n % COMPOSE_INNER.len()];
    let place = COMPOSE_PLACES[(n / COMPOSE_INNER.len()) % COMPOSE_PLACES.len()].1;
    let via = COMPOSE_VIA[n / COMPOSE_INNER.len() / COMPOSE_PLACES.len()];
    vec![
        ("host".to_string(), place.replace('@', via)),
        ("inner".to_string(), inner.to_string()),
        ("base".to_string(), "<{% block b %}B{% endblock %}>".to_string()),
        ("leaf".to_string(), "L{% block b %}lb{% endblock %}".to_string()),
    ]
}

/// N distinct things of one kind in one template, N around every small-table size an implementation
/// is likely to use (the first N - 1 may sit in dead code; the last one runs)
const COUNT_KINDS: &[&str] = &[
    "filters_dead_then_live", "filters_all_live", "tests_dead_then_live", "tests_all_live", "locals", "macro_params", "macros", "blocks", "call_args", "kwargs", "list_items", "map_keys", "with_targets", "unpack_targets", "nested_attrs",
    "filter_args", "includes", "set_blocks", "loop_vars", "string_concat",
];
const COUNT_NS: &[usize] = &[31, 32, 33, 49, 50, 51, 52, 63, 64, 65, 127, 128, 129, 255, 256, 257, 1000, 4096, 65535, 65536];

fn count_case(n: u64) -> String {
    let kind = COUNT_KINDS[(n as usize) / COUNT_NS.len()];
    let k = COUNT_NS[(n as usize) % COUNT_NS.len()];
    let seq = |f: &dyn Fn(usize) -> String, sep: &str| (0..k).map(f).collect::<Vec<_>>().join(sep);
    match kind {
        "filters_dead_then_live" => format!("{{% if false %}}{}{{% endif %}}{{{{ x|upper }}}}{{{{ x|lower }}}}", seq(&|i| format!("{{{{ x|nofilter{} }}}}", i), "")),
        "filters_all_live" => {
            let names = ["upper", "lower", "string", "trim", "title", "capitalize", "e", "escape", "safe", "list", "first", "last", "length", "count", "int", "float", "abs", "bool", "d", "default"];
            format!("{{% if false %}}{}{{% endif %}}{}", seq(&|i| format!("{{{{ x|nf{} }}}}", i), ""), names.iter().map(|f| format!("{{{{ s|{} }}}}", f)).collect::<String>())
        }
        "tests_dead_then_live" => format!("{{% if false %}}{}{{% endif %}}{{{{ x is defined }}}}{{{{ x is odd }}}}", seq(&|i| format!("{{{{ x is notest{} }}}}", i), "")),
        "tests_all_live" => format!("{{% if false %}}{}{{% endif %}}{{{{ x is defined }}}}{{{{ x is undefined }}}}{{{{ x is odd }}}}{{{{ x is even }}}}{{{{ x is number }}}}{{{{ x is string }}}}{{{{ s is string }}}}", seq(&|i| format!("{{{{ x is nt{} }}}}", i), "")),
        "locals" => format!("{}{{{{ v0 }}}}{{{{ v{} }}}}", seq(&|i| format!("{{% set v{} = {} %}}", i, i), ""), k - 1),
        "macro_params" => format!("{{% macro mm({}) %}}{{{{ p0 }}}}{{{{ p{} }}}}{{% endmacro %}}{{{{ mm({}) }}}}{{{{ mm() }}}}", seq(&|i| format!("p{}={}", i, i), ", "), k - 1, seq(&|i| i.to_string(), ", ")),
        "macros" => format!("{}{{{{ m0() }}}}{{{{ m{}() }}}}", seq(&|i| format!("{{% macro m{}() %}}{}{{% endmacro %}}", i, i), ""), k - 1),
        "blocks" => format!("{}{{{{ self.b0() }}}}{{{{ self.b{}() }}}}", seq(&|i| format!("{{% block b{} %}}{}{{% endblock %}}", i, i), ""), k - 1),
        "call_args" => format!("{{{{ range({}) }}}}{{{{ dict({}) }}}}", seq(&|i| i.to_string(), ", "), seq(&|i| format!("k{}={}", i, i), ", ")),
        "kwargs" => format!("{{% macro mk() %}}{{{{ kwargs|length }}}}{{% endmacro %}}{{{{ mk({}) }}}}", seq(&|i| format!("k{}={}", i, i), ", ")),
        "list_items" => format!("{{{{ [{}]|length }}}}{{{{ ({},)|length }}}}", seq(&|i| i.to_string(), ", "), seq(&|i| format!("x + {}", i), ", ")),
        "map_keys" => format!("{{{{ {{{}}}|length }}}}", seq(&|i| format!("'k{}': x", i), ", ")),
        "with_targets" => format!("{{% with {} %}}{{{{ w0 }}}}{{{{ w{} }}}}{{% endwith %}}", seq(&|i| format!("w{} = {}", i, i), ", "), k - 1),
        "unpack_targets" => format!("{{% set {} = range({}) %}}{{{{ u0 }}}}{{{{ u{} }}}}", seq(&|i| format!("u{}", i), ", "), k, k - 1),
        // (chains of attributes and of ~ are the depth family's business: known findings)
        "nested_attrs" => seq(&|i| format!("{{{{ m.a{} }}}}", i), ""),
        "filter_args" => format!("{{{{ x|default({}) }}}}{{{{ '%s'|format({}) }}}}", seq(&|i| i.to_string(), ", "), seq(&|i| i.to_string(), ", ")),
        "includes" => seq(&|_| "{% include 'p' %}".to_string(), ""),
        "set_blocks" => format!("{}{{{{ c0 }}}}", seq(&|i| format!("{{% set c{} %}}{}{{% endset %}}", i, i), "")),
        "loop_vars" => format!("{{% for {} in [range({})] %}}{{{{ l0 }}}}{{{{ l{} }}}}{{% endfor %}}", seq(&|i| format!("l{}", i), ", "), k, k - 1),
        _ => seq(&|i| format!("{{{{ '{}' ~ x }}}}", i), ""),
    }
}

/// collecting filters over lazily repeated sequences: just under and far over the size the engine
/// accepts
const BIG_LAZY_FILTERS: &[&str] = &[
    "batch(2)|length", "list|length", "sort|length", "reverse|length", "slice(2)|length", "unique|list|length", "join|length", "sum", "min", "max", "last", "first", "length", "map('string')|list|length", "select|list|length",
    "tojson|length", "string|length", "groupby('x')|length", "items", "dictsort", "indent|length", "random", "pprint|length", "e|length", "urlencode|length",
];
const BIG_LAZY_RECEIVERS: &[&str] = &["([1] * 1000000000000)", "([1, 2] * 9223372036854775807)", "([1] * 300000)", "('ab' * 1000000000000)", "((1,) * 1000000000000)", "(([1] * 1000000) * 1000000)"];

fn ranked_string(mut n: u64, alphabet: &[&str]) -> String {
    // ranks all strings of length 0,1,2,... in order
    let base = alphabet.len() as u64;
    let mut len = 0u32;
    let mut count = 1u64;
    while n >= count {
        n -= count;
        len += 1;
        count = base.pow(len);
    }
    let mut s = String::new();
    for _ in 0..len {
        s.push_str(alphabet[(n % base) as usize]);
        n /= base;
    }
    s
}

fn ranked_total(max_len: u32, base: u64) -> u64 {
    (0..=max_len).map(|l| base.pow(l)).sum()
}

const TAGS: &[&str] = &[
    "{% for x in xs %}", "{% endfor %}", "{% if x %}", "{% elif x %}", "{% else %}", "{% endif %}", "{% set a = 1 %}", "{% set a %}", "{% endset %}", "{% with a = 1 %}",
    "{% endwith %}", "{% macro mm() %}", "{% endmacro %}", "{% call mm() %}", "{% endcall %}", "{% filter upper %}", "{% endfilter %}", "{% autoescape true %}",
    "{% endautoescape %}", "{% block b %}", "{% endblock %}", "{% extends 'p' %}", "{% include 'p' %}", "{% import 'p' as q %}", "{% from 'p' import a %}", "{% raw %}",
    "{% endraw %}", "{% do x() %}", "{% break %}", "{% continue %}", "{{ x }}", "t", "{{ loop.index }}", "{{ super() }}", "{{ caller() }}", "{{ mm() }}", "{% for x in xs recursive %}", "{{ loop(xs) }}",
];

struct Callables {
    filters: Vec<String>,
    tests: Vec<String>,
    functions: Vec<String>,
    methods: Vec<String>,
}

fn callables() -> Callables {
    let r = reg::discover();
    let mut filters = r.filters.clone();
    for f in ["pluralize", "filesizeformat", "truncate", "striptags", "wordcount", "wordwrap", "random"] {
        filters.push(f.to_string());
    }
    let mut functions = r.functions.clone();
    for f in ["cycler", "joiner", "randrange"] {
        functions.push(f.to_string());
    }
    if std::env::var("VERIF_TIER").ok().as_deref() == Some("thorough") {
        // lipsum(n) with n >= 2^31 only ever times out (an unbounded but finite computation)
        functions.push("lipsum".to_string());
    }
    let methods: Vec<String> = "capitalize count endswith find format get isalnum isalpha isascii islower isspace isupper items join keys lower lstrip replace rfind rstrip split splitlines startswith strip title upper values cycle changed next reset"
        .split(' ')
        .map(|s| s.to_string())
        .collect();
    Callables { filters, tests: r.tests.into_iter().filter(|t| t.chars().all(|c| c.is_ascii_alphanumeric() || c == '_')).collect(), functions, methods }
}

const ARGS: &[&str] = &["0", "1", "-1", "2147483648", "9223372036854775807", "9223372036854775808", "18446744073709551615", "(-9223372036854775807 - 1)", "1e308", "''", "'a'", "[]", "{}", "undef"];
const RECEIVERS: &[&str] = &["'abc'", "5", "[1, 2, 3]", "{'a': 1}", "none", "1.5", "true", "''", "hu", "ho", "hb", "hobj"];

fn builtin_total(c: &Callables, max_arity: u32) -> u64 {
    let per = ranked_total(max_arity, ARGS.len() as u64);
    let n_call = (c.filters.len() + c.tests.len() + c.methods.len()) as u64 * RECEIVERS.len() as u64 + c.functions.len() as u64;
    n_call * per
}

fn builtin_case(c: &Callables, max_arity: u32, n: u64) -> String {
    let per = ranked_total(max_arity, ARGS.len() as u64);
    let which = n / per;
    let args = {
        // rank n % per into an argument tuple
        let mut k = n % per;
        let base = ARGS.len() as u64;
        let mut len = 0u32;
        let mut count = 1u64;
        while k >= count {
            k -= count;
            len += 1;
            count = base.pow(len);
        }
        let mut v = vec![];
        for _ in 0..len {
            v.push(ARGS[(k % base) as usize]);
            k /= base;
        }
        v.join(", ")
    };
    let nr = RECEIVERS.len() as u64;
    let nf = c.filters.len() as u64 * nr;
    let nt = c.tests.len() as u64 * nr;
    let nm = c.methods.len() as u64 * nr;
    if which < nf {
        let f = &c.filters[(which / nr) as usize];
        let r = RECEIVERS[(which % nr) as usize];
        if args.is_empty() { format!("{{{{ {}|{} }}}}", r, f) } else { format!("{{{{ {}|{}({}) }}}}", r, f, args) }
    } else if which < nf + nt {
        let w = which - nf;
        let t = &c.tests[(w / nr) as usize];
        let r = RECEIVERS[(w % nr) as usize];
        if args.is_empty() { format!("{{{{ {} is {} }}}}", r, t) } else { format!("{{{{ {} is {}({}) }}}}", r, t, args) }
    } else if which < nf + nt + nm {
        let w = which - nf - nt;
        let m = &c.methods[(w / nr) as usize];
        let r = RECEIVERS[(w % nr) as usize];
        match m.as_str() {
            // loop methods need a loop, cycler/joiner methods their object
            "cycle" | "changed" => format!("{{% for i in {} %}}{{{{ loop.{}({}) }}}}{{% endfor %}}", if r == "none" || r == "5" || r == "1.5" || r == "true" { "[1, 2]" } else { r }, m, args),
            "next" | "reset" => format!("{{% set c = cycler({}) %}}{{{{ c.{}() }}}}{{{{ c.{}({}) }}}}", args, m, m, args),
            _ => format!("{{{{ ({}).{}({}) }}}}", r, m, args),
        }
    } else {
        let w = which - nf - nt - nm;
        let f = &c.functions[w as usize];
        match f.as_str() {
            // (the self-referential namespace lives in the depth family as `namespace_self`)
            "namespace" => format!("{{% set ns = namespace({}) %}}{{{{ ns }}}}{{% set ns.b = [ns.a] %}}{{{{ ns.b }}}}", if args.is_empty() { "".to_string() } else { format!("a={}", args.split(", ").next().unwrap()) }),
            _ => format!("{{{{ {}({}) }}}}", f, args),
        }
    }
}

/// keyword arguments: every built-in called with one keyword argument out of the names any built-in
/// or contrib callable understands, bound to every boundary value (callables that take their options
/// only by keyword are not reached by positional argument tuples)
const KWARG_NAMES: &[&str] = &[
    "length", "killwords", "end", "leeway", "attribute", "reverse", "case_sensitive", "default", "boolean", "width", "first", "blank", "indent", "fill_with", "precision", "method", "start", "step",
    "n", "html", "min", "max", "count", "sep", "maxsplit", "by", "key", "value", "d", "binary", "wrapstring", "break_long_words", "break_on_hyphens", "keepends", "chars", "sort_keys", "safe",
];
const KWARG_RECEIVERS: &[&str] = &["'abc def ghi jkl'", "[3, 1, 2]", "5", "{'a': 1}"];

fn kwargs_total(c: &Callables) -> u64 {
    ((c.filters.len() + c.tests.len()) * KWARG_RECEIVERS.len() + c.functions.len()) as u64 * (KWARG_NAMES.len() * ARGS.len()) as u64
}

fn kwargs_case(c: &Callables, n: u64) -> String {
    let per = (KWARG_NAMES.len() * ARGS.len()) as u64;
    let which = n / per;
    let kw = format!("{}={}", KWARG_NAMES[((n % per) as usize) / ARGS.len()], ARGS[((n % per) as usize) % ARGS.len()]);
    let nr = KWARG_RECEIVERS.len() as u64;
    let nf = c.filters.len() as u64 * nr;
    let nt = c.tests.len() as u64 * nr;
    if which < nf {
        format!("{{{{ {}|{}({}) }}}}", KWARG_RECEIVERS[(which % nr) as usize], c.filters[(which / nr) as usize], kw)
    } else if which < nf + nt {
        let w = which - nf;
        format!("{{{{ {} is {}({}) }}}}", KWARG_RECEIVERS[(w % nr) as usize], c.tests[(w / nr) as usize], kw)
    } else {
        format!("{{{{ {}({}) }}}}", c.functions[(which - nf - nt) as usize], kw)
    }
}

/// an error formatted into a sink that fails: every one of the five forms of every one of a set of
/// failing templates, written to a `fmt::Write` that accepts k bytes and then reports an error, for
/// every k (formatting must hand the sink's error on, never panic over it)
const SINK_TEMPLATES: &[&str] = &[
    "{{ 1 +", "a\nb\n{{ nofunc(x) }}\nc\nd", "{% for i in xs %}\n{{ i // 0 }}\n{% endfor %}", "{{ 'é☃' ~ (xs|nofilter) }}", "{% include 'missing' %}", "l1\nl2\nl3\nl4\n{{ [1,\n 2]|join(1, 2, 3, 4) }}\nl7\nl8\nl9",
    "{% extends 'p' %}{% block b %}{{ super() }}{{ undefined_fn() }}{% endblock %}",
];
struct FailingSink {
    left: usize,
}
impl std::fmt::Write for FailingSink {
    fn write_str(&mut self, s: &str) -> std::fmt::Result {
        if s.len() > self.left {
            self.left = 0;
            return Err(std::fmt::Error);
        }
        self.left -= s.len();
        Ok(())
    }
}

fn sink_case(env: &Environment, n: u64, cc: &mut ChildCtx) {
    let src = SINK_TEMPLATES[(n as usize) % SINK_TEMPLATES.len()];
    let err = match env.template_from_named_str("t.html", src) {
        Err(e) => e,
        Ok(t) => match t.render(std_ctx()) {
            Err(e) => e,
            Ok(_) => {
                cc.outcome("sink template renders");
                return;
            }
        },
    };
    let mut full = String::new();
    let _ = write!(full, "{:#?}{}", err, err.display_debug_info());
    let max = full.len() + 8;
    let mut k = 0usize;
    while k <= max {
        for form in 0..5 {
            let mut sink = FailingSink { left: k };
            let _ = match form {
                0 => write!(sink, "{}", err),
                1 => write!(sink, "{:#}", err),
                2 => write!(sink, "{:?}", err),
                3 => write!(sink, "{:#?}", err),
                _ => write!(sink, "{}", err.display_debug_info()),
            };
        }
        k += if k < 600 { 1 } else { 41 };
    }
    cc.outcome("error formatted into failing sinks");
}

/// templates of more than 65 535 lines whose failing construct lies beyond that line, on one line and
/// spanning two or three: line numbers are kept in 16 bits inside the engine, nothing may depend on
/// their being exact
const HUGE_FAULTS: &[&str] = &[
    "{{ nofunc() }}", "{{ [1,\n2]|nofilter }}", "{{ (1 +\n 'a') }}", "{% for a, b in [1,\n2] %}{% endfor %}", "{{ 'abc\ndef' + }}", "{{ x|join(1,\n2,\n3, 4) }}", "{% if x\n%}{{ 1 // 0 }}{% endif %}",
    "{{ xs.nope\n.deeper }}", "    {{\n1 // 0 }}", "{{ 1 //\n\n\n 0 }}", "{%\nnotatag %}",
];
const HUGE_LINES: &[usize] = &[65_533, 65_534, 65_535, 65_536, 65_537, 70_000, 131_072];

fn huge_case(n: u64) -> String {
    let f = HUGE_FAULTS[(n as usize) % HUGE_FAULTS.len()];
    let lines = HUGE_LINES[(n as usize) / HUGE_FAULTS.len()];
    format!("{}{}\ntail", "\n".repeat(lines), f)
}

/// syntax configurations: every choice of up to two of the eight delimiter / prefix settings out of
/// a 13-string alphabet (empty, one character, default markers, markers of another kind, blanks,
/// multi-byte, newline), the others at their defaults; what `build()` accepts must lex 12 templates
const CFG_STRINGS: &[&str] = &["", "{", "{{", "{%", "{#", "}}", "%}", "#}", "<", "x", " ", "é", "\n"];
const CFG_TEMPLATES: &[&str] = &["", "{#", "{# c #}", "{{ 1 }}", "{% if 1 %}x{% endif %}", "x\n# y\n## z", "é{{é}}", "{{", "<x>", "{% raw %}{{{% endraw %}", " { { ", "a}}b%}c#}d"];

fn cfg_total() -> u64 {
    let s = CFG_STRINGS.len() as u64;
    // slot pairs (i <= j; i == j means one slot only) x strings x strings
    (8 * 9 / 2) * s * s
}

fn cfg_case(n: u64) -> (usize, usize, &'static str, &'static str) {
    let s = CFG_STRINGS.len() as u64;
    let pair = n / (s * s);
    let (mut i, mut j, mut k) = (0usize, 0usize, 0u64);
    'outer: for a in 0..8 {
        for b in a..8 {
            if k == pair {
                i = a;
                j = b;
                break 'outer;
            }
            k += 1;
        }
    }
    (i, j, CFG_STRINGS[((n / s) % s) as usize], CFG_STRINGS[(n % s) as usize])
}

fn cfg_run(n: u64, cc: &mut ChildCtx) {
    let (i, j, a, b) = cfg_case(n);
    let mut slots: [Option<&str>; 8] = [None; 8];
    slots[i] = Some(a);
    slots[j] = Some(b);
    let mut bld = minijinja::syntax::SyntaxConfig::builder();
    let d = ["{%", "%}", "{{", "}}", "{#", "#}"];
    let g = |k: usize| slots[k].unwrap_or(d[k]).to_string();
    bld.block_delimiters(g(0), g(1)).variable_delimiters(g(2), g(3)).comment_delimiters(g(4), g(5));
    if let Some(p) = slots[6] {
        bld.line_statement_prefix(p.to_string());
    }
    if let Some(p) = slots[7] {
        bld.line_comment_prefix(p.to_string());
    }
    match bld.build() {
        Err(e) => {
            fmt_error(&e);
            cc.outcome("syntax configuration refused");
        }
        Ok(sc) => {
            let mut env = Environment::new();
            env.set_syntax(sc);
            for opts in 0..2 {
                env.set_trim_blocks(opts == 1);
                env.set_lstrip_blocks(opts == 1);
                for t in CFG_TEMPLATES {
                    // the template in default spelling and with its markers replaced by the configured ones
                    let t2 = t.replace("{%", &g(0)).replace("%}", &g(1)).replace("{{", &g(2)).replace("}}", &g(3)).replace("{#", &g(4)).replace("#}", &g(5));
                    for src in [t.to_string(), t2] {
                        match env.render_str(&src, std_ctx()) {
                            Ok(_) => cc.outcome("configured syntax renders"),
                            Err(e) => {
                                fmt_error(&e);
                                cc.outcome("configured syntax reports an error");
                            }
                        }
                    }
                }
            }
        }
    }
}

/// seeds of the template-visible random generator (`{% set RAND_SEED = n %}`): the generator is a
/// 64-bit xorshift, which is a bijection on its state, so the seeds that put a *boundary* state (all
/// ones, just below, the top bit, one, the value whose float ratio is exactly 1.0) in front of the
/// k-th draw can be computed by running it backwards; k = 0..=24, plus zero and a few small seeds,
/// for every callable that draws
const RAND_TARGETS: &[u64] = &[u64::MAX, u64::MAX - 1, u64::MAX - 1023, u64::MAX - 1024, 1 << 63, (1 << 63) - 1, 1, 2, 0x8000_0000_0000_0400];
const RAND_BODIES: &[&str] = &[
    "{{ lipsum(1) }}", "{{ lipsum(2, html=true, min=3, max=9) }}", "{{ [1, 2, 3]|random }}", "{{ 'abc'|random }}{{ {'a': 1}|random }}", "{{ randrange(3) }}{{ randrange(-5, 5) }}{{ randrange(0, 1) }}",
    "{% for i in range(40) %}{{ [1, 2]|random }}{{ randrange(2) }}{% endfor %}", "{{ range(1000)|random }}{{ []|random }}",
];
const RAND_STEPS: u64 = 25;

fn xorshift_back(mut x: u64) -> u64 {
    // undo x ^= x << 17; x ^= x >> 7; x ^= x << 13 (the forward order is 13, 7, 17)
    x ^= x << 17 ^ x << 34 ^ x << 51;
    let mut y = x;
    let mut sh = 7;
    while sh < 64 {
        y ^= x >> sh;
        sh += 7;
    }
    x = y;
    x ^= x << 13 ^ x << 26 ^ x << 39 ^ x << 52;
    x
}

fn rand_total() -> u64 {
    (RAND_TARGETS.len() as u64 * RAND_STEPS + 6) * RAND_BODIES.len() as u64
}

fn rand_case(n: u64) -> String {
    let body = RAND_BODIES[(n as usize) % RAND_BODIES.len()];
    let k = n / RAND_BODIES.len() as u64;
    let nt = RAND_TARGETS.len() as u64 * RAND_STEPS;
    let seed = if k < nt {
        let mut x = RAND_TARGETS[(k / RAND_STEPS) as usize];
        for _ in 0..(k % RAND_STEPS) {
            x = xorshift_back(x);
        }
        x
    } else {
        [0u64, 1, 2, 42, 1 << 32, 0x9e37_79b9_7f4a_7c15][(k - nt) as usize]
    };
    format!("{{% set RAND_SEED = {} %}}{}", seed, body)
}

const DEPTH_SHAPES: &[&str] = &[
    "neg", "not", "elif", "filter_chain", "add_const", "add_var", "concat", "attr_chain", "call_chain", "index_chain", "nested_list", "nested_paren", "nested_map", "nested_if", "nested_for",
    "nested_with", "nested_macro", "assign_parens", "is_chain", "ternary_chain", "deep_data_list", "list_append_loop", "namespace_self", "nested_filter_block", "nested_set_block", "compare_chain", "and_chain", "string_escape", "long_ident",
    "pow_chain", "tuple_unpack_nest",
];
const DEPTHS: &[usize] = &[150, 151, 2_000, 20_000, 200_000];

fn depth_case(n: u64) -> (String, Option<Value>) {
    let shape = DEPTH_SHAPES[(n as usize) / DEPTHS.len()];
    let d = DEPTHS[(n as usize) % DEPTHS.len()];
    let rep = |s: &str, k: usize| s.repeat(k);
    let src = match shape {
        "neg" => format!("{{{{ {}x }}}}", rep("-", d)),
        "not" => format!("{{{{ {}x }}}}", rep("not ", d)),
        "elif" => format!("{{% if 0 %}}{}{{% endif %}}", rep("{% elif x %}a", d)),
        "filter_chain" => format!("{{{{ x{} }}}}", rep("|int", d)),
        "add_const" => format!("{{{{ 1{} }}}}", rep("+1", d)),
        "add_var" => format!("{{{{ x{} }}}}", rep("+x", d)),
        "concat" => format!("{{{{ x{} }}}}", rep("~x", d)),
        "attr_chain" => format!("{{{{ m{} }}}}", rep(".a", d)),
        "call_chain" => format!("{{{{ x{} }}}}", rep("()", d)),
        "index_chain" => format!("{{{{ xs{} }}}}", rep("[0]", d)),
        "nested_list" => format!("{{{{ {}{} }}}}", rep("[", d), rep("]", d)),
        "nested_paren" => format!("{{{{ {}x{} }}}}", rep("(", d), rep(")", d)),
        "nested_map" => format!("{{{{ {}1{} }}}}", rep("{'a':", d), rep("}", d)),
        "nested_if" => format!("{}x{}", rep("{% if x %}", d), rep("{% endif %}", d)),
        "nested_for" => format!("{}x{}", rep("{% for i in e %}", d), rep("{% endfor %}", d)),
        "nested_with" => format!("{}x{}", rep("{% with a = 1 %}", d), rep("{% endwith %}", d)),
        "nested_macro" => format!("{}x{}", rep("{% macro q() %}", d), rep("{% endmacro %}", d)),
        "assign_parens" => format!("{{% set {}a{} = 1 %}}", rep("(", d), rep(")", d)),
        "is_chain" => format!("{{{{ x{} }}}}", rep(" is defined", d)),
        "ternary_chain" => format!("{{{{ {}1 }}}}", rep("1 if x else ", d)),
        "deep_data_list" => "{{ deep }}{{ deep|tojson }}{{ deep == deep }}{% for i in deep recursive %}{{ loop(i) }}{% endfor %}".to_string(),
        "list_append_loop" => format!("{{% set a = [] %}}{{% for i in range({}) %}}{{% set a = a + [i] %}}{{% endfor %}}{{{{ a|length }}}}{{% set b = [] %}}{}{{{{ b|length }}}}", d.min(20_000), rep("{% set b = b + [1] %}", d.min(2_000))),
        "namespace_self" => "{% set ns = namespace() %}{% set ns.self = ns %}{{ ns }}{{ ns|tojson }}{{ ns == ns }}{{ ns|string|length }}".to_string(),
        "nested_filter_block" => format!("{}x{}", rep("{% filter upper %}", d), rep("{% endfilter %}", d)),
        "nested_set_block" => format!("{}x{}", rep("{% set a %}", d), rep("{% endset %}", d)),
        "compare_chain" => format!("{{{{ 1{} }}}}", rep(" < 2", d)),
        "and_chain" => format!("{{{{ x{} }}}}", rep(" and x", d)),
        "string_escape" => format!("{{{{ '{}' }}}}", rep("\\n", d)),
        "long_ident" => format!("{{{{ {} }}}}", rep("a", d)),
        "pow_chain" => format!("{{{{ 1{} }}}}", rep("**1", d)),
        "tuple_unpack_nest" => format!("{{% for {}a{} in xs %}}{{% endfor %}}", rep("(", d), rep(",)", d)),
        _ => unreachable!(),
    };
    let extra = if shape == "deep_data_list" {
        let mut v = Value::from(Vec::<Value>::new());
        for _ in 0..d.min(1_000) {
            v = Value::from(vec![v]);
        }
        Some(v)
    } else {
        None
    };
    (src, extra)
}

/// run-time value chains: a loop applies one lazy wrapping step to an accumulator N times, then the
/// result is measured, iterated, compared, printed in part and dropped
const ACC_STEPS: &[(&str, &str, &str)] = &[
    ("append", "[]", "ns.acc + [i]"),
    ("prepend", "[]", "[i] + ns.acc"),
    ("pair_in_front", "[]", "([] + []) + ns.acc"),
    ("pair_behind", "[]", "ns.acc + ([] + [])"),
    ("append_then_concat_empty", "[]", "(ns.acc + [i]) + []"),
    ("both_sides", "[]", "([i] + ns.acc) + ([i] + [i])"),
    ("chain_filter_append", "[]", "ns.acc|chain([i])"),
    ("chain_filter_prepend", "[]", "[i]|chain(ns.acc)"),
    ("slice_of_concat", "[]", "(ns.acc + [i])[0:]"),
    ("slice_only", "[1, 2, 3]", "ns.acc[0:]"),
    ("reverse", "[1, 2, 3]", "ns.acc|reverse"),
    ("map_filter", "[1, 2, 3]", "ns.acc|map('int')"),
    ("select_filter", "[1, 2, 3]", "ns.acc|select"),
    ("unique_then_append", "[]", "(ns.acc|unique) + [i]"),
    ("items_of_dict", "{}", "dict(ns.acc|items)"),
    ("dict_merge", "{}", "dict(ns.acc, k=i)"),
    ("string_concat", "''", "ns.acc ~ 'a'"),
    ("string_add", "''", "ns.acc + 'a'"),
    ("string_slice", "'abc'", "ns.acc[0:]"),
    ("tuple_concat", "()", "ns.acc + (i,)"),
    ("batch_first", "[1, 2, 3]", "ns.acc|batch(3)|first"),
    ("zip_unzip", "[1, 2, 3]", "ns.acc|zip(ns.acc)|map('first')"),
];
const ACC_COUNTS: &[usize] = &[33, 1_000, 30_000];

fn acc_case(n: u64) -> String {
    let (_, init, step) = ACC_STEPS[(n as usize) / ACC_COUNTS.len()];
    let count = ACC_COUNTS[(n as usize) % ACC_COUNTS.len()];
    format!(
        "{{% set ns = namespace(acc={}) %}}{{% for i in range({}) %}}{{% set ns.acc = {} %}}{{% endfor %}}{{{{ ns.acc|length }}}}{{% for x in ns.acc %}}{{% endfor %}}{{{{ ns.acc == ns.acc }}}}{{{{ ns.acc|first }}}}{{{{ ns.acc|last }}}}{{{{ (ns.acc|string)[:10] }}}}",
        init, count, step
    )
}

const OPS: &[&str] = &["+", "-", "*", "/", "//", "%", "**", "~", "==", "<", "in", "and"];

fn run_case(family: &str, n: u64, cc: &mut ChildCtx) {
    thread_local! {
        static ENV: Environment<'static> = base_env();
        static CALLABLES: Callables = callables();
        static EDGE: Vec<vals::Named> = vals::v_edge(true);
    }
    let ctx = std_ctx();
    ENV.with(|env| match family {
        "frag_template" => exercise_template(env, &ranked_string(n, FRAGS), &ctx, cc),
        "frag_expression" => exercise_expression(env, &ranked_string(n, FRAGS), &ctx, cc),
        "tags" => exercise_template(env, &ranked_string(n, TAGS), &ctx, cc),
        "builtins2" | "builtins3" => {
            let arity = if family == "builtins2" { 2 } else { 3 };
            let src = CALLABLES.with(|c| builtin_case(c, arity, n));
            exercise_template(env, &src, &ctx, cc);
        }
        "ops" => EDGE.with(|edge| {
            let ne = edge.len() as u64;
            let op = OPS[(n % OPS.len() as u64) as usize];
            let b = &edge[((n / OPS.len() as u64) % ne) as usize];
            let a = &edge[(n / OPS.len() as u64 / ne) as usize];
            // sequence repetition by an astronomically large count is lazy; evaluating it is fine,
            // printing it would not terminate, so only the value is built and its length asked for
            let src = format!("a {} b", op);
            exercise_expression(env, &src, &context! { a => a.value.clone(), b => b.value.clone() }, cc);
            if op == "+" {
                exercise_expression(env, "-a", &context! { a => a.value.clone() }, cc);
                exercise_expression(env, "a|abs", &context! { a => a.value.clone() }, cc);
                exercise_expression(env, "a|round(b)", &context! { a => a.value.clone(), b => b.value.clone() }, cc);
                exercise_expression(env, "range(a, b)", &context! { a => a.value.clone(), b => b.value.clone() }, cc);
                exercise_expression(env, "range(0, a, b)", &context! { a => a.value.clone(), b => b.value.clone() }, cc);
                exercise_expression(env, "xs[a:b]", &context! { xs => vec![1, 2, 3], a => a.value.clone(), b => b.value.clone() }, cc);
                exercise_expression(env, "'abc'[a:b:a]", &context! { a => a.value.clone(), b => b.value.clone() }, cc);
                exercise_expression(env, "'x'|indent(a)", &context! { a => a.value.clone() }, cc);
                exercise_expression(env, "'x'|center(a)", &context! { a => a.value.clone() }, cc);
                exercise_expression(env, "xs|batch(a, b)|list", &context! { xs => vec![1, 2, 3], a => a.value.clone(), b => b.value.clone() }, cc);
                exercise_expression(env, "xs|slice(a, b)|list", &context! { xs => vec![1, 2, 3], a => a.value.clone(), b => b.value.clone() }, cc);
            }
        }),
        "depth" => {
            let (src, extra) = depth_case(n);
            let ctx = match extra {
                Some(v) => context! { deep => v, x => 1, xs => vec![1], m => Value::from_pairs([("a", 1)]), e => Vec::<i32>::new() },
                None => ctx,
            };
            exercise_template(env, &src, &ctx, cc);
            // the same text as an expression where that makes sense
            if let Some(inner) = src.strip_prefix("{{ ").and_then(|s| s.strip_suffix(" }}")) {
                exercise_expression(env, inner, &ctx, cc);
            }
            // static analysis walks the AST recursively too
            if let Ok(t) = env.template_from_str(&src) {
                let _ = t.undeclared_variables(true);
            }
        }
        "accumulate" => {
            exercise_template(env, &acc_case(n), &ctx, cc);
        }
        "afterlife" => {
            exercise_template(env, &after_case(n), &ctx, cc);
        }
        "controls" => {
            exercise_template(env, &ctl_case(n).1, &ctx, cc);
        }
        "compose" => {
            let mut e2 = base_env();
            let mut ok = true;
            for (name, src) in compose_case(n) {
                ok &= e2.add_template_owned(name, src).map_err(|e| fmt_error(&e)).is_ok();
            }
            if ok {
                match e2.get_template("host").and_then(|t| t.render(ctx.clone())) {
                    Ok(_) => cc.outcome("rendered"),
                    Err(e) => {
                        fmt_error(&e);
                        cc.outcome("render error");
                    }
                }
            } else {
                cc.outcome("load error");
            }
        }
        "counts" => {
            exercise_template(env, &count_case(n), &ctx, cc);
        }
        "kwargs" => {
            let src = CALLABLES.with(|c| kwargs_case(c, n));
            exercise_template(env, &src, &ctx, cc);
        }
        "rand_seeds" => exercise_template(env, &rand_case(n), &ctx, cc),
        "error_sinks" => sink_case(env, n, cc),
        "huge_lines" => exercise_template(env, &huge_case(n), &ctx, cc),
        "syntax_configs" => cfg_run(n, cc),
        "big_lazy" => {
            let f = BIG_LAZY_FILTERS[(n as usize) % BIG_LAZY_FILTERS.len()];
            let r = BIG_LAZY_RECEIVERS[(n as usize) / BIG_LAZY_FILTERS.len()];
            exercise_template(env, &format!("{{{{ {}|{} }}}}", r, f), &ctx, cc);
        }
        "format_specs" => {
            let (a, b) = fmt_case(n);
            exercise_template(env, &a, &ctx, cc);
            exercise_template(env, &b, &ctx, cc);
        }
        "format_strings" => {
            let fs = ranked_string(n, FMT_PIECES);
            let c2 = context! { fs => fs, mp => Value::from_pairs([("é", Value::from(1)), ("a", Value::from("€")), ("", Value::from(2.5)), ("😀", Value::from(vec![1]))]) };
            exercise_template(env, "{{ fs|format(1, 'x€', 2.5) }}", &c2, cc);
            exercise_template(env, "{{ fs|format(mp) }}", &c2, cc);
            exercise_template(env, "{{ fs.format(1, 'x€', a=2, é=3) }}", &c2, cc);
            exercise_template(env, "{{ fs|format('é') }}{{ fs.format('€', 0) }}", &c2, cc);
        }
        "escapes" => {
            let body = ranked_string(n, ESCAPES);
            for q in ['\'', '"'] {
                let lit = format!("{}{}{}", q, body, q);
                exercise_template(env, &format!("{{{{ {} }}}}", lit), &ctx, cc);
                exercise_template(env, &format!("{{% set a = {} %}}{{{{ a|length }}}}{{% include {} ignore missing %}}", lit, lit), &ctx, cc);
                exercise_expression(env, &lit, &ctx, cc);
            }
        }
        "programs" => {
            thread_local! { static G: gen::Gen = gen::Gen::new(gen::Opts { depth: 2, max_programs: u64::MAX, multi_template: false, loop_controls: true, extra_leaves: false }); }
            let src = G.with(|g| g.program(n).source());
            for c in gen::contexts().iter().skip(1).take(1) {
                exercise_template(env, &src, c, cc);
            }
        }
        other => panic!("unknown family {}", other),
    });
}

fn describe(family: &str, n: u64) -> String {
    match family {
        "frag_template" | "frag_expression" => ranked_string(n, FRAGS),
        "tags" => ranked_string(n, TAGS),
        "builtins2" => builtin_case(&callables(), 2, n),
        "builtins3" => builtin_case(&callables(), 3, n),
        "ops" => {
            let edge = vals::v_edge(true);
            let ne = edge.len() as u64;
            format!("{} {} {}", edge[(n / OPS.len() as u64 / ne) as usize].name, OPS[(n % OPS.len() as u64) as usize], edge[((n / OPS.len() as u64) % ne) as usize].name)
        }
        "depth" => format!("{} depth {}", DEPTH_SHAPES[(n as usize) / DEPTHS.len()], DEPTHS[(n as usize) % DEPTHS.len()]),
        "programs" => gen::Gen::new(gen::Opts { depth: 2, max_programs: u64::MAX, multi_template: false, loop_controls: true, extra_leaves: false }).program(n).source(),
        "escapes" => format!("string literal body {:?}", ranked_string(n, ESCAPES)),
        "format_specs" => {
            let (a, b) = fmt_case(n);
            format!("{} / {}", a, b)
        }
        "format_strings" => format!("format string {:?} through |format (positional, mapping) and str.format", ranked_string(n, FMT_PIECES)),
        "compose" => format!("{:?}", compose_case(n)),
        "kwargs" => kwargs_case(&callables(), n),
        "rand_seeds" => rand_case(n),
        "error_sinks" => format!("error of {:?} formatted into sinks failing after k bytes", SINK_TEMPLATES[(n as usize) % SINK_TEMPLATES.len()]),
        "huge_lines" => format!("{} empty lines then {:?}", HUGE_LINES[(n as usize) / HUGE_FAULTS.len()], HUGE_FAULTS[(n as usize) % HUGE_FAULTS.len()]),
        "syntax_configs" => {
            let (i, j, a, b) = cfg_case(n);
            let names = ["block_start", "block_end", "variable_start", "variable_end", "comment_start", "comment_end", "line_statement_prefix", "line_comment_prefix"];
            format!("syntax {}={:?} {}={:?}", names[i], a, names[j], b)
        }
        "counts" => format!("{} x{} :: {}", COUNT_KINDS[(n as usize) / COUNT_NS.len()], COUNT_NS[(n as usize) % COUNT_NS.len()], count_case(n).chars().take(300).collect::<String>()),
        "big_lazy" => format!("{{{{ {}|{} }}}}", BIG_LAZY_RECEIVERS[(n as usize) / BIG_LAZY_FILTERS.len()], BIG_LAZY_FILTERS[(n as usize) % BIG_LAZY_FILTERS.len()]),
        "afterlife" => format!("{} :: {}", AFTER_MAKERS[(n as usize) / AFTER_USES.len()].0, after_case(n)),
        "controls" => format!("{} :: {}", ctl_case(n).0, ctl_case(n).1),
        "accumulate" => format!("{} x{} :: {}", ACC_STEPS[(n as usize) / ACC_COUNTS.len()].0, ACC_COUNTS[(n as usize) % ACC_COUNTS.len()], acc_case(n)),
        _ => String::new(),
    }
}

/// classification of a crash into a finding key: site of the panic / kind of death + input class
fn classify(ev: &Event, desc: &str) -> String {
    let site = if ev.kind == "panic" {
        let loc = ev.detail.rsplit(" at ").next().unwrap_or("").to_string();
        let msg = ev.detail.split(" at ").next().unwrap_or("");
        let msg_class = if msg.contains("overflow") {
            "arithmetic overflow"
        } else if msg.contains("unwrap") || msg.contains("None") {
            "unwrap on None"
        } else if msg.contains("capacity") {
            "capacity overflow"
        } else if msg.contains("divisor of zero") || msg.contains("divide by zero") {
            "division by zero"
        } else if msg.contains("index out of bounds") || msg.contains("out of range") {
            "index out of bounds"
        } else {
            "panic"
        };
        format!("panic[{}] site={}", msg_class, loc)
    } else {
        format!("{}[{}]", ev.kind, if ev.detail.contains("signal 11") || ev.detail.contains("overflowed its stack") { "stack overflow" } else if ev.detail.contains("signal 6") { "abort" } else { "other" })
    };
    let input_class = match ev.family.as_str() {
        "depth" => desc.split(' ').next().unwrap_or("").to_string(),
        "accumulate" => format!("accumulate:{}", desc.split(' ').next().unwrap_or("")),
        "builtins2" | "builtins3" | "kwargs" => {
            // the callable name
            let d = desc;
            if let Some(i) = d.find('|') {
                format!("filter:{}", d[i + 1..].split(|c: char| !c.is_ascii_alphanumeric() && c != '_').next().unwrap_or(""))
            } else if let Some(i) = d.find(" is ") {
                format!("test:{}", d[i + 4..].split(|c: char| !c.is_ascii_alphanumeric() && c != '_').next().unwrap_or(""))
            } else if let Some(i) = d.find(").") {
                format!("method:{}", d[i + 2..].split('(').next().unwrap_or(""))
            } else if d.contains("loop.") {
                format!("method:loop.{}", d.split("loop.").nth(1).unwrap_or("").split('(').next().unwrap_or(""))
            } else {
                format!("function:{}", d.trim_start_matches("{{ ").trim_start_matches("{% set c = ").trim_start_matches("{% set ns = ").split('(').next().unwrap_or(""))
            }
        }
        "ops" => desc.split(' ').nth(1).map(|op| format!("op:{}", op)).unwrap_or_default(),
        f => f.to_string(),
    };
    format!("{} input={} stack={} profile={}", site, input_class, ev.stack, ev.profile)
}

pub fn main(args: Args) -> i32 {
    let start_t = std::time::Instant::now();
    if args.rest.iter().any(|a| a == "--child") {
        return crash::child_main(&args.rest, &run_case);
    }
    install_quiet_panic_hook();
    let acc = Acc::new();
    if let Some(p) = &args.replay {
        let doc = load_replay(p);
        let j = &doc["replay"];
        let fam = j["family"].as_str().unwrap().to_string();
        let n = j["n"].as_u64().unwrap();
        let stack: &'static str = if j["stack"] == "2m" { "2m" } else { "main" };
        let profile: &'static str = if j["profile"] == "debug" { "debug" } else { "release" };
        println!("case: {}", describe(&fam, n).chars().take(300).collect::<String>());
        let r = crash::supervise("c01", vec![crash::Shard { family: fam, from: n, to: n + 1, stack, profile }], Duration::from_secs(20), 4);
        return if r.events.is_empty() {
            println!("replay: case passes");
            0
        } else {
            for e in &r.events {
                println!("VIOLATION property=C01 replay={}  # {} :: {}", p, e.kind, e.detail);
            }
            1
        };
    }
    let quick = args.tier == Tier::Quick;
    let c = callables();
    let nfrag = ranked_total(if quick { 4 } else { 5 }, FRAGS.len() as u64);
    let ntags = ranked_total(if quick { 3 } else { 4 }, TAGS.len() as u64);
    let edge = vals::v_edge(true);
    let nops = (edge.len() * edge.len() * OPS.len()) as u64;
    let ndepth = (DEPTH_SHAPES.len() * DEPTHS.len()) as u64;
    let nprog = gen::Gen::new(gen::Opts { depth: 2, max_programs: u64::MAX, multi_template: false, loop_controls: true, extra_leaves: false }).size();
    let mut shards = vec![];
    // checked-release build, 2 MiB thread: the big enumerations
    shards.extend(crash::shards_for("frag_template", nfrag, 40_000, "2m", "release"));
    shards.extend(crash::shards_for("frag_expression", nfrag, 40_000, "2m", "release"));
    shards.extend(crash::shards_for("tags", ntags, 20_000, "2m", "release"));
    let (bfam, barity) = if quick { ("builtins2", 2) } else { ("builtins3", 3) };
    let nbuiltin = builtin_total(&c, barity);
    shards.extend(crash::shards_for(bfam, nbuiltin, 20_000, "2m", "release"));
    shards.extend(crash::shards_for("ops", nops, 10_000, "2m", "release"));
    shards.extend(crash::shards_for("programs", nprog, 20_000, "2m", "release"));
    // depth probes: opt-level 0 build (largest frames), both stacks; thorough adds the release build
    shards.extend(crash::shards_for("depth", ndepth, 1, "2m", "debug"));
    shards.extend(crash::shards_for("depth", ndepth, 1, "main", "debug"));
    let nesc = ranked_total(if quick { 3 } else { 4 }, ESCAPES.len() as u64);
    shards.extend(crash::shards_for("escapes", nesc, 20_000, "2m", "release"));
    shards.extend(crash::shards_for("controls", ctl_count(), 200, "2m", "release"));
    shards.extend(crash::shards_for("controls", ctl_count(), 200, "2m", "debug"));
    acc.count("cases_controls", ctl_count() * 2);
    let nafter = (AFTER_MAKERS.len() * AFTER_USES.len()) as u64;
    shards.extend(crash::shards_for("afterlife", nafter, 100, "2m", "release"));
    shards.extend(crash::shards_for("afterlife", nafter, 100, "2m", "debug"));
    let ncompose = (COMPOSE_INNER.len() * COMPOSE_PLACES.len() * COMPOSE_VIA.len()) as u64;
    shards.extend(crash::shards_for("compose", ncompose, 100, "2m", "release"));
    shards.extend(crash::shards_for("compose", ncompose, 100, "2m", "debug"));
    let nbig = (BIG_LAZY_FILTERS.len() * BIG_LAZY_RECEIVERS.len()) as u64;
    shards.extend(crash::shards_for("big_lazy", nbig, 5, "2m", "release"));
    let ncounts = (COUNT_KINDS.len() * COUNT_NS.len()) as u64;
    shards.extend(crash::shards_for("counts", ncounts, 20, "2m", "release"));
    shards.extend(crash::shards_for("counts", ncounts, 20, "2m", "debug"));
    let nkw = kwargs_total(&c);
    shards.extend(crash::shards_for("kwargs", nkw, 20_000, "2m", "release"));
    acc.count("cases_kwargs", nkw);
    shards.extend(crash::shards_for("error_sinks", SINK_TEMPLATES.len() as u64, 1, "2m", "release"));
    shards.extend(crash::shards_for("rand_seeds", rand_total(), 200, "2m", "release"));
    acc.count("cases_rand_seeds", rand_total());
    let nhuge = (HUGE_FAULTS.len() * HUGE_LINES.len()) as u64;
    shards.extend(crash::shards_for("huge_lines", nhuge, 4, "2m", "release"));
    shards.extend(crash::shards_for("syntax_configs", cfg_total(), 500, "2m", "release"));
    acc.count("cases_syntax_configs", cfg_total());
    let nfmt = fmt_total();
    shards.extend(crash::shards_for("format_specs", nfmt, 2_000, "2m", "release"));
    let nfmts = ranked_total(if quick { 4 } else { 5 }, FMT_PIECES.len() as u64);
    shards.extend(crash::shards_for("format_strings", nfmts, 20_000, "2m", "release"));
    acc.count("cases_format_strings", nfmts);
    let nacc = (ACC_STEPS.len() * ACC_COUNTS.len()) as u64;
    shards.extend(crash::shards_for("accumulate", nacc, 1, "2m", "debug"));
    shards.extend(crash::shards_for("accumulate", nacc, 1, "2m", "release"));
    if !quick {
        shards.extend(crash::shards_for("accumulate", nacc, 1, "main", "debug"));
        shards.extend(crash::shards_for("accumulate", nacc, 1, "main", "release"));
        shards.extend(crash::shards_for("depth", ndepth, 1, "2m", "release"));
        shards.extend(crash::shards_for("depth", ndepth, 1, "main", "release"));
        shards.extend(crash::shards_for("tags", ranked_total(3, TAGS.len() as u64), 20_000, "main", "debug"));
        shards.extend(crash::shards_for("builtins2", builtin_total(&c, 2), 20_000, "2m", "debug"));
        shards.extend(crash::shards_for("programs", nprog, 20_000, "main", "debug"));
    }
    let n_shards = shards.len();
    let res = crash::supervise("c01", shards, Duration::from_secs(if quick { 5 } else { 20 }), 4);
    acc.eval(res.evals);
    acc.outcomes_merge(&res.outcomes);
    acc.count("children_spawned", res.children_spawned);
    acc.count("shards", n_shards as u64);
    acc.count("cases_frag", nfrag * 2);
    acc.count("cases_tags", ntags);
    acc.count("cases_builtins", nbuiltin);
    acc.count("cases_ops", nops);
    acc.count("cases_depth", ndepth * if quick { 2 } else { 4 });
    acc.count("cases_programs", nprog);
    acc.count("cases_escapes", nesc);
    acc.count("cases_format_specs", nfmt);
    acc.count("cases_afterlife", nafter * 2);
    acc.count("cases_compose", ncompose * 2);
    acc.count("cases_big_lazy", nbig);
    acc.count("cases_counts", ncounts * 2);
    acc.count("cases_accumulate", nacc * if quick { 2 } else { 4 });
    // distinct non-trivial: cases that got as far as rendering or a render error (not a load error)
    let nontrivial = res.outcomes.get("rendered").copied().unwrap_or(0) + res.outcomes.get("render error").copied().unwrap_or(0) + res.outcomes.get("expr ok").copied().unwrap_or(0) + res.outcomes.get("expr error").copied().unwrap_or(0);
    acc.nontrivial_counted.store(nontrivial, std::sync::atomic::Ordering::Relaxed);
    let mut timeouts = 0u64;
    let mut machinery = 0;
    for ev in &res.events {
        let desc = if ev.n == u64::MAX { String::new() } else { describe(&ev.family, ev.n) };
        if ev.kind == "machinery" {
            machinery += 1;
            eprintln!("machinery: {} {}", ev.family, ev.detail);
            continue;
        }
        if ev.kind == "slow" {
            acc.note(format!("slow case ({}): {} #{} {}", ev.detail, ev.family, ev.n, desc.chars().take(120).collect::<String>()));
            acc.count("slow_cases_over_300ms", 1);
            continue;
        }
        if ev.kind == "timeout" {
            // recorded as inconclusive, never as a violation of C01 (hangs belong to C05/C06)
            timeouts += 1;
            acc.note(format!("timeout (inconclusive): {} #{} {}", ev.family, ev.n, desc.chars().take(120).collect::<String>()));
            continue;
        }
        acc.fail(Failure {
            key: classify(ev, &desc),
            case: format!("{}#{} [{} {}] {}", ev.family, ev.n, ev.stack, ev.profile, desc.chars().take(160).collect::<String>()),
            detail: ev.detail.clone(),
            replay: json!({"family": ev.family, "n": ev.n, "stack": ev.stack, "profile": ev.profile, "source": desc.chars().take(2000).collect::<String>()}),
        });
    }
    acc.count("timeouts_inconclusive", timeouts);
    if machinery > 0 {
        eprintln!("machinery error: {} children died outside a case", machinery);
        return 2;
    }
    acc.sample(json!({"family": "frag_template", "case": describe("frag_template", nfrag - 7)}));
    acc.sample(json!({"family": "tags", "case": describe("tags", ntags / 2)}));
    acc.sample(json!({"family": bfam, "case": describe(bfam, nbuiltin / 3)}));
    acc.sample(json!({"family": "depth", "case": describe("depth", 7)}));
    finish(
        Finish {
            property: "C01",
            level: "exploration",
            tier: args.tier,
            seed: args.seed,
            rule: format!("supervised child processes (RLIMIT_AS 4 GiB, per-case wall cap, panics caught, deaths attributed to the published case): (1) every string of <= {} fragments over a 24-fragment alphabet as template and as expression; (2) every sequence of <= {} tags over 38 tags with canned arguments; (3) every built-in and contrib filter/test/method x 8 receivers and every function, x every argument tuple of arity <= {} over a 14-value boundary alphabet; (4) 12 operators + 11 argument-taking built-ins over all pairs of the edge value alphabet; (5) 31 chain/nesting shapes x depths 150/151/2000/20000/200000 on the main thread and a 2 MiB thread in an opt-level-0 build (thorough: also the checked-release build); (6) every program of the depth-2 generator space with loop controls; (7) every string literal (both quote styles, as output, as assignment + include name, and as expression) whose body is a sequence of at most {} pieces out of 28 (every escape form well-formed, truncated and out of range, surrogate halves in both roles, plain and multi-byte characters, a trailing backslash); (8) 22 run-time value chains built by loops (33 / 1000 / 30 000 iterations); (9) every format specification flags x width x precision x conversion x value (7 x 10 x 10 x 18 x 7, numbers up to 2^64) through the format filter and through str.format; (10) 15 kinds of objects that outlive the construct that made them (loop objects after exhaustion / break / recursion, caller, macros from loops and macros, self, namespaces, cycler, joiner) x 33 ways of using them afterwards; (11) 15 special calls and tags (super(), self.block(), caller(), loop, extends, ...) in a template reached by include / import / from-import / include list from 9 kinds of places; (12) 25 collecting filters over 6 lazily repeated sequences just under and far over the size the engine accepts; (13) N distinct things of one kind in one template (filters and tests in dead and live code, locals, macro parameters, macros, blocks, call arguments, keyword arguments, list items, map keys, with and unpack targets, nested attributes, filter arguments, includes, set blocks, loop targets, concatenations) for 20 values of N around 32, 50, 64, 128, 256, 1000, 4096 and 65536. Each case: load, render, format the error in five forms. Oracle: no panic, no signal, no abort. distinct non-trivial = cases that reached evaluation (rendered or failed at run time)", if quick { 4 } else { 5 }, if quick { 3 } else { 4 }, barity, if quick { 3 } else { 4 }),
            exhaustive: true,
            bound: json!({"fragments": FRAGS, "tags": TAGS, "args": ARGS, "receivers": RECEIVERS, "depth_shapes": DEPTH_SHAPES, "depths": DEPTHS}),
            assumptions: vec!["a timeout is recorded as inconclusive, not as a crash".into(), "byte strings longer than the fragment bound and arguments off the boundary alphabet are not explored".into()],
            extra: Default::default(),
            start: start_t,
        },
        &acc,
    )
}
