//! C15 (histories) — an environment's behaviour depends on its contents, not on its history.
//!
//! E3: explicit-state search over operation histories of the real `Environment`.  Every transition
//! calls the real API; the reference model is a handful of plain maps; at every state the real
//! environment is compared with a freshly built environment holding the model's contents.
use crate::core::*;
use minijinja::value::Value;
use minijinja::{Environment, ErrorKind, State};
use serde_json::json;
use std::collections::{BTreeMap, BTreeSet, HashMap};

const NAMES: [&str; 2] = ["a", "b"];

/// template sources; `b` only ever gets leaf sources (0..=3) so that dependencies are one level deep
const SOURCES: [&str; 7] = [
    "A1{% set ns = namespace() %}{% set ns.k = 1 %}{{ {'k': [1, ns]}|tojson }}", // 0 ok (with a namespace attribute assignment and a value serialised by the engine)
    "[{{ g }}|{{ 2|f }}|{{ 3 is t }}]",                  // 1 uses global g, filter f, test t
    "{% if %}",                                          // 2 does not compile
    "x{% autoescape 'bogus' %}{% endautoescape %}",      // 3 fails at run time (in an instruction without a span of its own)
    "<{% include 'b' %}>",                               // 4 includes b
    "{% extends 'b' %}{% block x %}c{% endblock %}",     // 5 extends b
    "({{ render_other('b') }})",                         // 6 nested render of b on the same thread
];
const LEAF_SOURCES: usize = 4;

/// loaders: what each serves for (a, b)
const LOADERS: [[Option<&str>; 2]; 2] = [[Some("L1a{{ g }}"), Some("L1b")], [Some("L2a"), None]];

#[derive(Clone, Copy, Debug, PartialEq, Eq, Hash, PartialOrd, Ord)]
enum Op {
    AddBorrowed(usize, usize),
    AddOwned(usize, usize),
    Remove(usize),
    Clear,
    SetLoader(usize),
    AddFilter,
    RemoveFilter,
    AddTest,
    RemoveTest,
    AddGlobal(i64),
    RemoveGlobal,
    CloneEnv,
    Render(usize),
    GetMissing,
    /// a render that never starts: its context is a host value whose conversion fails (0: the
    /// Serialize implementation returns an error, 1: it panics and the embedder catches the panic, 2:
    /// it fails after a flattened engine value went through) - the thread lives on
    BadContext(u8),
    /// the backing store of the loaders changes: template `b`, which loader 1 does not have, comes
    /// into existence there (or goes away again).  What an environment answered before - found or
    /// not found - is not part of its contents.
    StoreFlip,
}

fn alphabet() -> Vec<Op> {
    let mut v = vec![];
    for n in 0..2 {
        let max_src = if n == 1 { LEAF_SOURCES } else { SOURCES.len() };
        for s in 0..max_src {
            v.push(Op::AddBorrowed(n, s));
            v.push(Op::AddOwned(n, s));
        }
        v.push(Op::Remove(n));
        v.push(Op::Render(n));
    }
    v.extend([Op::Clear, Op::SetLoader(0), Op::SetLoader(1), Op::AddFilter, Op::RemoveFilter, Op::AddTest, Op::RemoveTest, Op::AddGlobal(1), Op::AddGlobal(2), Op::RemoveGlobal, Op::CloneEnv, Op::GetMissing, Op::BadContext(0), Op::BadContext(1), Op::BadContext(2), Op::StoreFlip]);
    v
}

/// The reference model: contents only.
#[derive(Clone, Debug, PartialEq, Eq, Hash, PartialOrd, Ord, Default)]
struct Model {
    borrowed: BTreeMap<usize, usize>,
    /// explicitly added owned templates and templates memoised from a loader (with the source seen
    /// at first request)
    owned: BTreeMap<usize, String>,
    loader: Option<usize>,
    /// whether the loaders' backing store currently holds the late template (loader 1's `b`)
    store: bool,
    filter: bool,
    test: bool,
    global: Option<i64>,
}

impl Model {
    fn source_of(&self, name: usize) -> Option<String> {
        if let Some(s) = self.borrowed.get(&name) {
            return Some(SOURCES[*s].to_string());
        }
        if let Some(s) = self.owned.get(&name) {
            return Some(s.clone());
        }
        self.loader.and_then(|l| loader_source(l, name, self.store)).map(|s| s.to_string())
    }
    fn compiles(src: &str) -> bool {
        src != SOURCES[2]
    }
    /// a successful lookup through the loader memoises the template
    fn request(&mut self, name: usize) {
        if self.borrowed.contains_key(&name) || self.owned.contains_key(&name) {
            return;
        }
        if let Some(src) = self.loader.and_then(|l| loader_source(l, name, self.store)) {
            if Self::compiles(src) {
                self.owned.insert(name, src.to_string());
            }
        }
    }
    fn apply(&mut self, op: Op) {
        match op {
            Op::AddBorrowed(n, s) => {
                if Self::compiles(SOURCES[s]) {
                    self.owned.remove(&n);
                    self.borrowed.insert(n, s);
                }
            }
            Op::AddOwned(n, s) => {
                if Self::compiles(SOURCES[s]) {
                    self.borrowed.remove(&n);
                    self.owned.insert(n, SOURCES[s].to_string());
                }
            }
            Op::Remove(n) => {
                self.borrowed.remove(&n);
                self.owned.remove(&n);
            }
            Op::Clear => {
                self.borrowed.clear();
                self.owned.clear();
            }
            Op::SetLoader(l) => self.loader = Some(l),
            Op::AddFilter => self.filter = true,
            Op::RemoveFilter => self.filter = false,
            Op::AddTest => self.test = true,
            Op::RemoveTest => self.test = false,
            Op::AddGlobal(v) => self.global = Some(v),
            Op::RemoveGlobal => self.global = None,
            Op::CloneEnv | Op::GetMissing | Op::BadContext(_) => {}
            Op::StoreFlip => self.store = !self.store,
            Op::Render(n) => {
                self.request(n);
                // templates that load `b` when rendered
                if let Some(src) = self.source_of(n) {
                    if Self::compiles(&src) && (src == SOURCES[4] || src == SOURCES[5] || src == SOURCES[6]) {
                        self.request(1);
                    }
                }
            }
        }
    }
}

fn render_other(state: &State, name: &str) -> Result<String, minijinja::Error> {
    state.env().get_template(name)?.render(())
}

/// Runs `f` on a fresh OS thread: the engine keeps per-thread scratch state (compiler pools, value
/// handles, conversion flag), so "freshly built" and "this history from the start" both mean a thread
/// nothing was compiled or rendered on before.
fn on_fresh_thread<T: Send>(f: impl FnOnce() -> T + Send) -> T {
    std::thread::scope(|s| s.spawn(f).join()).unwrap_or_else(|_| {
        eprintln!("machinery error: helper thread died");
        std::process::exit(2)
    })
}

fn base_env() -> Environment<'static> {
    let mut env = Environment::new();
    env.set_debug(true);
    env.add_function("render_other", render_other);
    env.add_global("__store", Value::from_object(Store(Default::default())));
    env
}

/// what loader `l` serves for a name, given the state of the backing store
fn loader_source(l: usize, name: usize, store: bool) -> Option<&'static str> {
    match LOADERS[l][name] {
        Some(s) => Some(s),
        None if store => Some("L2b-late"),
        None => None,
    }
}

/// the backing store travels with the environment (as a global holding the shared flag), so that the
/// loaders of an environment and of its clones read the same store
#[derive(Debug)]
struct Store(std::sync::Arc<std::sync::atomic::AtomicBool>);
impl minijinja::value::Object for Store {}

fn store_of(env: &Environment<'static>) -> std::sync::Arc<std::sync::atomic::AtomicBool> {
    env.globals()
        .find(|(k, _)| *k == "__store")
        .and_then(|(_, v)| v.downcast_object_ref::<Store>().map(|s| s.0.clone()))
        .expect("every environment of this check carries its store")
}

fn loader_fn(l: usize, store: std::sync::Arc<std::sync::atomic::AtomicBool>) -> impl Fn(&str) -> Result<Option<String>, minijinja::Error> + Send + Sync + 'static {
    move |name| Ok(NAMES.iter().position(|n| *n == name).and_then(|i| loader_source(l, i, store.load(std::sync::atomic::Ordering::SeqCst))).map(|s| s.to_string()))
}

fn apply_real(env: &mut Environment<'static>, op: Op) -> Result<(), String> {
    match op {
        Op::AddBorrowed(n, s) => env.add_template(NAMES[n], SOURCES[s]).map_err(|e| format!("{:?}", e.kind())),
        Op::AddOwned(n, s) => env.add_template_owned(NAMES[n].to_string(), SOURCES[s].to_string()).map_err(|e| format!("{:?}", e.kind())),
        Op::Remove(n) => {
            env.remove_template(NAMES[n]);
            Ok(())
        }
        Op::Clear => {
            env.clear_templates();
            Ok(())
        }
        Op::SetLoader(l) => {
            let store = store_of(env);
            env.set_loader(loader_fn(l, store));
            Ok(())
        }
        Op::AddFilter => {
            env.add_filter("f", |v: i64| v * 10);
            Ok(())
        }
        Op::RemoveFilter => {
            env.remove_filter("f");
            Ok(())
        }
        Op::AddTest => {
            env.add_test("t", |v: i64| v == 3);
            Ok(())
        }
        Op::RemoveTest => {
            env.remove_test("t");
            Ok(())
        }
        Op::AddGlobal(v) => {
            env.add_global("g", v);
            Ok(())
        }
        Op::RemoveGlobal => {
            env.remove_global("g");
            Ok(())
        }
        Op::CloneEnv => {
            *env = env.clone();
            Ok(())
        }
        Op::Render(n) => {
            let _ = env.get_template(NAMES[n]).and_then(|t| t.render(()));
            Ok(())
        }
        Op::GetMissing => {
            let _ = env.get_template("zz");
            Ok(())
        }
        Op::StoreFlip => {
            store_of(env).fetch_xor(true, std::sync::atomic::Ordering::SeqCst);
            Ok(())
        }
        Op::BadContext(kind) => {
            let r = catch(|| {
                let ctx = match kind {
                    2 => Value::from(minijinja::value::Serde(&BadFlat { more: Value::from_pairs([("b", 23)]), bad: BadCtx(0) })),
                    k => Value::from(minijinja::value::Serde(&BadCtx(k))),
                };
                env.render_str("x{{ v }}", ctx).map(|_| ())
            });
            let _ = r;
            Ok(())
        }
    }
}

/// a context whose conversion into an engine value fails: by error (0) or by panic (1)
struct BadCtx(u8);
impl serde::Serialize for BadCtx {
    fn serialize<S: serde::Serializer>(&self, _s: S) -> Result<S::Ok, S::Error> {
        if self.0 == 1 {
            panic!("host Serialize implementation panics");
        }
        Err(serde::ser::Error::custom("host Serialize implementation fails"))
    }
}
#[derive(serde::Serialize)]
struct BadFlat {
    #[serde(flatten)]
    more: Value,
    bad: BadCtx,
}

/// what a user can observe: for every name, the outcome of get_template + render (twice)
type Obs = Vec<(String, String)>;

fn observe(env: &Environment<'static>) -> Result<Obs, String> {
    // on a clone, so that observing does not populate the cache of the environment under test
    let probe = env.clone();
    let mut v = vec![];
    for name in ["a", "b", "zz"] {
        let once = |e: &Environment<'static>| -> String {
            match e.get_template(name) {
                Err(err) => format!("get:{:?}:{:?}:{:?}", err.kind(), err.line(), err.range()),
                Ok(t) => match t.render(()) {
                    Ok(s) => format!("ok:{}", s),
                    // the whole report of a failing render is part of what a render gives
                    Err(err) => format!("render:{:?}:{:?}:{:?}:{:?}:{:?}", err.kind(), err.name(), err.line(), err.range(), err.detail()),
                },
            }
        };
        let r1 = once(&probe);
        let r2 = once(&probe);
        if r1 != r2 {
            return Err(format!("same render twice differs for {:?}: {} then {}", name, r1, r2));
        }
        v.push((name.to_string(), r1));
    }
    Ok(v)
}

fn fresh_from(model: &Model) -> Environment<'static> {
    let mut env = base_env();
    store_of(&env).store(model.store, std::sync::atomic::Ordering::SeqCst);
    if let Some(l) = model.loader {
        let store = store_of(&env);
        env.set_loader(loader_fn(l, store));
    }
    for (n, s) in &model.borrowed {
        env.add_template(NAMES[*n], SOURCES[*s]).expect("model only holds compiling templates");
    }
    for (n, src) in &model.owned {
        env.add_template_owned(NAMES[*n].to_string(), src.clone()).expect("model only holds compiling templates");
    }
    if model.filter {
        env.add_filter("f", |v: i64| v * 10);
    }
    if model.test {
        env.add_test("t", |v: i64| v == 3);
    }
    if let Some(g) = model.global {
        env.add_global("g", g);
    }
    env
}

fn build(history: &[Op]) -> (Environment<'static>, Model) {
    let mut env = base_env();
    let mut m = Model::default();
    for op in history {
        let _ = apply_real(&mut env, *op);
        m.apply(*op);
    }
    (env, m)
}

fn op_class(op: Op) -> &'static str {
    match op {
        Op::AddBorrowed(..) => "add_borrowed",
        Op::AddOwned(..) => "add_owned",
        Op::Remove(_) => "remove",
        Op::Clear => "clear",
        Op::SetLoader(_) => "set_loader",
        Op::AddFilter | Op::RemoveFilter => "filter",
        Op::AddTest | Op::RemoveTest => "test",
        Op::AddGlobal(_) | Op::RemoveGlobal => "global",
        Op::CloneEnv => "clone",
        Op::Render(_) => "render",
        Op::GetMissing => "get_missing",
        Op::BadContext(_) => "bad_context",
        Op::StoreFlip => "store_flip",
    }
}

/// checks one history step: returns failures
fn check_step(history: &[Op], env: &mut Environment<'static>, model: &mut Model, op: Op, acc: &Acc, fresh_thread: bool) -> bool {
    let hist_str = || {
        let mut h: Vec<String> = history.iter().map(|o| format!("{:?}", o)).collect();
        h.push(format!("{:?}", op));
        h.join(" ; ")
    };
    let mk = |clause: &str, detail: String| {
        let mut classes: Vec<&str> = history.iter().map(|o| op_class(*o)).collect();
        classes.sort();
        classes.dedup();
        Failure {
            key: format!("history {} last_op={} earlier_ops={{{}}}", clause, op_class(op), classes.join(",")),
            case: hist_str(),
            detail,
            replay: json!({"history": history.iter().chain(std::iter::once(&op)).map(|o| format!("{:?}", o)).collect::<Vec<_>>()}),
        }
    };
    let before = match catch(|| observe(env)) {
        Ok(Ok(o)) => o,
        Ok(Err(e)) => {
            acc.fail(mk("nondeterministic_render", e));
            return false;
        }
        Err(p) => {
            acc.fail(mk("panic", format!("observe: {} at {}", p, last_panic_loc())));
            return false;
        }
    };
    let real = catch(|| apply_real(env, op));
    let failed_add = match &real {
        Err(p) => {
            acc.fail(mk("panic", format!("{} at {}", p, last_panic_loc())));
            return false;
        }
        Ok(Err(_)) => matches!(op, Op::AddBorrowed(..) | Op::AddOwned(..)),
        Ok(Ok(())) => false,
    };
    model.apply(op);
    let after = match catch(|| observe(env)) {
        Ok(Ok(o)) => o,
        Ok(Err(e)) => {
            acc.fail(mk("nondeterministic_render", e));
            return false;
        }
        Err(p) => {
            acc.fail(mk("panic", format!("observe: {} at {}", p, last_panic_loc())));
            return false;
        }
    };
    if failed_add && before != after {
        acc.fail(mk("failed_add_changes_environment", format!("before {:?} after {:?}", before, after)));
        return false;
    }
    let expect = if fresh_thread { on_fresh_thread(|| observe(&fresh_from(model)).unwrap_or_default()) } else { observe(&fresh_from(model)).unwrap_or_default() };
    if after != expect {
        acc.fail(mk("differs_from_fresh_environment", format!("environment after the history renders {:?} but a fresh environment with the same contents ({:?}) renders {:?}", after, model, expect)));
        return false;
    }
    true
}

fn parse_op(s: &str) -> Option<Op> {
    alphabet().into_iter().find(|o| format!("{:?}", o) == s)
}

pub fn main(args: Args) -> i32 {
    let start_t = std::time::Instant::now();
    install_quiet_panic_hook();
    let acc = Acc::new();
    let ops = alphabet();
    if let Some(p) = &args.replay {
        let doc = load_replay(p);
        let hist: Vec<Op> = doc["replay"]["history"].as_array().unwrap().iter().filter_map(|s| parse_op(s.as_str().unwrap())).collect();
        let mut env = base_env();
        let mut model = Model::default();
        let mut ok = true;
        for i in 0..hist.len() {
            ok &= check_step(&hist[..i], &mut env, &mut model, hist[i], &acc, true);
            println!("after {:?}: {:?}", hist[i], observe(&env));
        }
        let fs = acc.take_failures();
        return if ok && fs.is_empty() {
            println!("replay: history passes");
            0
        } else {
            for f in &fs {
                println!("VIOLATION property=C15 replay={}  # {} :: {}", p, f.key, f.detail);
            }
            1
        };
    }
    // phase 1: the complete history tree to depth d (no pruning)
    let depth = args.tier.pick(3usize, 4usize);
    let no = ops.len() as u64;
    let total: u64 = no.pow(depth as u32);
    let states_seen = std::sync::Mutex::new(BTreeSet::<Model>::new());
    let transitions = std::sync::atomic::AtomicU64::new(0);
    par_chunks(total, 256, &acc, |r, l| {
        let mut local_states = BTreeSet::new();
        for idx in r {
            // decode the history; check only the last step when the prefix was checked by an earlier
            // index (prefix histories are the indices whose trailing digits are the first op... simpler:
            // every history checks all of its steps; steps of shared prefixes are re-checked, which
            // costs time but keeps every index independent)
            let mut k = idx;
            let mut hist = vec![];
            for _ in 0..depth {
                hist.push(ops[(k % no) as usize]);
                k /= no;
            }
            let (ok, model) = {
                let mut env = base_env();
                let mut model = Model::default();
                let mut ok = false;
                for i in 0..depth {
                    if i + 1 < depth {
                        let _ = apply_real(&mut env, hist[i]);
                        model.apply(hist[i]);
                        continue;
                    }
                    ok = check_step(&hist[..i], &mut env, &mut model, hist[i], &acc, false);
                }
                (ok, model)
            };
            l.evals += 1;
            if ok {
                l.outcome("step ok");
            }
            local_states.insert(model);
            l.nontrivial.insert(fnv(format!("{:?}", hist).as_bytes()));
        }
        transitions.fetch_add(local_states.len() as u64, std::sync::atomic::Ordering::Relaxed);
        states_seen.lock().unwrap().extend(local_states);
    });
    // shallower histories (depth 1..d-1) are prefixes: check them explicitly, too
    for d in 1..depth {
        let t: u64 = no.pow(d as u32);
        par_chunks(t, 64, &acc, |r, l| {
            for idx in r {
                let mut k = idx;
                let mut hist = vec![];
                for _ in 0..d {
                    hist.push(ops[(k % no) as usize]);
                    k /= no;
                }
                l.evals += 1;
                // every history of this phase runs from its first operation on an OS thread of its
                // own, and its reference environment is built on another fresh thread
                on_fresh_thread(|| {
                    let mut env = base_env();
                    let mut model = Model::default();
                    for i in 0..d {
                        if i + 1 < d {
                            let _ = apply_real(&mut env, hist[i]);
                            model.apply(hist[i]);
                        } else {
                            check_step(&hist[..i], &mut env, &mut model, hist[i], &acc, true);
                        }
                    }
                });
            }
        });
    }
    let tree_states = states_seen.lock().unwrap().len();
    // phase 2: BFS over model states to depth D with deduplication on the model; at every merge the
    // environment reached by the new history is compared with the stored representative
    let max_depth = args.tier.pick(6usize, 8usize);
    // level-synchronous: the transitions of one level run in parallel (each on a fresh thread), the
    // merge into the set of seen states is sequential and in a fixed order
    let mut seen: HashMap<Model, (Vec<Op>, Result<Obs, String>)> = HashMap::new();
    seen.insert(Model::default(), (vec![], observe(&base_env())));
    let mut level: Vec<Vec<Op>> = vec![vec![]];
    let mut bfs_transitions = 0u64;
    let mut merges_checked = 0u64;
    let mut level_sizes = vec![1u64];
    for _d in 0..max_depth {
        if level.is_empty() || acc.n_failures() > 50 {
            break;
        }
        let n_items = (level.len() * ops.len()) as u64;
        let results: std::sync::Mutex<Vec<(u64, Model, Result<Obs, String>)>> = std::sync::Mutex::new(vec![]);
        par_chunks(n_items, 32, &acc, |r, l| {
            let mut local = vec![];
            for idx in r {
                let hist = &level[(idx / ops.len() as u64) as usize];
                let op = ops[(idx % ops.len() as u64) as usize];
                l.evals += 1;
                let (ok, model, obs_new) = {
                    let (mut env, mut model) = build(hist);
                    let ok = check_step(hist, &mut env, &mut model, op, &acc, false);
                    let o = observe(&env);
                    (ok, model, o)
                };
                if ok {
                    local.push((idx, model, obs_new));
                }
            }
            results.lock().unwrap().extend(local);
        });
        bfs_transitions += n_items;
        let mut results = results.into_inner().unwrap();
        results.sort_by_key(|r| r.0);
        let mut next: Vec<Vec<Op>> = vec![];
        for (idx, model, obs_new) in results {
            let hist = &level[(idx / ops.len() as u64) as usize];
            let op = ops[(idx % ops.len() as u64) as usize];
            let mut new_hist = hist.clone();
            new_hist.push(op);
            match seen.get(&model) {
                Some((rep, obs_rep)) => {
                    // differential merge check: same contents reached by two histories
                    merges_checked += 1;
                    if obs_new != *obs_rep {
                        acc.fail(Failure {
                            key: format!("history merge_differs last_op={}", op_class(op)),
                            case: format!("{:?} vs {:?}", new_hist, rep),
                            detail: format!("two histories reach the same contents {:?} but observe {:?} vs {:?}", model, obs_new, obs_rep),
                            replay: json!({"history": new_hist.iter().map(|o| format!("{:?}", o)).collect::<Vec<_>>()}),
                        });
                    }
                }
                None => {
                    seen.insert(model, (new_hist.clone(), obs_new));
                    next.push(new_hist);
                }
            }
        }
        level_sizes.push(next.len() as u64);
        level = next;
    }
    let mut extra = serde_json::Map::new();
    extra.insert("states".into(), json!(seen.len() as u64));
    extra.insert("transitions".into(), json!(bfs_transitions + total));
    extra.insert("traces_validated_against_impl".into(), json!(bfs_transitions + total));
    extra.insert("unpruned_tree_depth".into(), json!(depth));
    extra.insert("unpruned_tree_histories".into(), json!(total));
    extra.insert("unpruned_tree_distinct_model_states".into(), json!(tree_states));
    extra.insert("bfs_max_depth".into(), json!(max_depth));
    extra.insert("bfs_new_states_per_depth".into(), json!(level_sizes));
    extra.insert("bfs_merges_checked".into(), json!(merges_checked));
    extra.insert("alphabet".into(), json!(ops.iter().map(|o| format!("{:?}", o)).collect::<Vec<_>>()));
    acc.sample(json!({"history": ["AddOwned(0, 0)", "AddBorrowed(0, 2)", "Render(0)"], "oracle": "failing add leaves observations unchanged; observations equal a fresh environment built from the model"}));
    acc.sample(json!({"history": ["SetLoader(0)", "Render(0)", "SetLoader(1)", "Render(0)"], "expect": "a stays L1a... until removed or cleared"}));
    finish(
        Finish {
            property: "C15",
            level: "model_checking",
            tier: args.tier,
            seed: args.seed,
            rule: format!("alphabet of {} operations over names {{a,b}}: add_template (borrowed) and add_template_owned with 7 sources (plain, using global+filter+test, not compiling, failing at run time, including b, extending b, rendering b from a function on the same thread; b only gets the 4 leaf sources), remove_template, clear_templates, set_loader (two loaders serving different sources), add/remove filter, test, global (two values), clone (continue on the clone), render a/b, get a missing template. Phase 1: the complete history tree to depth {} without pruning ({} histories). Phase 2: breadth-first search over model states (borrowed map, owned+memoised map with the source seen at first request, loader, registries) to depth {} with deduplication on the model state; at every merge the environment reached by the new history is compared with the one reached by the stored representative. The histories shorter than the tree depth run from their first operation on an OS thread of their own, with the reference environment built on another fresh thread (the engine keeps per-thread scratch state). Oracle at every step of every history: observations (get_template+render of a, b and a missing name, each twice, on a clone; for failing renders the whole report: kind, template, line, range, detail) equal those of a fresh environment built from the model's contents; an add that fails to compile leaves all observations unchanged; same render twice gives the same result. states = distinct model states; every transition executes the real API, so every history is a trace validated against the implementation", ops.len(), depth, total, max_depth),
            exhaustive: true,
            bound: json!({"tree_depth": depth, "bfs_depth": max_depth}),
            assumptions: vec![
                "observation happens on a clone so that it does not populate the loader cache of the environment under test".into(),
                "merging on the model state is justified by the differential comparison made at every merge and by the unpruned tree".into(),
                "concurrent renders (schedules) are not part of this engine".into(),
            ],
            extra,
            start: start_t,
        },
        &acc,
    )
}
