//! C17 — the path loader never returns content from outside its base directory.
//! All names of up to 3 (quick) / 5 (thorough) segments over the quantifier's segment alphabet,
//! against a real directory tree with canaries outside the base, through four routes.
use crate::core::*;
use minijinja::{context, path_loader, Environment};
use serde_json::json;
use std::fs;
use std::path::{Path, PathBuf};

fn segments() -> Vec<String> {
    vec![
        "".into(),
        ".".into(),
        "..".into(),
        "...".into(),
        "a".into(),
        ".a".into(),
        "a.".into(),
        "a..b".into(),
        "a\\b".into(),
        "..\\a".into(),
        "\0".into(),
        "%2e%2e".into(),
        "\u{2024}\u{2024}".into(), // one dot leader x2
        "\u{ff0e}\u{ff0e}".into(), // fullwidth full stop x2
        "x".repeat(300),
        // directories that exist inside the base (a traversal only resolves through segments that
        // exist), with names of 1-, 2-, 3- and 4-byte characters
        "ad".into(),
        "\u{e9}d".into(),
        "\u{65e5}\u{672c}d".into(),
        "\u{1f600}d".into(),
    ]
}

fn file_body(tag: &str, p: &str) -> String {
    format!("{tag}:{p}{{% set marker = '{tag}:{p}' %}}", tag = tag, p = p.replace('\\', "/").replace('\'', ""))
}

fn write_file(path: &Path, body: &str) {
    if let Some(parent) = path.parent() {
        let _ = fs::create_dir_all(parent);
    }
    let _ = fs::write(path, body);
}

struct Tree {
    root: PathBuf,
    base: PathBuf,
    inside_files: usize,
}

fn build_tree() -> Tree {
    let root = PathBuf::from(format!("/verif/harness/target/c17-{}", std::process::id()));
    let _ = fs::remove_dir_all(&root);
    let base = root.join("outer").join("base");
    fs::create_dir_all(&base).unwrap();
    // files inside the base under every spelling that the segment filter lets through
    let ok_segs = ["a", "a.", "a..b", "%2e%2e", "\u{2024}\u{2024}", "\u{ff0e}\u{ff0e}"];
    let mut inside = 0;
    for s in ok_segs {
        // a plain file cannot share its name with a directory: files get the name, nested ones live under "<s>d"
        write_file(&base.join(s), &file_body("IN", s));
        inside += 1;
    }
    for d in ["a", "a.", "%2e%2e", "\u{e9}", "\u{65e5}\u{672c}", "\u{1f600}"] {
        // directories: use distinct names so both file and dir routes exist
        let dn = format!("{}d", d);
        for s in ok_segs {
            write_file(&base.join(&dn).join(s), &file_body("IN", &format!("{}/{}", dn, s)));
            inside += 1;
        }
    }
    // hidden files inside the base: must not be served either (documented), content marks them
    write_file(&base.join(".a"), &file_body("HIDDEN", ".a"));
    write_file(&base.join(".hid").join("a"), &file_body("HIDDEN", ".hid/a"));
    // canaries outside: parent, grandparent, sibling, and under names reachable by traversal
    for (dir, label) in [(root.join("outer"), "parent"), (root.clone(), "grandparent"), (root.join("outer").join("sibling"), "sibling")] {
        for s in ["a", ".a", "a.", "a..b", "secret", "%2e%2e", "x"] {
            write_file(&dir.join(s), &file_body("OUT", &format!("{}/{}", label, s)));
        }
        write_file(&dir.join("ad").join("a"), &file_body("OUT", &format!("{}/ad/a", label)));
    }
    Tree { root, base, inside_files: inside }
}

fn classify(name: &str) -> String {
    let mut feats = vec![];
    for (pat, label) in [("..", "dotdot"), ("\\", "backslash"), ("\0", "nul"), ("%2e", "pct"), ("//", "empty_segment")] {
        if name.contains(pat) {
            feats.push(label);
        }
    }
    if name.starts_with('/') {
        feats.push("leading_slash");
    }
    if name.ends_with('/') {
        feats.push("trailing_slash");
    }
    if feats.is_empty() {
        "plain".into()
    } else {
        feats.join("+")
    }
}

const ROUTES: &[&str] = &["get_template", "include", "extends", "import"];

fn run_route(base: &Path, route: &str, name: &str) -> Result<Result<String, String>, String> {
    catch(|| {
        let mut env = Environment::new();
        env.set_loader(path_loader(base));
        match route {
            "get_template" => env.get_template(name).and_then(|t| t.render(())).map_err(|e| format!("{:?}", e.kind())),
            "include" => env.render_str("{% include n %}", context! { n => name }).map_err(|e| format!("{:?}", e.kind())),
            "extends" => env.render_str("{% extends n %}", context! { n => name }).map_err(|e| format!("{:?}", e.kind())),
            "import" => env.render_str("{% import n as m %}{{ m.marker }}", context! { n => name }).map_err(|e| format!("{:?}", e.kind())),
            _ => unreachable!(),
        }
    })
}

fn check_name(base: &Path, name: &str, acc: &Acc, l: &mut Local) {
    for route in ROUTES {
        l.evals += 1;
        let r = run_route(base, route, name);
        let mk = |class: &str, detail: String| Failure {
            key: format!("confinement {} route={} name_class={}", class, route, classify(name)),
            case: format!("{:?} via {}", name, route),
            detail,
            replay: json!({"name": name, "route": route}),
        };
        match r {
            Err(p) => acc.fail(mk("panic", format!("{} at {}", p, last_panic_loc()))),
            Ok(Err(kind)) => l.outcome(&format!("error {}", kind)),
            Ok(Ok(out)) => {
                if out.starts_with("IN:") {
                    l.outcome("served file inside base");
                    l.nontrivial.insert(fnv(format!("{}|{}", route, name).as_bytes()));
                } else if out.starts_with("OUT:") {
                    acc.fail(mk("escaped", format!("name {:?} returned content of a file outside the base: {:?}", name, out)));
                } else if out.starts_with("HIDDEN:") {
                    acc.fail(mk("hidden_served", format!("name {:?} returned a dot-file inside the base: {:?}", name, out)));
                } else {
                    acc.fail(mk("unknown_content", format!("name {:?} returned {:?}", name, out)));
                }
            }
        }
    }
}

pub fn main(args: Args) -> i32 {
    let start_t = std::time::Instant::now();
    install_quiet_panic_hook();
    let tree = build_tree();
    let acc = Acc::new();
    if let Some(p) = &args.replay {
        let doc = load_replay(p);
        let mut l = Local::default();
        if let Some(h) = doc["replay"]["history"].as_array() {
            let probe = doc["replay"]["probe"].as_str().unwrap();
            let mut env = Environment::new();
            env.set_loader(path_loader(&tree.base));
            for n in h {
                let n = n.as_str().unwrap();
                if doc["replay"]["via_include"].as_bool().unwrap_or(false) {
                    let _ = env.render_str("{% include n ignore missing %}", context! { n => n });
                } else {
                    let _ = env.get_template(n).map(|t| t.render(()).ok());
                }
            }
            let got = env.get_template(probe).and_then(|t| t.render(())).map_err(|e| format!("{:?}", e.kind()));
            let fresh = run_route(&tree.base, "get_template", probe);
            println!("after {:?}: {:?} -> {:?}; fresh loader: {:?}", h, probe, got, fresh);
            if Ok(got.clone()) != fresh {
                acc.fail(Failure { key: "confinement answer_depends_on_history".into(), case: String::new(), detail: format!("{:?} vs fresh {:?}", got, fresh), replay: json!(null) });
            }
        } else {
            check_name(&tree.base, doc["replay"]["name"].as_str().unwrap(), &acc, &mut l);
        }
        let _ = fs::remove_dir_all(&tree.root);
        let fs_ = acc.take_failures();
        return if fs_.is_empty() {
            println!("replay: case passes");
            0
        } else {
            for f in &fs_ {
                println!("VIOLATION property=C17 replay={}  # {} :: {}", p, f.key, f.detail);
            }
            1
        };
    }
    // sanity of the harness: the canaries are readable through a loader rooted one level up
    {
        let mut env = Environment::new();
        env.set_loader(path_loader(tree.base.parent().unwrap()));
        let out = env.get_template("secret").and_then(|t| t.render(())).unwrap_or_default();
        if !out.starts_with("OUT:") {
            eprintln!("machinery error: canary files are not readable ({:?})", out);
            return 2;
        }
    }
    let segs = segments();
    let nseg = segs.len() as u64;
    let maxlen = args.tier.pick(4u32, 6u32);
    let mut total = 0u64;
    for len in 1..=maxlen {
        let count = nseg.pow(len);
        total += count;
        par_chunks(count, 256, &acc, |r, l| {
            for n in r {
                let mut k = n;
                let mut parts = vec![];
                for _ in 0..len {
                    parts.push(segs[(k % nseg) as usize].as_str());
                    k /= nseg;
                }
                let name = parts.join("/");
                check_name(&tree.base, &name, &acc, l);
            }
        });
    }
    // names that begin with the base directory itself (as a file watcher or a directory listing would
    // hand them over): the absolute path of the base, with and without a trailing separator, behind a
    // further slash, its last component, and its path relative to the process - followed by every
    // sequence of up to 3 (thorough 4) segments
    {
        let abs = tree.base.to_string_lossy().to_string();
        let cwd = std::env::current_dir().map(|p| p.to_string_lossy().to_string()).unwrap_or_default();
        let mut prefixes: Vec<String> = vec![format!("{}/", abs), abs.clone(), format!("/{}/", abs), format!("{}//", abs), "base/".into(), "outer/base/".into(), format!("{}/./", abs), format!("{}/", abs.trim_start_matches('/'))];
        if let Some(rel) = abs.strip_prefix(&format!("{}/", cwd)) {
            prefixes.push(format!("{}/", rel));
            prefixes.push(format!("./{}/", rel));
        }
        let plen = args.tier.pick(3u32, 4u32);
        for len in 1..=plen {
            let count = nseg.pow(len) * prefixes.len() as u64;
            total += count;
            par_chunks(count, 256, &acc, |r, l| {
                for n in r {
                    let mut k = n / prefixes.len() as u64;
                    let mut parts = vec![];
                    for _ in 0..len {
                        parts.push(segs[(k % nseg) as usize].as_str());
                        k /= nseg;
                    }
                    let name = format!("{}{}", prefixes[(n % prefixes.len() as u64) as usize], parts.join("/"));
                    check_name(&tree.base, &name, &acc, l);
                }
            });
        }
        acc.count("base_prefixed_name_prefixes", prefixes.len() as u64);
    }
    // absolute and noise names
    let extra = [
        tree.root.join("outer").join("secret").to_string_lossy().to_string(),
        format!("/{}", tree.root.join("outer").join("secret").to_string_lossy()),
        "../secret".into(), "..//secret".into(), "a/../../secret".into(), "ad/../../a".into(), "./../secret".into(),
        "..%2fsecret".into(), "%2e%2e/secret".into(), "..\u{2215}secret".into(), "\u{2025}/secret".into(),
        "a/./../../secret".into(), "//secret".into(), "ad/a/../../../secret".into(), "..".into(), "../".into(), "../sibling/a".into(),
        "~/secret".into(), "$HOME/secret".into(), "a\n../secret".into(), " ../secret".into(), "../secret ".into(), ".. /secret".into(),
    ];
    {
        let mut l = Local::default();
        for name in &extra {
            check_name(&tree.base, name, &acc, &mut l);
        }
        l.flush(&acc);
        total += extra.len() as u64;
    }
    // histories: one loader instance serves a sequence of lookups; what it answers for the last name
    // must be what a fresh loader answers (and never a file outside the base), whatever was looked up
    // before - whether those lookups succeeded, were rejected or named a directory
    {
        let probes: Vec<String> = ["a", "secret", "x", "ad/a", "a.", "%2e%2e", "base/a", "outer/secret", "sibling/a", "../secret", ".a", "ad/secret", "a/secret", "nope"].iter().map(|s| s.to_string()).collect();
        let mut primers: Vec<Vec<String>> = vec![];
        for a in &segs {
            primers.push(vec![a.clone()]);
            for b in &segs {
                primers.push(vec![format!("{}/{}", a, b)]);
                primers.push(vec![a.clone(), b.clone()]);
                if args.tier == Tier::Thorough {
                    for c in &segs {
                        primers.push(vec![format!("{}/{}/{}", a, b, c)]);
                    }
                }
            }
        }
        for e in ["ad/", "ad//a", "ad/a/", "/ad/a", "ad/./a", "a//", "//", "ad///", "ad/a//x", "nope/", "nope//x"] {
            primers.push(vec![e.to_string()]);
            primers.push(vec![e.to_string(), e.to_string()]);
        }
        let fresh: Vec<Result<Result<String, String>, String>> = probes.iter().map(|p| run_route(&tree.base, "get_template", p)).collect();
        acc.count("loader_histories", (primers.len() * probes.len()) as u64);
        par_items(&primers, &acc, |_, primer, l| {
            for (pi, probe) in probes.iter().enumerate() {
                for via_include in [false, true] {
                    l.evals += 1;
                    let got = catch(|| {
                        let mut env = Environment::new();
                        env.set_loader(path_loader(&tree.base));
                        for n in primer {
                            if via_include {
                                let _ = env.render_str("{% include n ignore missing %}", context! { n => n });
                            } else {
                                let _ = env.get_template(n).map(|t| t.render(()).ok());
                            }
                        }
                        env.get_template(probe).and_then(|t| t.render(())).map_err(|e| format!("{:?}", e.kind()))
                    });
                    if got == fresh[pi] {
                        l.outcome("same answer as a fresh loader");
                        if matches!(&got, Ok(Ok(_))) {
                            l.nontrivial.insert(fnv(format!("{:?}|{}", primer, probe).as_bytes()));
                        }
                    } else {
                        let escaped = matches!(&got, Ok(Ok(o)) if o.starts_with("OUT:"));
                        acc.fail(Failure {
                            key: format!("confinement {} primer_class={}", if escaped { "escaped_after_history" } else { "answer_depends_on_history" }, classify(&primer[0])),
                            case: format!("{:?} then {:?}{}", primer, probe, if via_include { " (primers through include)" } else { "" }),
                            detail: format!("after looking up {:?} the same loader answers {:?} for {:?}; a fresh loader answers {:?}", primer, got, probe, fresh[pi]),
                            replay: json!({"history": primer, "probe": probe, "via_include": via_include}),
                        });
                    }
                }
            }
        });
    }
    acc.count("names", total);
    acc.count("files_inside_base", tree.inside_files as u64);
    acc.sample(json!({"name": "a/../../secret", "routes": ROUTES}));
    acc.sample(json!({"name": "ad/a..b", "expect": "IN:ad/a..b"}));
    acc.sample(json!({"name": "..\\a/\u{2024}\u{2024}/", "routes": ROUTES}));
    let _ = fs::remove_dir_all(&tree.root);
    finish(
        Finish {
            property: "C17",
            level: "exploration",
            tier: args.tier,
            seed: args.seed,
            rule: format!("all names of 1..={} segments over the 19-segment alphabet ('', '.', '..', '...', 'a', '.a', 'a.', 'a..b', backslash forms, NUL, '%2e%2e', two unicode dot look-alikes, 300-char, and four directories that exist inside the base with names of 1-, 2-, 3- and 4-byte characters) joined by '/', plus 23 hand-written traversal spellings, each through get_template, include, extends and import (name computed in the template) against a real tree with 24 files inside the base and OUT canaries in the parent, grandparent and a sibling directory under every name the traversals would reach; oracle: error / missing / content starting with IN:. histories: one loader instance looks up every primer (all names of 1 and 2 segments, every pair of one-segment names, thorough also 3 segments, plus 11 trailing/inner/leading-slash spellings, through get_template and through include) and then each of 14 probe names (inside, hidden, missing, and names that exist relative to ancestors of the base); the answer must equal a fresh loader's. distinct non-trivial = (route,name) pairs that served a file inside the base", maxlen),
            exhaustive: true,
            bound: json!({"segments": segments().iter().map(|s| if s.len() > 20 { "x*300".to_string() } else { s.clone() }).collect::<Vec<_>>(), "max_segments": maxlen, "routes": ROUTES}),
            assumptions: vec!["Unix path semantics; symbolic links are outside the property".into()],
            extra: Default::default(),
            start: start_t,
        },
        &acc,
    )
}
