//! R — an independent, boring tree-walking reference interpreter for the core fragment that the
//! generator G produces (single template: expressions, if/else, for with else / filter / unpacking
//! / loop.index / recursion, set, set-block, with, macros with defaults and keyword arguments, call
//! blocks, filter blocks, autoescape blocks, break/continue).  It implements the documented
//! scoping rules directly on its own value type; it never calls into the engine.
use crate::gen::{Expr, Node};
use std::cell::RefCell;
use std::collections::{BTreeMap, HashMap};
use std::rc::Rc;

#[derive(Clone, Debug)]
pub enum V {
    Undef,
    Bool(bool),
    Int(i64),
    Str(String),
    /// a string that is already markup (captured while auto-escaping was on)
    Safe(String),
    List(Vec<V>),
    Map(BTreeMap<String, V>),
    Macro(Rc<Mac>),
    Loop(Rc<LoopInfo>),
}

pub struct Mac {
    params: Vec<(&'static str, Option<Expr>)>,
    body: Vec<Node>,
    closure: Closure,
}

impl std::fmt::Debug for Mac {
    fn fmt(&self, f: &mut std::fmt::Formatter<'_>) -> std::fmt::Result {
        write!(f, "<macro>")
    }
}

#[derive(Debug)]
pub struct LoopInfo {
    index0: usize,
    len: usize,
    /// the for node to re-enter on `loop(x)` when the loop is recursive
    recursive: Option<Rc<ForNode>>,
}

#[derive(Debug)]
pub struct ForNode {
    targets: Vec<&'static str>,
    filter: Option<Expr>,
    body: Vec<Node>,
}

type Closure = Rc<RefCell<HashMap<String, V>>>;

#[derive(Default)]
struct Frame {
    vars: HashMap<String, V>,
    /// closure that receives copies of every store into this frame (once a macro was declared here)
    closure: Option<Closure>,
    /// closure a macro body reads from
    closure_ctx: Option<Closure>,
    loop_: Option<Rc<LoopInfo>>,
    /// the render context is visible from this frame (base frames)
    sees_ctx: bool,
}

#[derive(Debug, Clone, PartialEq)]
pub enum RErr {
    /// the program fails at run time
    Fail(String),
    /// the program leaves the fragment whose semantics R defines
    Undefined(String),
}

enum Flow {
    Normal,
    Break,
    Continue,
}

pub struct Interp {
    stack: Vec<Frame>,
    ctx: BTreeMap<String, V>,
    out: Vec<String>,
    depth: usize,
    auto_escape: bool,
}

pub fn html_escape(s: &str) -> String {
    let mut o = String::new();
    for c in s.chars() {
        match c {
            '<' => o.push_str("&lt;"),
            '>' => o.push_str("&gt;"),
            '&' => o.push_str("&amp;"),
            '"' => o.push_str("&quot;"),
            '\'' => o.push_str("&#x27;"),
            '/' => o.push_str("&#x2f;"),
            other => o.push(other),
        }
    }
    o
}

fn truthy(v: &V) -> bool {
    match v {
        V::Undef => false,
        V::Bool(b) => *b,
        V::Int(i) => *i != 0,
        V::Str(s) | V::Safe(s) => !s.is_empty(),
        V::List(l) => !l.is_empty(),
        V::Map(m) => !m.is_empty(),
        V::Macro(_) | V::Loop(_) => true,
    }
}

/// Python's repr of a string: single quotes unless the text has a single and no double quote
fn py_str_repr(s: &str) -> String {
    let q = if s.contains('\'') && !s.contains('"') { '"' } else { '\'' };
    let mut o = String::new();
    o.push(q);
    for c in s.chars() {
        match c {
            c if c == q => {
                o.push('\\');
                o.push(c);
            }
            '\\' => o.push_str("\\\\"),
            '\n' => o.push_str("\\n"),
            '\r' => o.push_str("\\r"),
            '\t' => o.push_str("\\t"),
            c => o.push(c),
        }
    }
    o.push(q);
    o
}

fn repr(v: &V) -> String {
    match v {
        V::Str(s) | V::Safe(s) => py_str_repr(s),
        other => display(other),
    }
}

pub fn display(v: &V) -> String {
    match v {
        V::Undef => String::new(),
        V::Bool(b) => (if *b { "True" } else { "False" }).to_string(),
        V::Int(i) => i.to_string(),
        V::Str(s) | V::Safe(s) => s.clone(),
        V::List(l) => format!("[{}]", l.iter().map(repr).collect::<Vec<_>>().join(", ")),
        V::Map(m) => format!("{{{}}}", m.iter().map(|(k, v)| format!("{}: {}", py_str_repr(k), repr(v))).collect::<Vec<_>>().join(", ")),
        V::Macro(_) => "<macro>".into(),
        V::Loop(_) => "<loop>".into(),
    }
}

fn names_in_expr(e: &Expr, out: &mut Vec<&'static str>) {
    match e {
        Expr::Var(n) => out.push(n),
        Expr::List(xs) => xs.iter().for_each(|x| names_in_expr(x, out)),
        Expr::Bin(_, a, b) => {
            names_in_expr(a, out);
            names_in_expr(b, out);
        }
        Expr::Not(a) | Expr::Attr(a, _) | Expr::Test(a, _) => names_in_expr(a, out),
        Expr::Filter(a, _, args) => {
            names_in_expr(a, out);
            args.iter().for_each(|x| names_in_expr(x, out));
        }
        Expr::Call(f, args, kwargs) => {
            out.push(f);
            args.iter().for_each(|x| names_in_expr(x, out));
            kwargs.iter().for_each(|(_, x)| names_in_expr(x, out));
        }
        Expr::Cond(a, b, c) => {
            names_in_expr(a, out);
            names_in_expr(b, out);
            names_in_expr(c, out);
        }
        Expr::Int(_) | Expr::Str(_) | Expr::Bool(_) => {}
    }
}

fn names_in_nodes(nodes: &[Node], out: &mut Vec<&'static str>) {
    for n in nodes {
        match n {
            Node::Text(_) | Node::Break | Node::Continue => {}
            Node::Out(e) | Node::Set(_, e) | Node::Include(e) => names_in_expr(e, out),
            Node::SetBlock(_, b) | Node::FilterBlock(_, b) | Node::AutoEscape(_, b) | Node::Block(_, b) => names_in_nodes(b, out),
            Node::If(c, t, e) => {
                names_in_expr(c, out);
                names_in_nodes(t, out);
                if let Some(e) = e {
                    names_in_nodes(e, out);
                }
            }
            Node::For { iter, filter, body, else_, .. } => {
                names_in_expr(iter, out);
                if let Some(f) = filter {
                    names_in_expr(f, out);
                }
                names_in_nodes(body, out);
                if let Some(e) = else_ {
                    names_in_nodes(e, out);
                }
            }
            Node::With(b, body) => {
                b.iter().for_each(|(_, e)| names_in_expr(e, out));
                names_in_nodes(body, out);
            }
            Node::Macro { params, body, .. } => {
                params.iter().for_each(|(_, d)| {
                    if let Some(d) = d {
                        names_in_expr(d, out)
                    }
                });
                names_in_nodes(body, out);
            }
            Node::CallBlock { macro_name, args, body } => {
                out.push(macro_name);
                args.iter().for_each(|x| names_in_expr(x, out));
                names_in_nodes(body, out);
            }
        }
    }
}

impl Interp {
    pub fn new(ctx: BTreeMap<String, V>) -> Interp {
        Interp { stack: vec![Frame { sees_ctx: true, ..Default::default() }], ctx, out: vec![String::new()], depth: 0, auto_escape: false }
    }

    /// a template whose name selects HTML auto-escaping
    pub fn new_html(ctx: BTreeMap<String, V>) -> Interp {
        let mut i = Interp::new(ctx);
        i.auto_escape = true;
        i
    }

    pub fn run(mut self, nodes: &[Node]) -> Result<String, RErr> {
        match self.exec(nodes)? {
            Flow::Normal => {}
            _ => return Err(RErr::Undefined("break/continue outside of a loop".into())),
        }
        Ok(self.out.pop().unwrap())
    }

    fn lookup(&self, name: &str) -> V {
        for f in self.stack.iter().rev() {
            if let Some(v) = f.vars.get(name) {
                return v.clone();
            }
            if name == "loop" {
                if let Some(l) = &f.loop_ {
                    return V::Loop(l.clone());
                }
            }
            if let Some(c) = &f.closure_ctx {
                if let Some(v) = c.borrow().get(name) {
                    return v.clone();
                }
            }
            if f.sees_ctx {
                if let Some(v) = self.ctx.get(name) {
                    return v.clone();
                }
            }
        }
        V::Undef
    }

    fn store(&mut self, name: &str, v: V) {
        let top = self.stack.last_mut().unwrap();
        if let Some(c) = &top.closure {
            c.borrow_mut().insert(name.to_string(), v.clone());
        }
        top.vars.insert(name.to_string(), v);
    }

    fn emit(&mut self, s: &str) {
        self.out.last_mut().unwrap().push_str(s);
    }

    /// a captured string is markup when it was captured with auto-escaping on
    fn captured(&self, s: String) -> V {
        if self.auto_escape {
            V::Safe(s)
        } else {
            V::Str(s)
        }
    }

    fn capture<F: FnOnce(&mut Self) -> Result<Flow, RErr>>(&mut self, f: F) -> Result<(String, Flow), RErr> {
        self.out.push(String::new());
        let r = f(self);
        let s = self.out.pop().unwrap();
        r.map(|fl| (s, fl))
    }

    fn eval(&mut self, e: &Expr) -> Result<V, RErr> {
        Ok(match e {
            Expr::Int(i) => V::Int(*i),
            Expr::Str(s) => V::Str(s.to_string()),
            Expr::Bool(b) => V::Bool(*b),
            Expr::Var(n) => self.lookup(n),
            Expr::List(xs) => V::List(xs.iter().map(|x| self.eval(x)).collect::<Result<_, _>>()?),
            Expr::Not(a) => V::Bool(!truthy(&self.eval(a)?)),
            // `and` / `or` give back one of their operands and evaluate the right one only when needed
            Expr::Bin("and", a, b) => {
                let x = self.eval(a)?;
                if truthy(&x) {
                    self.eval(b)?
                } else {
                    x
                }
            }
            Expr::Bin("or", a, b) => {
                let x = self.eval(a)?;
                if truthy(&x) {
                    x
                } else {
                    self.eval(b)?
                }
            }
            Expr::Bin(op, a, b) => {
                let (x, y) = (self.eval(a)?, self.eval(b)?);
                match (*op, &x, &y) {
                    ("+", V::Int(p), V::Int(q)) => V::Int(p.checked_add(*q).ok_or_else(|| RErr::Fail("overflow".into()))?),
                    (">", V::Int(p), V::Int(q)) => V::Bool(p > q),
                    ("<", V::Int(p), V::Int(q)) => V::Bool(p < q),
                    (">=", V::Int(p), V::Int(q)) => V::Bool(p >= q),
                    ("<=", V::Int(p), V::Int(q)) => V::Bool(p <= q),
                    ("==", V::Int(p), V::Int(q)) => V::Bool(p == q),
                    ("!=", V::Int(p), V::Int(q)) => V::Bool(p != q),
                    ("==", V::Str(p), V::Str(q)) => V::Bool(p == q),
                    ("+", ..) => return Err(RErr::Fail(format!("cannot add {:?} and {:?}", x, y))),
                    _ => return Err(RErr::Undefined(format!("operator {} on {:?}, {:?}", op, x, y))),
                }
            }
            Expr::Attr(a, name) => match self.eval(a)? {
                V::Map(m) => m.get(*name).cloned().unwrap_or(V::Undef),
                V::Loop(l) => match *name {
                    "index" => V::Int(l.index0 as i64 + 1),
                    "index0" => V::Int(l.index0 as i64),
                    "length" => V::Int(l.len as i64),
                    "first" => V::Bool(l.index0 == 0),
                    "last" => V::Bool(l.index0 + 1 == l.len),
                    "revindex" => V::Int((l.len - l.index0) as i64),
                    "revindex0" => V::Int((l.len - l.index0 - 1) as i64),
                    other => return Err(RErr::Undefined(format!("loop.{}", other))),
                },
                V::Undef => return Err(RErr::Fail(format!("attribute {} of undefined", name))),
                _ => V::Undef,
            },
            Expr::Filter(a, f, _) => match (*f, self.eval(a)?) {
                ("items", V::Map(m)) => V::List(m.into_iter().map(|(k, v)| V::List(vec![V::Str(k), v])).collect()),
                ("items", V::Undef) => return Err(RErr::Fail("items of undefined".into())),
                (f, v) => return Err(RErr::Undefined(format!("filter {} on {:?}", f, v))),
            },
            Expr::Test(a, t) => match *t {
                "defined" => V::Bool(!matches!(self.eval(a)?, V::Undef)),
                other => return Err(RErr::Undefined(format!("test {}", other))),
            },
            // `a if c else b` (the enumerator always writes the else arm; the else-less form yields a
            // special undefined and stays outside R)
            Expr::Cond(a, c, b) => {
                if truthy(&self.eval(c)?) {
                    self.eval(a)?
                } else {
                    self.eval(b)?
                }
            }
            Expr::Call(name, args, kwargs) => {
                let callee = self.lookup(name);
                let argv: Vec<V> = args.iter().map(|x| self.eval(x)).collect::<Result<_, _>>()?;
                let mut kw = vec![];
                for (k, x) in kwargs {
                    kw.push((*k, self.eval(x)?));
                }
                match callee {
                    V::Macro(m) => {
                        let s = self.call_macro(&m, argv, kw, None)?;
                        self.captured(s)
                    }
                    V::Loop(l) => {
                        let Some(node) = l.recursive.clone() else { return Err(RErr::Fail("cannot recurse outside of recursive loop".into())) };
                        if argv.len() != 1 {
                            return Err(RErr::Fail("loop() takes one argument".into()));
                        }
                        let (s, _) = self.capture(|me| {
                            me.run_loop(&node, argv[0].clone(), true)?;
                            Ok(Flow::Normal)
                        })?;
                        self.captured(s)
                    }
                    V::Undef => return Err(RErr::Fail(format!("{} is unknown", name))),
                    other => return Err(RErr::Fail(format!("{:?} is not callable", other))),
                }
            }
        })
    }

    fn call_macro(&mut self, m: &Rc<Mac>, args: Vec<V>, kwargs: Vec<(&'static str, V)>, caller: Option<V>) -> Result<String, RErr> {
        self.depth += 1;
        if self.depth > 60 {
            self.depth -= 1;
            return Err(RErr::Fail("recursion limit exceeded".into()));
        }
        if args.len() > m.params.len() {
            self.depth -= 1;
            return Err(RErr::Fail("too many arguments".into()));
        }
        // a macro body runs on a fresh scope stack: the render context, its closure, its arguments
        let saved = std::mem::take(&mut self.stack);
        self.stack.push(Frame { sees_ctx: true, ..Default::default() });
        self.stack.push(Frame { closure_ctx: Some(m.closure.clone()), ..Default::default() });
        if let Some(c) = caller {
            self.store("caller", c);
        }
        let mut result = (|| -> Result<String, RErr> {
            let mut bound: Vec<(&'static str, V)> = vec![];
            for (i, (p, default)) in m.params.iter().enumerate() {
                let given = args.get(i).cloned().or_else(|| kwargs.iter().find(|(k, _)| k == p).map(|(_, v)| v.clone()));
                let v = match (given, default) {
                    (Some(v), _) if !matches!(v, V::Undef) => v,
                    (_, Some(d)) => self.eval(d)?,
                    (Some(v), None) => v,
                    (None, None) => V::Undef,
                };
                bound.push((p, v));
            }
            for (k, _) in &kwargs {
                if !m.params.iter().any(|(p, _)| p == k) {
                    return Err(RErr::Fail(format!("unknown keyword argument {}", k)));
                }
            }
            // the engine binds the parameters in reverse order; with distinct names the order is unobservable
            for (p, v) in bound {
                self.store(p, v);
            }
            let (s, flow) = self.capture(|me| me.exec(&m.body))?;
            if !matches!(flow, Flow::Normal) {
                return Err(RErr::Undefined("break/continue escaping a macro".into()));
            }
            Ok(s)
        })();
        self.stack = saved;
        self.depth -= 1;
        if let Err(RErr::Fail(m)) = &mut result {
            m.push_str(" (in macro)");
        }
        result
    }

    fn declare_macro(&mut self, params: &[(&'static str, Option<Expr>)], body: &[Node]) -> Rc<Mac> {
        // one closure per frame, shared by all macros declared in it; it receives the current values of
        // the macro's free names now and a copy of every later store into this frame
        let top = self.stack.last_mut().unwrap();
        let closure = top.closure.get_or_insert_with(Default::default).clone();
        let mut names = vec![];
        names_in_nodes(body, &mut names);
        for (_, d) in params {
            if let Some(d) = d {
                names_in_expr(d, &mut names);
            }
        }
        for n in names {
            if params.iter().any(|(p, _)| *p == n) {
                continue;
            }
            if !closure.borrow().contains_key(n) {
                let v = self.lookup(n);
                closure.borrow_mut().insert(n.to_string(), v);
            }
        }
        Rc::new(Mac { params: params.to_vec(), body: body.to_vec(), closure })
    }

    fn bind_targets(&mut self, targets: &[&'static str], item: V) -> Result<(), RErr> {
        if targets.len() == 1 {
            self.store(targets[0], item);
            return Ok(());
        }
        match item {
            V::List(xs) if xs.len() == targets.len() => {
                for (t, x) in targets.iter().zip(xs) {
                    self.store(t, x);
                }
                Ok(())
            }
            other => Err(RErr::Fail(format!("cannot unpack {:?}", other))),
        }
    }

    fn items_of(&self, v: V) -> Result<Vec<V>, RErr> {
        match v {
            V::List(xs) => Ok(xs),
            V::Map(m) => Ok(m.into_keys().map(V::Str).collect()),
            V::Undef => Ok(vec![]),
            other => Err(RErr::Fail(format!("{:?} is not iterable", other))),
        }
    }

    /// returns whether the loop iterated at least once
    fn run_loop(&mut self, node: &Rc<ForNode>, iterable: V, recursive: bool) -> Result<bool, RErr> {
        self.depth += 1;
        if self.depth > 60 {
            self.depth -= 1;
            return Err(RErr::Fail("recursion limit exceeded".into()));
        }
        let mut items = self.items_of(iterable)?;
        if let Some(f) = &node.filter {
            let mut kept = vec![];
            self.stack.push(Frame::default());
            for it in items {
                self.stack.last_mut().unwrap().vars.clear();
                self.bind_targets(&node.targets, it.clone())?;
                if truthy(&self.eval(f)?) {
                    kept.push(it);
                }
            }
            self.stack.pop();
            items = kept;
        }
        let iterated = !items.is_empty();
        let n_items = items.len();
        self.stack.push(Frame::default());
        let mut result = Ok(());
        for (i, it) in items.into_iter().enumerate() {
            {
                let top = self.stack.last_mut().unwrap();
                // every iteration starts with a clean scope
                top.vars.clear();
                top.closure = None;
                top.loop_ = Some(Rc::new(LoopInfo { index0: i, len: n_items, recursive: if recursive { Some(node.clone()) } else { None } }));
            }
            if let Err(e) = self.bind_targets(&node.targets, it) {
                result = Err(e);
                break;
            }
            match self.exec(&node.body) {
                Ok(Flow::Break) => break,
                Ok(_) => {}
                Err(e) => {
                    result = Err(e);
                    break;
                }
            }
        }
        self.stack.pop();
        self.depth -= 1;
        result.map(|_| iterated)
    }

    fn exec(&mut self, nodes: &[Node]) -> Result<Flow, RErr> {
        for n in nodes {
            match n {
                Node::Text(t) => self.emit(t),
                Node::Out(e) => {
                    let v = self.eval(e)?;
                    let text = display(&v);
                    if self.auto_escape && !matches!(v, V::Safe(_)) {
                        self.emit(&html_escape(&text));
                    } else {
                        self.emit(&text);
                    }
                }
                Node::Set(name, e) => {
                    let v = self.eval(e)?;
                    self.store(name, v);
                }
                Node::SetBlock(name, body) => {
                    let (s, flow) = self.capture(|me| me.exec(body))?;
                    if !matches!(flow, Flow::Normal) {
                        // leaving a set block by break/continue: the assignment does not happen
                        return Ok(flow);
                    }
                    let v = self.captured(s);
                    self.store(name, v);
                }
                Node::If(c, t, e) => {
                    let branch = if truthy(&self.eval(c)?) { Some(t) } else { e.as_ref() };
                    if let Some(b) = branch {
                        match self.exec(b)? {
                            Flow::Normal => {}
                            other => return Ok(other),
                        }
                    }
                }
                Node::For { targets, iter, filter, recursive, body, else_ } => {
                    let it = self.eval(iter)?;
                    let node = Rc::new(ForNode { targets: targets.clone(), filter: filter.clone(), body: body.clone() });
                    let iterated = self.run_loop(&node, it, *recursive)?;
                    if !iterated {
                        if let Some(e) = else_ {
                            match self.exec(e)? {
                                Flow::Normal => {}
                                other => return Ok(other),
                            }
                        }
                    }
                }
                Node::With(binds, body) => {
                    self.stack.push(Frame::default());
                    let mut r = Ok(Flow::Normal);
                    for (k, e) in binds {
                        match self.eval(e) {
                            Ok(v) => self.store(k, v),
                            Err(e) => {
                                r = Err(e);
                                break;
                            }
                        }
                    }
                    if r.is_ok() {
                        r = self.exec(body);
                    }
                    self.stack.pop();
                    match r? {
                        Flow::Normal => {}
                        other => return Ok(other),
                    }
                }
                Node::Macro { name, params, body } => {
                    let m = self.declare_macro(params, body);
                    self.store(name, V::Macro(m));
                }
                Node::CallBlock { macro_name, args, body } => {
                    let callee = self.lookup(macro_name);
                    let argv: Vec<V> = args.iter().map(|x| self.eval(x)).collect::<Result<_, _>>()?;
                    let caller = self.declare_macro(&[], body);
                    match callee {
                        V::Macro(m) => {
                            // the macro's return value is printed like any expression; it is markup
                            // when auto-escaping is on, so it is never escaped a second time
                            let s = self.call_macro(&m, argv, vec![], Some(V::Macro(caller)))?;
                            self.emit(&s);
                        }
                        other => return Err(RErr::Fail(format!("{:?} is not callable", other))),
                    }
                }
                Node::FilterBlock(f, body) => {
                    let (s, flow) = self.capture(|me| me.exec(body))?;
                    if !matches!(flow, Flow::Normal) {
                        // the captured text is dropped when the block is left by break/continue
                        return Ok(flow);
                    }
                    match *f {
                        // (the generator's text has no characters that escaping would change)
                        "upper" => self.emit(&s.to_uppercase()),
                        other => return Err(RErr::Undefined(format!("filter block {}", other))),
                    }
                }
                Node::AutoEscape(on, body) => {
                    let saved = std::mem::replace(&mut self.auto_escape, *on);
                    let r = self.exec(body);
                    self.auto_escape = saved;
                    match r? {
                        Flow::Normal => {}
                        other => return Ok(other),
                    }
                }
                Node::Break => return Ok(Flow::Break),
                Node::Continue => return Ok(Flow::Continue),
                Node::Block(..) | Node::Include(_) => return Err(RErr::Undefined("multi-template construct".into())),
            }
        }
        Ok(Flow::Normal)
    }
}

/// conversion of a reference value into an engine value (context construction)
pub fn to_engine(v: &V) -> minijinja::Value {
    use minijinja::Value;
    match v {
        V::Undef => Value::UNDEFINED,
        V::Bool(b) => Value::from(*b),
        V::Int(i) => Value::from(*i),
        V::Str(s) => Value::from(s.clone()),
        V::Safe(s) => Value::from_safe_string(s.clone()),
        V::List(l) => Value::from(l.iter().map(to_engine).collect::<Vec<_>>()),
        V::Map(m) => Value::from_pairs(m.iter().map(|(k, v)| (k.clone(), to_engine(v)))),
        V::Macro(_) | V::Loop(_) => Value::UNDEFINED,
    }
}

pub fn contexts() -> Vec<BTreeMap<String, V>> {
    let ints = |v: &[i64]| V::List(v.iter().map(|i| V::Int(*i)).collect());
    let map = |kv: &[(&str, V)]| V::Map(kv.iter().map(|(k, v)| (k.to_string(), v.clone())).collect());
    let leaf = |v: i64| map(&[("v", V::Int(v)), ("c", V::List(vec![]))]);
    let node = |v: i64, c: Vec<V>| map(&[("v", V::Int(v)), ("c", V::List(c))]);
    let mk = |x: i64, xs: V, m: V, tree: V| -> BTreeMap<String, V> { [("x".to_string(), V::Int(x)), ("xs".to_string(), xs), ("m".to_string(), m), ("tree".to_string(), tree)].into_iter().collect() };
    vec![
        mk(0, ints(&[]), map(&[("a", V::Int(1)), ("b", V::Int(2))]), V::List(vec![node(1, vec![leaf(2), leaf(3)]), leaf(4)])),
        mk(2, ints(&[1, 2, 3]), map(&[("a", V::Int(1)), ("b", V::Int(2))]), V::List(vec![node(1, vec![leaf(2), leaf(3)]), leaf(4)])),
        mk(1, ints(&[3]), map(&[]), V::List(vec![])),
    ]
}
