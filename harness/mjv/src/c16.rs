//! C16 — values round-trip through Serde, embedded Values come back as the very same values, and
//! tojson / JSON auto-escaping emit valid, HTML-safe JSON.
use crate::core::*;
use crate::vals;
use minijinja::value::{Serde, Value, ValueKind};
use minijinja::{context, Environment};
use serde::de::DeserializeOwned;
use serde::{Deserialize, Serialize};
use serde_json::{json, Value as J};
use std::collections::BTreeMap;
use std::fmt::Debug;

// ---- leaf helpers -----------------------------------------------------------------------------

#[derive(Clone, Debug, PartialEq)]
pub struct Bytes(pub Vec<u8>);

impl Serialize for Bytes {
    fn serialize<S: serde::Serializer>(&self, s: S) -> Result<S::Ok, S::Error> {
        s.serialize_bytes(&self.0)
    }
}

impl<'de> Deserialize<'de> for Bytes {
    fn deserialize<D: serde::Deserializer<'de>>(d: D) -> Result<Self, D::Error> {
        struct V;
        impl<'de> serde::de::Visitor<'de> for V {
            type Value = Bytes;
            fn expecting(&self, f: &mut std::fmt::Formatter) -> std::fmt::Result {
                write!(f, "bytes")
            }
            fn visit_bytes<E: serde::de::Error>(self, v: &[u8]) -> Result<Bytes, E> {
                Ok(Bytes(v.to_vec()))
            }
            fn visit_byte_buf<E: serde::de::Error>(self, v: Vec<u8>) -> Result<Bytes, E> {
                Ok(Bytes(v))
            }
        }
        d.deserialize_bytes(V)
    }
}

#[derive(Clone, Debug, PartialEq, Serialize, Deserialize)]
struct UnitS;
#[derive(Clone, Debug, PartialEq, Serialize, Deserialize)]
struct Newtype<T>(T);
#[derive(Clone, Debug, PartialEq, Serialize, Deserialize)]
struct Tup2<T>(T, T);
#[derive(Clone, Debug, PartialEq, Serialize, Deserialize)]
struct Field<T> {
    a: T,
    b: T,
}
#[derive(Clone, Debug, PartialEq, Serialize, Deserialize)]
enum En<T> {
    Unit,
    New(T),
    Tup(T, T),
    Struct { a: T },
}

fn roundtrip<T: Serialize + DeserializeOwned + PartialEq + Debug>(x: &T, ty: &str, acc: &Acc, l: &mut Local) {
    l.evals += 1;
    let r = catch(|| {
        let v = Value::from(Serde(x));
        let back = T::deserialize(v.clone());
        (format!("{:?}", v), back.map_err(|e| e.to_string()))
    });
    let mk = |clause: &str, detail: String| Failure {
        key: format!("roundtrip {} type={}", clause, ty),
        case: format!("{} :: {:?}", ty, x),
        detail,
        replay: json!({"kind": "typed", "type": ty, "value": format!("{:?}", x)}),
    };
    match r {
        Err(p) => acc.fail(mk("panic", format!("{} at {}", p, last_panic_loc()))),
        Ok((vs, Err(e))) => acc.fail(mk("deserialize_error", format!("value {} does not deserialize: {}", vs, e))),
        Ok((vs, Ok(back))) => {
            if &back != x {
                acc.fail(mk("value_changed", format!("{:?} became {:?} (as Value: {})", x, back, vs)));
            } else {
                l.outcome("typed round trip ok");
                l.nontrivial.insert(fnv(format!("{}|{:?}", ty, x).as_bytes()));
            }
        }
    }
}

/// all container shapes over one leaf type; `vals` is the leaf's edge alphabet
fn containers<T: Serialize + DeserializeOwned + PartialEq + Debug + Clone>(vals: &[T], ty: &str, depth2: bool, acc: &Acc, l: &mut Local) {
    for (i, v) in vals.iter().enumerate() {
        let w = &vals[(i + 1) % vals.len()];
        roundtrip(v, ty, acc, l);
        roundtrip(&Some(v.clone()), &format!("Option<{}>", ty), acc, l);
        roundtrip(&None::<T>, &format!("Option<{}>", ty), acc, l);
        roundtrip(&vec![v.clone(), w.clone()], &format!("Vec<{}>", ty), acc, l);
        roundtrip(&Vec::<T>::new(), &format!("Vec<{}>", ty), acc, l);
        roundtrip(&(v.clone(), w.clone()), &format!("({},{})", ty, ty), acc, l);
        roundtrip(&(v.clone(),), &format!("({},)", ty), acc, l);
        roundtrip(&[v.clone(), w.clone()], &format!("[{};2]", ty), acc, l);
        let mut m = BTreeMap::new();
        m.insert("k".to_string(), v.clone());
        m.insert("".to_string(), w.clone());
        roundtrip(&m, &format!("BTreeMap<String,{}>", ty), acc, l);
        let mut mi = BTreeMap::new();
        mi.insert(-1i64, v.clone());
        mi.insert(i64::MAX, w.clone());
        roundtrip(&mi, &format!("BTreeMap<i64,{}>", ty), acc, l);
        let mut mu = BTreeMap::new();
        mu.insert(u64::MAX, v.clone());
        mu.insert(0u64, w.clone());
        roundtrip(&mu, &format!("BTreeMap<u64,{}>", ty), acc, l);
        let mut mb = BTreeMap::new();
        mb.insert(true, v.clone());
        roundtrip(&mb, &format!("BTreeMap<bool,{}>", ty), acc, l);
        roundtrip(&Newtype(v.clone()), &format!("Newtype<{}>", ty), acc, l);
        roundtrip(&Tup2(v.clone(), w.clone()), &format!("Tup2<{}>", ty), acc, l);
        roundtrip(&Field { a: v.clone(), b: w.clone() }, &format!("Field<{}>", ty), acc, l);
        roundtrip(&En::<T>::Unit, &format!("En<{}>::Unit", ty), acc, l);
        roundtrip(&En::New(v.clone()), &format!("En<{}>::New", ty), acc, l);
        roundtrip(&En::Tup(v.clone(), w.clone()), &format!("En<{}>::Tup", ty), acc, l);
        roundtrip(&En::Struct { a: v.clone() }, &format!("En<{}>::Struct", ty), acc, l);
        if depth2 {
            roundtrip(&vec![Some(v.clone()), None], &format!("Vec<Option<{}>>", ty), acc, l);
            roundtrip(&Some(vec![v.clone()]), &format!("Option<Vec<{}>>", ty), acc, l);
            roundtrip(&vec![vec![v.clone()], vec![]], &format!("Vec<Vec<{}>>", ty), acc, l);
            let mut mv = BTreeMap::new();
            mv.insert("k".to_string(), vec![v.clone(), w.clone()]);
            roundtrip(&mv, &format!("BTreeMap<String,Vec<{}>>", ty), acc, l);
            roundtrip(&vec![En::New(v.clone()), En::Unit, En::Struct { a: w.clone() }, En::Tup(v.clone(), w.clone())], &format!("Vec<En<{}>>", ty), acc, l);
            roundtrip(&Field { a: Some(v.clone()), b: None }, &format!("Field<Option<{}>>", ty), acc, l);
            roundtrip(&En::New(vec![v.clone()]), &format!("En<Vec<{}>>", ty), acc, l);
            roundtrip(&vec![(v.clone(), w.clone())], &format!("Vec<({},{})>", ty, ty), acc, l);
            roundtrip(&Some(En::Struct { a: v.clone() }), &format!("Option<En<{}>>", ty), acc, l);
            roundtrip(&Newtype(Field { a: v.clone(), b: w.clone() }), &format!("Newtype<Field<{}>>", ty), acc, l);
            roundtrip(&Field { a: Tup2(v.clone(), w.clone()), b: Tup2(w.clone(), v.clone()) }, &format!("Field<Tup2<{}>>", ty), acc, l);
            roundtrip(&(Some(v.clone()), vec![w.clone()], En::New(v.clone())), &format!("(Option,Vec,En)<{}>", ty), acc, l);
            let mut mm = BTreeMap::new();
            let mut inner = BTreeMap::new();
            inner.insert(7i64, v.clone());
            mm.insert("outer".to_string(), inner);
            roundtrip(&mm, &format!("BTreeMap<String,BTreeMap<i64,{}>>", ty), acc, l);
            roundtrip(&En::New(En::Tup(v.clone(), w.clone())), &format!("En<En<{}>>", ty), acc, l);
            // payloads that are absent, empty or unit-like, in every variant shape and wrapper
            roundtrip(&En::New(None::<T>), &format!("En<Option<{}>>::New(None)", ty), acc, l);
            roundtrip(&En::New(Some(v.clone())), &format!("En<Option<{}>>::New(Some)", ty), acc, l);
            roundtrip(&En::Tup(None, Some(v.clone())), &format!("En<Option<{}>>::Tup(None,Some)", ty), acc, l);
            roundtrip(&En::Tup(None::<T>, None), &format!("En<Option<{}>>::Tup(None,None)", ty), acc, l);
            roundtrip(&En::Struct { a: None::<T> }, &format!("En<Option<{}>>::Struct(None)", ty), acc, l);
            roundtrip(&En::New(Vec::<T>::new()), &format!("En<Vec<{}>>::New(empty)", ty), acc, l);
            roundtrip(&En::New(BTreeMap::<String, T>::new()), &format!("En<BTreeMap<String,{}>>::New(empty)", ty), acc, l);
            roundtrip(&En::New(Field { a: None::<T>, b: Some(w.clone()) }), &format!("En<Field<Option<{}>>>", ty), acc, l);
            roundtrip(&Newtype(None::<T>), &format!("Newtype<Option<{}>>(None)", ty), acc, l);
            roundtrip(&Tup2(None::<T>, None), &format!("Tup2<Option<{}>>(None,None)", ty), acc, l);
            roundtrip(&vec![None::<T>, None], &format!("Vec<Option<{}>>(None,None)", ty), acc, l);
            roundtrip(&(None::<T>,), &format!("(Option<{}>,)", ty), acc, l);
            roundtrip(&vec![En::New(None::<T>), En::Unit, En::New(Some(v.clone()))], &format!("Vec<En<Option<{}>>>", ty), acc, l);
            roundtrip(&Some(En::New(None::<T>)), &format!("Option<En<Option<{}>>>", ty), acc, l);
            let mut me = BTreeMap::new();
            me.insert("k".to_string(), En::New(None::<T>));
            me.insert("u".to_string(), En::Unit);
            roundtrip(&me, &format!("BTreeMap<String,En<Option<{}>>>", ty), acc, l);
        }
    }
}

fn typed_roundtrips(acc: &Acc) {
    let mut l = Local::default();
    let l = &mut l;
    containers(&[false, true], "bool", true, acc, l);
    containers(&[i8::MIN, -1, 0, 1, i8::MAX], "i8", false, acc, l);
    containers(&[i16::MIN, -1, 0, 1, i16::MAX], "i16", false, acc, l);
    containers(&[i32::MIN, -1, 0, 1, i32::MAX], "i32", false, acc, l);
    containers(&[i64::MIN, -1, 0, 1, 1 << 53, i64::MAX], "i64", true, acc, l);
    containers(&[0u8, 1, u8::MAX], "u8", false, acc, l);
    containers(&[0u16, 1, u16::MAX], "u16", false, acc, l);
    containers(&[0u32, 1, u32::MAX], "u32", false, acc, l);
    containers(&[0u64, 1, (1 << 63) - 1, 1 << 63, u64::MAX], "u64", true, acc, l);
    containers(&[0.0f32, 1.5, -1.5, f32::MIN, f32::MAX, f32::EPSILON, f32::MIN_POSITIVE, f32::INFINITY, f32::NEG_INFINITY, 16777217.0], "f32", false, acc, l);
    containers(&[0.0f64, 1.5, -1.5, 1e308, -1e308, f64::MIN_POSITIVE, 5e-324, 9007199254740993.0, 9223372036854775808.0, 18446744073709551616.0, f64::INFINITY, f64::NEG_INFINITY, 1.0, -1.0, 3.0], "f64", true, acc, l);
    containers(&['a', '\0', 'é', '😀', '\u{10ffff}', '"', '<'], "char", false, acc, l);
    containers(
        &["".to_string(), "a".to_string(), "é☃😀".to_string(), "\0".to_string(), "a long string that does not fit into the inline small string repr".to_string(), "__minijinja_ValueHandle".to_string(), "<b>".to_string()],
        "String",
        true,
        acc,
        l,
    );
    containers(&[Bytes(vec![]), Bytes(vec![0]), Bytes(vec![255, 0, 1]), Bytes(b"abc".to_vec())], "Bytes", true, acc, l);
    // unit-like
    roundtrip(&(), "()", acc, l);
    roundtrip(&UnitS, "UnitS", acc, l);
    roundtrip(&vec![(), ()], "Vec<()>", acc, l);
    roundtrip(&Field { a: (), b: () }, "Field<()>", acc, l);
    roundtrip(&En::<()>::Unit, "En<()>::Unit", acc, l);
    roundtrip(&En::New(()), "En<()>::New", acc, l);
    roundtrip(&En::New(UnitS), "En<UnitS>::New", acc, l);
    roundtrip(&En::Tup((), ()), "En<()>::Tup", acc, l);
    roundtrip(&En::Struct { a: () }, "En<()>::Struct", acc, l);
    roundtrip(&Newtype(()), "Newtype<()>", acc, l);
    // -0.0 and NaN by bit pattern
    for f in [-0.0f64, f64::NAN] {
        l.evals += 1;
        match catch(|| f64::deserialize(Value::from(Serde(&f)))) {
            Ok(Ok(b)) if b.to_bits() == f.to_bits() || (f.is_nan() && b.is_nan()) => l.outcome("typed round trip ok"),
            other => acc.fail(Failure { key: "roundtrip value_changed type=f64 bits".into(), case: format!("f64 bits {:?}", f), detail: format!("{:?}", other.map(|x| x.map_err(|e| e.to_string()))), replay: J::Null }),
        }
    }
    l.flush(acc);
}

// ---- embedded values ---------------------------------------------------------------------------

#[derive(Serialize)]
struct Wrap {
    v: Value,
    n: i32,
}

/// a host type whose Serialize impl converts its payload to a Value first (a nested conversion
/// while an outer one may be running) and forwards that
struct Forward<T>(T);
impl<T: Serialize> Serialize for Forward<T> {
    fn serialize<S: serde::Serializer>(&self, s: S) -> Result<S::Ok, S::Error> {
        Value::from(Serde(&self.0)).serialize(s)
    }
}

#[derive(Serialize)]
struct Around<A: Serialize, B: Serialize> {
    before: Value,
    first: A,
    v: Value,
    last: B,
    after: Value,
}

fn same_value(a: &Value, b: &Value) -> Result<(), String> {
    if a.kind() != b.kind() {
        return Err(format!("kind {:?} became {:?}", a.kind(), b.kind()));
    }
    if a.is_safe() != b.is_safe() {
        return Err(format!("safe flag {} became {}", a.is_safe(), b.is_safe()));
    }
    if a.is_undefined() != b.is_undefined() || a.is_none() != b.is_none() {
        return Err("undefined/none confusion".into());
    }
    if a.is_tuple() != b.is_tuple() {
        return Err("tuple flag changed".into());
    }
    match (a.as_object(), b.as_object()) {
        (Some(x), Some(y)) => {
            // identity by address of the payload for the object types the alphabet uses
            fn addr(o: &minijinja::value::DynObject) -> Option<usize> {
                if let Some(p) = o.downcast_ref::<vals::Plain>() {
                    return Some(p as *const _ as usize);
                }
                if let Some(p) = o.downcast_ref::<Vec<Value>>() {
                    return Some(p as *const _ as usize);
                }
                if let Some(p) = o.downcast_ref::<minijinja::value::Tuple>() {
                    return Some(p as *const _ as usize);
                }
                None
            }
            match (addr(x), addr(y)) {
                (Some(p), Some(q)) if p != q => return Err("object is not the very same object".into()),
                (Some(_), None) | (None, Some(_)) => return Err("object type changed".into()),
                _ => {
                    if a.kind() != ValueKind::Iterable && a != b {
                        return Err(format!("{:?} became {:?}", a, b));
                    }
                }
            }
        }
        (None, None) => {
            let (fa, fb) = (format!("{:?}", a), format!("{:?}", b));
            if fa != fb {
                return Err(format!("{} became {}", fa, fb));
            }
            if a.is_integer() != b.is_integer() {
                return Err("integer-ness changed".into());
            }
        }
        _ => return Err("object-ness changed".into()),
    }
    Ok(())
}

struct FailingSer;
impl Serialize for FailingSer {
    fn serialize<S: serde::Serializer>(&self, _s: S) -> Result<S::Ok, S::Error> {
        Err(serde::ser::Error::custom("nope"))
    }
}

/// the conversion flag and the registry of embedded values are thread-local state: every sequence of up
/// to `depth` conversions out of a small alphabet (plain, nested, failing, nested-failing, panicking
/// inside, JSON serialisation of a value outside of any conversion, the unsupported flattened Value,
/// values of several kinds side by side, a failure after embedded values) must leave the state clean
/// after every step — every embedded value (each one unique on its thread) comes back as itself and
/// JSON output is plain data
fn flag_histories(depth: usize, acc: &Acc) {
    const OPS: usize = 9;
    // every embedded value is different from every other one the thread has seen, so that a value
    // handed back from an earlier conversion cannot pass for the one that was put in
    thread_local! { static SERIAL: std::cell::Cell<u64> = const { std::cell::Cell::new(0) }; }
    let special = || {
        let n = SERIAL.with(|s| {
            s.set(s.get() + 1);
            s.get()
        });
        Value::from_safe_string(format!("<s{}>", n))
    };
    let same = |what: &str, put: &Value, got: Option<Value>| -> Result<(), String> {
        match got {
            Some(g) if g.is_safe() && g.as_str() == put.as_str() => Ok(()),
            other => Err(format!("{}: put in {:?}, came back as {:?}", what, put, other)),
        }
    };
    #[derive(Serialize)]
    struct Flat {
        a: i32,
        #[serde(flatten)]
        more: Value,
    }
    let run_op = |op: usize| -> Result<(), String> {
        match op {
            0 => {
                let sp = special();
                let v = Value::from(Serde(&Wrap { v: sp.clone(), n: 1 }));
                same("plain conversion", &sp, v.get_attr("v").ok())?;
            }
            1 => {
                let (a, b, c, d) = (special(), special(), special(), special());
                let v = Value::from(Serde(&Around { before: a.clone(), first: Forward(1), v: b.clone(), last: Forward(Wrap { v: c.clone(), n: 0 }), after: d.clone() }));
                same("field `before` around a nested conversion", &a, v.get_attr("before").ok())?;
                same("field `v` around a nested conversion", &b, v.get_attr("v").ok())?;
                same("field `after` around a nested conversion", &d, v.get_attr("after").ok())?;
                same("value inside the nested conversion", &c, v.get_attr("last").and_then(|x| x.get_attr("v")).ok())?;
            }
            2 => {
                let _ = Value::from(Serde(&Around { before: special(), first: FailingSer, v: special(), last: 1, after: special() }));
            }
            3 => {
                let _ = Value::from(Serde(&Around { before: special(), first: Forward(FailingSer), v: special(), last: 1, after: special() }));
            }
            4 => {
                struct Panicking;
                impl Serialize for Panicking {
                    fn serialize<S: serde::Serializer>(&self, _s: S) -> Result<S::Ok, S::Error> {
                        panic!("host serializer panics")
                    }
                }
                let _ = catch(|| Value::from(Serde(&Around { before: special(), first: Forward(1), v: special(), last: Panicking, after: special() })));
            }
            5 => {
                let sp = special();
                let j = serde_json::to_string(&Value::from(vec![sp.clone(), Value::from(1)])).map_err(|e| e.to_string())?;
                if j != format!("[\"{}\",1]", sp.as_str().unwrap()) {
                    return Err(format!("JSON of a value outside any conversion is {}", j));
                }
            }
            6 => {
                // the documented unsupported shape (a flattened Value): the conversion gives an invalid
                // value which the embedding program may ignore
                let _ = Value::from(Serde(&Flat { a: 1, more: Value::from_pairs([("b", 23)]) }));
            }
            7 => {
                // values of three kinds next to each other, in a sequence
                let (a, c) = (special(), special());
                let v = Value::from(Serde(&vec![a.clone(), Value::UNDEFINED, c.clone()]));
                same("first of a sequence", &a, v.get_item(&Value::from(0)).ok())?;
                if !v.get_item(&Value::from(1)).map(|x| x.is_undefined()).unwrap_or(false) {
                    return Err(format!("undefined in a sequence came back as {:?}", v.get_item(&Value::from(1))));
                }
                same("third of a sequence", &c, v.get_item(&Value::from(2)).ok())?;
            }
            _ => {
                // a failing sibling *after* an embedded value, then the same shape without the failure
                let _ = Value::from(Serde(&(special(), special(), FailingSer)));
                let sp = special();
                let v = Value::from(Serde(&(1, sp.clone())));
                same("tuple after a failed tuple", &sp, v.get_item(&Value::from(1)).ok())?;
            }
        }
        if minijinja::value::serializing_for_value() {
            return Err("the conversion flag is still set after the operation returned".into());
        }
        Ok(())
    };
    let names = ["plain", "nested", "failing", "nested_failing", "panicking_after_nested", "json_outside", "flattened_value", "sequence_of_kinds", "failing_after_values"];
    let mut total = 0u64;
    for d in 1..=depth {
        for code in 0..OPS.pow(d as u32) {
            let mut seq = vec![];
            let mut k = code;
            for _ in 0..d {
                seq.push(k % OPS);
                k /= OPS;
            }
            total += 1;
            acc.eval(1);
            let r = catch(|| {
                for (i, op) in seq.iter().enumerate() {
                    run_op(*op).map_err(|e| format!("step {} ({}): {}", i, names[*op], e))?;
                }
                Ok::<(), String>(())
            });
            let hist: Vec<&str> = seq.iter().map(|o| names[*o]).collect();
            match r {
                Ok(Ok(())) => {
                    acc.outcome("conversion history leaves the flag clean");
                    acc.nontrivial(fnv(format!("hist{:?}", seq).as_bytes()));
                }
                Ok(Err(e)) => acc.fail(Failure { key: format!("embedded history last={}", hist.last().unwrap()), case: format!("{:?}", hist), detail: e, replay: json!({"kind": "history", "ops": seq}) }),
                Err(p) => acc.fail(Failure { key: "embedded history panic".into(), case: format!("{:?}", hist), detail: p, replay: json!({"kind": "history", "ops": seq}) }),
            }
        }
    }
    acc.count("conversion_histories", total);
}

fn embedded_values(acc: &Acc) {
    let alphabet = vals::v_edge(true);
    for nv in &alphabet {
        let tv = &nv.value;
        let routes: Vec<(&str, Box<dyn Fn() -> Option<Value>>)> = vec![
            ("struct_field", Box::new(|| Value::from(Serde(&Wrap { v: tv.clone(), n: 1 })).get_attr("v").ok())),
            ("vec", Box::new(|| Value::from(Serde(&vec![tv.clone(), tv.clone()])).get_item(&Value::from(1)).ok())),
            ("option", Box::new(|| Some(Value::from(Serde(&Some(tv.clone())))))),
            ("map", Box::new(|| {
                let mut m = BTreeMap::new();
                m.insert("k", tv.clone());
                Value::from(Serde(&m)).get_attr("k").ok()
            })),
            ("tuple", Box::new(|| Value::from(Serde(&(1, tv.clone()))).get_item(&Value::from(1)).ok())),
            ("enum_newtype", Box::new(|| Value::from(Serde(&En::New(tv.clone()))).get_attr("New").ok())),
            ("direct", Box::new(|| Some(Value::from(Serde(tv))))),
            ("nested", Box::new(|| Value::from(Serde(&vec![Wrap { v: tv.clone(), n: 2 }])).get_item(&Value::from(0)).and_then(|x| x.get_attr("v")).ok())),
            // nested conversions: a host Serialize impl that itself builds a Value
            ("inside_nested_conversion", Box::new(|| Value::from(Serde(&Forward(Wrap { v: tv.clone(), n: 3 }))).get_attr("v").ok())),
            ("inside_doubly_nested_conversion", Box::new(|| Value::from(Serde(&Forward(Forward(Wrap { v: tv.clone(), n: 3 })))).get_attr("v").ok())),
            ("field_after_nested_conversion", Box::new(|| Value::from(Serde(&Around { before: Value::from(1), first: Forward(1), v: tv.clone(), last: 2, after: Value::from(2) })).get_attr("v").ok())),
            ("field_before_nested_conversion", Box::new(|| Value::from(Serde(&Around { before: Value::from(1), first: 1, v: tv.clone(), last: Forward(2), after: Value::from(2) })).get_attr("v").ok())),
            ("last_field_after_nested_conversion", Box::new(|| Value::from(Serde(&Around { before: Value::from(1), first: Forward(vec![1]), v: Value::from(0), last: Forward(Wrap { v: Value::from(1), n: 1 }), after: tv.clone() })).get_attr("after").ok())),
            ("first_field_with_nested_conversions_later", Box::new(|| Value::from(Serde(&Around { before: tv.clone(), first: Forward(1), v: Value::from(0), last: Forward(2), after: Value::from(2) })).get_attr("before").ok())),
            ("tuple_after_nested_conversion", Box::new(|| Value::from(Serde(&(Forward("x"), tv.clone()))).get_item(&Value::from(1)).ok())),
        ];
        for (route, f) in routes {
            acc.eval(1);
            let mk = |clause: &str, detail: String| Failure {
                key: format!("embedded {} route={} class={}", clause, route, nv.class),
                case: format!("{} via {}", nv.name, route),
                detail,
                replay: json!({"kind": "embedded", "value": nv.name, "route": route}),
            };
            match catch(&f) {
                Err(p) => acc.fail(mk("panic", format!("{} at {}", p, last_panic_loc()))),
                Ok(None) => acc.fail(mk("lost", "value not found after conversion".into())),
                Ok(Some(got)) => match same_value(tv, &got) {
                    Ok(()) => {
                        acc.outcome("embedded value identical");
                        acc.nontrivial(fnv(format!("{}|{}", nv.name, route).as_bytes()));
                    }
                    Err(why) => acc.fail(mk("changed", why)),
                },
            }
        }
        // Value -> Value through the Deserialize impl of Value itself
        acc.eval(1);
        match catch(|| Value::deserialize(tv.clone())) {
            Ok(Ok(got)) => {
                // deserializing materialises objects; only scalar identity is demanded here
                if tv.as_object().is_none() && tv.kind() != ValueKind::Invalid && !tv.is_undefined() {
                    if let Err(why) = same_value(tv, &got) {
                        // safe flag is not part of the serde data model on this path
                        if !(tv.is_safe() && why.starts_with("safe flag")) {
                            acc.fail(Failure { key: format!("embedded value_deserialize_changed class={}", nv.class), case: nv.name.clone(), detail: why, replay: J::Null });
                        }
                    }
                }
            }
            Ok(Err(_)) => {}
            Err(p) => acc.fail(Failure { key: format!("embedded value_deserialize_panic class={}", nv.class), case: nv.name.clone(), detail: p, replay: J::Null }),
        }
    }
    // a failing serialisation must not poison later conversions (thread-local residue)
    struct Failing;
    impl Serialize for Failing {
        fn serialize<S: serde::Serializer>(&self, _s: S) -> Result<S::Ok, S::Error> {
            Err(serde::ser::Error::custom("nope"))
        }
    }
    #[derive(Serialize)]
    struct Mixed {
        a: Value,
        b: Failing,
    }
    for _ in 0..3 {
        acc.eval(1);
        let r = catch(|| {
            let bad = Value::from(Serde(&Mixed { a: Value::from_safe_string("x".into()), b: Failing }));
            let inside_flag = minijinja::value::serializing_for_value();
            let good = Value::from(Serde(&Wrap { v: Value::from_safe_string("<i>".into()), n: 3 }));
            let out_json = serde_json::to_string(&Value::from(vec![1, 2])).unwrap_or_default();
            (bad.kind(), inside_flag, good.get_attr("v").map(|v| v.is_safe()).unwrap_or(false), out_json)
        });
        match r {
            // the failing field turns into an invalid value inside the struct's map (or the whole
            // value is invalid); what matters is that nothing leaks into the conversions after it
            Ok((ValueKind::Invalid | ValueKind::Map, false, true, j)) if j == "[1,2]" => acc.outcome("failing serialisation leaves no residue"),
            other => acc.fail(Failure { key: "embedded residue_after_failed_serialisation".into(), case: "Mixed{Value, Failing}".into(), detail: format!("{:?}", other), replay: J::Null }),
        }
    }
}

// ---- tojson -----------------------------------------------------------------------------------

const JCHARS: &[char] = &['a', '"', '\\', '/', '<', '>', '&', '\'', '\n', '\0', '\u{1f}', '\u{7f}', '\u{2028}', '\u{2029}', '😀', 'é'];

fn expected_json(v: &Value, depth: usize) -> Option<J> {
    // None = no expectation beyond validity
    Some(match v.kind() {
        ValueKind::Undefined | ValueKind::None => J::Null,
        ValueKind::Bool => J::Bool(v.is_true()),
        ValueKind::Number => {
            if v.is_integer() {
                if let Ok(i) = i64::try_from(v.clone()) {
                    json!(i)
                } else if let Ok(u) = u64::try_from(v.clone()) {
                    json!(u)
                } else {
                    return None; // beyond 64 bits: compared textually by the caller
                }
            } else {
                let f = f64::try_from(v.clone()).ok()?;
                if f.is_finite() {
                    json!(f)
                } else {
                    J::Null
                }
            }
        }
        ValueKind::String => J::String(v.as_str()?.to_string()),
        ValueKind::Seq | ValueKind::Iterable => {
            if depth > 3 {
                return None;
            }
            let mut out = vec![];
            for item in v.try_iter().ok()? {
                out.push(expected_json(&item, depth + 1)?);
            }
            J::Array(out)
        }
        ValueKind::Map => {
            let mut m = serde_json::Map::new();
            for k in v.try_iter().ok()? {
                let ks = match k.kind() {
                    ValueKind::String => k.as_str()?.to_string(),
                    ValueKind::Number | ValueKind::Bool => {
                        if k.kind() == ValueKind::Bool {
                            (if k.is_true() { "true" } else { "false" }).to_string()
                        } else if k.is_integer() {
                            k.to_string()
                        } else {
                            // JSON's own spelling of the float
                            serde_json::to_string(&f64::try_from(k.clone()).ok()?).ok()?
                        }
                    }
                    _ => return None,
                };
                m.insert(ks, expected_json(&v.get_item(&k).ok()?, depth + 1)?);
            }
            J::Object(m)
        }
        _ => return None,
    })
}

fn json_equal(a: &J, b: &J) -> bool {
    match (a, b) {
        (J::Number(x), J::Number(y)) => x == y || x.as_f64() == y.as_f64(),
        (J::Array(x), J::Array(y)) => x.len() == y.len() && x.iter().zip(y).all(|(p, q)| json_equal(p, q)),
        (J::Object(x), J::Object(y)) => x.len() == y.len() && x.iter().all(|(k, v)| y.get(k).map_or(false, |w| json_equal(v, w))),
        _ => a == b,
    }
}

fn check_tojson_value(env: &Environment, v: &Value, name: &str, class: &str, acc: &Acc, l: &mut Local) {
    // (template name, source, must the output be free of < > & ' ?)
    let routes = [("plain.txt", "{{ v|tojson }}", true), ("page.html", "{{ v|tojson }}", true), ("data.json", "{{ v }}", false), ("pretty.txt", "{{ v|tojson(indent=2) }}", true)];
    for (tname, src, html_safe) in routes {
        // a safe string asserts that it already is markup for the active format; JSON auto-escaping
        // passes it through by design, so it carries no JSON expectation on that route
        if tname == "data.json" && class.starts_with("safe_str") {
            continue;
        }
        l.evals += 1;
        let r = catch(|| {
            let t = env.get_template(tname).unwrap();
            let _ = src;
            t.render(context! { v => v.clone() })
        });
        let mk = |clause: &str, detail: String| Failure {
            key: format!("tojson {} route={} class={}", clause, tname, class),
            case: format!("{} via {}", name, tname),
            detail,
            replay: json!({"kind": "tojson", "value": name, "route": tname}),
        };
        match r {
            Err(p) => acc.fail(mk("panic", format!("{} at {}", p, last_panic_loc()))),
            Ok(Err(e)) => {
                // accepted only for maps with keys that JSON cannot carry, and for invalid values
                let has_bad_key = |v: &Value| -> bool {
                    fn walk(v: &Value, d: usize) -> bool {
                        if d > 4 {
                            return false;
                        }
                        match v.kind() {
                            ValueKind::Map => v.try_iter().map(|mut it| it.any(|k| !matches!(k.kind(), ValueKind::String | ValueKind::Number | ValueKind::Bool) || (k.kind() == ValueKind::Number && !k.is_integer() && !f64::try_from(k.clone()).map(|f| f.is_finite()).unwrap_or(false)) || v.get_item(&k).map(|x| walk(&x, d + 1)).unwrap_or(false))).unwrap_or(false),
                            ValueKind::Seq | ValueKind::Iterable => v.try_iter().map(|mut it| it.any(|x| walk(&x, d + 1))).unwrap_or(false),
                            ValueKind::Invalid => true,
                            _ => false,
                        }
                    }
                    walk(v, 0)
                };
                if has_bad_key(v) {
                    l.outcome("error for a key JSON cannot carry");
                } else {
                    acc.fail(mk("unexpected_error", e.to_string()));
                }
            }
            Ok(Ok(out)) => {
                match serde_json::from_str::<J>(&out) {
                    Err(e) => {
                        // integers beyond 64 bits do not parse with plain serde_json; compare the text
                        if v.kind() == ValueKind::Number && v.is_integer() && out == v.to_string() {
                            l.outcome("big integer printed exactly");
                        } else {
                            acc.fail(mk("invalid_json", format!("{:?}: {}", out, e)));
                        }
                    }
                    Ok(parsed) => {
                        if let Some(exp) = expected_json(v, 0) {
                            if !json_equal(&parsed, &exp) {
                                acc.fail(mk("parses_to_different_value", format!("output {:?} parses to {} but expected {}", out, parsed, exp)));
                            } else {
                                l.outcome("valid json, equal value");
                                l.nontrivial.insert(fnv(format!("{}|{}", name, tname).as_bytes()));
                            }
                        } else {
                            l.outcome("valid json (no value expectation)");
                        }
                    }
                }
                if html_safe {
                    if let Some(c) = out.chars().find(|c| matches!(c, '<' | '>' | '&' | '\'')) {
                        acc.fail(mk("html_unsafe_character", format!("output {:?} contains {:?}", out, c)));
                    }
                }
            }
        }
    }
}

fn json_env() -> Environment<'static> {
    let mut env = Environment::new();
    env.add_template("plain.txt", "{{ v|tojson }}").unwrap();
    env.add_template("page.html", "{{ v|tojson }}").unwrap();
    env.add_template("data.json", "{{ v }}").unwrap();
    env.add_template("pretty.txt", "{{ v|tojson(indent=2) }}").unwrap();
    env
}

fn tojson_checks(tier: Tier, acc: &Acc) {
    let n = JCHARS.len() as u64;
    let maxlen = tier.pick(3u32, 4u32);
    for len in 0..=maxlen {
        let count = n.pow(len);
        par_chunks(count, 256, acc, |r, l| {
            let env = json_env();
            for idx in r {
                let mut k = idx;
                let mut s = String::new();
                for _ in 0..len {
                    s.push(JCHARS[(k % n) as usize]);
                    k /= n;
                }
                check_tojson_value(&env, &Value::from(s.clone()), &format!("{:?}", s), "string", acc, l);
                if len <= 2 {
                    check_tojson_value(&env, &Value::from_safe_string(s.clone()), &format!("safe{:?}", s), "safe_string", acc, l);
                    check_tojson_value(&env, &Value::from_pairs([(s.clone(), s.clone())]), &format!("{{{:?}: same}}", s), "map_string_key", acc, l);
                    check_tojson_value(&env, &Value::from(vec![s.clone()]), &format!("[{:?}]", s), "list_of_string", acc, l);
                }
            }
        });
    }
    // edge values, bare and nested one level
    let env = json_env();
    let mut l = Local::default();
    for nv in vals::v_edge(true) {
        check_tojson_value(&env, &nv.value, &nv.name, nv.class, acc, &mut l);
        check_tojson_value(&env, &Value::from(vec![nv.value.clone()]), &format!("[{}]", nv.name), "nested_list", acc, &mut l);
        check_tojson_value(&env, &Value::from_pairs([("k", nv.value.clone())]), &format!("{{k: {}}}", nv.name), "nested_map", acc, &mut l);
        check_tojson_value(&env, &Value::from_pairs([(nv.value.clone(), 1)]), &format!("{{{}: 1}}", nv.name), "as_map_key", acc, &mut l);
    }
    // escapes written in the template literal, incl. lone surrogates: never invalid JSON
    for lit in ["\\ud800", "\\udc00", "\\ud83d\\ude00", "\\ud83d", "a\\ud800b", "\\u2028", "\\u0000", "\\uffff", "\\ud800\\ud800"] {
        l.evals += 1;
        let src = format!("{{{{ \"{}\"|tojson }}}}", lit);
        match catch(|| env.render_str(&src, ())) {
            Err(p) => acc.fail(Failure { key: "tojson panic route=literal class=escape".into(), case: src.clone(), detail: p, replay: json!({"kind": "literal", "source": src}) }),
            Ok(Err(_)) => l.outcome("escape rejected at load time"),
            Ok(Ok(out)) => {
                if serde_json::from_str::<J>(&out).is_err() {
                    acc.fail(Failure { key: "tojson invalid_json route=literal class=escape".into(), case: src.clone(), detail: format!("{:?}", out), replay: json!({"kind": "literal", "source": src}) });
                } else {
                    l.outcome("valid json, equal value");
                }
            }
        }
    }
    l.flush(acc);
}

pub fn main(args: Args) -> i32 {
    let start_t = std::time::Instant::now();
    install_quiet_panic_hook();
    let acc = Acc::new();
    if args.replay.is_some() {
        println!("C16 cases are named by value and route; re-run ./check C16 (all families run in well under a minute)");
    }
    typed_roundtrips(&acc);
    let typed = acc.evaluations.load(std::sync::atomic::Ordering::Relaxed);
    acc.count("typed_values", typed);
    embedded_values(&acc);
    flag_histories(args.tier.pick(3, 5), &acc);
    tojson_checks(args.tier, &acc);
    acc.sample(json!({"typed": "Field<Option<i64>> { a: Some(-9223372036854775808), b: None }", "law": "T::deserialize(Value::from(Serde(&x))) == x"}));
    acc.sample(json!({"embedded": "Wrap { v: Value::from_safe_string(\"<b>\"), n: 1 } -> .v must still be the safe string"}));
    acc.sample(json!({"tojson": "\"</script>\\u2028'\" through {{ v|tojson }} in .txt and .html templates and {{ v }} in a .json template"}));
    finish(
        Finish {
            property: "C16",
            level: "exploration",
            tier: args.tier,
            seed: args.seed,
            rule: format!("typed round trip: 14 leaf types (bool, i8..i64, u8..u64, f32, f64, char, String, byte string) with per-leaf edge alphabets x 20 container shapes (Option, Vec, tuples, array, maps keyed by String/i64/u64/bool, newtype/tuple/field structs, all four enum variant shapes) and 29 depth-2 shapes for 5 representative leaves (incl. absent, empty and unit-like payloads in every enum variant shape), plus unit-likes; embedded Values: every value of the edge alphabet (safe strings, undefined, none, 128-bit ints, NaN, bytes, lists, tuples, lazy iterables, maps, plain objects, invalid) through 15 embedding routes (7 of them through host Serialize impls that run a nested conversion before, around or after the value) must come back as the very same value (kind, flags, object identity), and a failing serialisation must leave no thread-local residue; every history of up to {} conversions out of {{plain, nested, failing, nested failing, panicking after a nested one, JSON serialisation outside}} must leave the conversion flag clean after every step; tojson/JSON auto-escape: all strings of length <= {} over a 16-character alphabet (quotes, backslash, slash, < > & ', controls, DEL, U+2028/9, non-BMP) bare, safe, as map key and in a list, all edge values bare / nested / as map key, through tojson in .txt and .html templates, tojson(indent) and JSON auto-escaping; output parsed by serde_json must equal the expected JSON value and tojson output must contain none of < > & '. distinct non-trivial = distinct (type,value) round trips + (value,route) pairs", args.tier.pick(3, 5), args.tier.pick(3, 4)),
            exhaustive: true,
            bound: json!({"json_chars": JCHARS.iter().map(|c| format!("{:?}", c)).collect::<Vec<_>>()}),
            assumptions: vec![
                "integers beyond 64 bits and Option<()> / nested options are outside the statement".into(),
                "an error instead of JSON is accepted only for maps with keys that are not string/number/bool and for invalid values".into(),
                "the value-handle registry cannot be inspected without a hook; residue is checked behaviourally".into(),
            ],
            extra: Default::default(),
            start: start_t,
        },
        &acc,
    )
}
