//! The explorer: a preemption-bounded depth-first `Scheduler` on shuttle's runtime, shared by the
//! C20 (auto-reloader) and C15 (shared environment) harnesses.
#![allow(dead_code)]
use shuttle::scheduler::{Schedule, Scheduler, Task, TaskId};
use std::sync::{Arc as StdArc, Mutex as StdMutex};

// ---------------------------------------------------------------------------------------------
// the explorer

#[derive(Clone, Debug)]
pub struct Level {
    /// enabled task ids in canonical order: the running task first if still enabled, then ascending
    options: Vec<usize>,
    chosen: usize,
    /// preemptions spent before this point
    cost_before: usize,
    /// switching away from options[0] costs a preemption
    current_runnable: bool,
}

#[derive(Default)]
pub struct Shared {
    levels: Vec<Level>,
    schedules: u64,
    max_depth: usize,
    exhausted: bool,
    divergence: Option<String>,
}

pub struct BoundedDfs {
    bound: usize,
    step: usize,
    first: bool,
    shared: StdArc<StdMutex<Shared>>,
}

impl BoundedDfs {
    fn new(bound: usize, shared: StdArc<StdMutex<Shared>>) -> Self {
        BoundedDfs { bound, step: 0, first: true, shared }
    }
}

fn cost_of(l: &Level, idx: usize) -> usize {
    l.cost_before + usize::from(l.current_runnable && idx > 0)
}

impl Scheduler for BoundedDfs {
    fn new_execution(&mut self) -> Option<Schedule> {
        let mut sh = self.shared.lock().unwrap();
        if self.first {
            self.first = false;
        } else {
            // backtrack to the deepest point with an untried alternative inside the bound
            loop {
                let Some(last) = sh.levels.last_mut() else {
                    sh.exhausted = true;
                    return None;
                };
                let mut next = last.chosen + 1;
                let mut found = false;
                while next < last.options.len() {
                    if cost_of(last, next) <= self.bound {
                        found = true;
                        break;
                    }
                    next += 1;
                }
                if found {
                    last.chosen = next;
                    break;
                }
                sh.levels.pop();
            }
        }
        self.step = 0;
        sh.schedules += 1;
        Some(Schedule::new(0))
    }

    fn next_task(&mut self, runnable: &[&Task], current: Option<TaskId>, is_yielding: bool) -> Option<TaskId> {
        let mut ids: Vec<usize> = runnable.iter().map(|t| usize::from(t.id())).collect();
        ids.sort();
        let cur = current.map(usize::from).filter(|c| ids.contains(c));
        let mut options = vec![];
        if let Some(c) = cur {
            options.push(c);
        }
        options.extend(ids.iter().copied().filter(|i| Some(*i) != cur));
        let current_runnable = cur.is_some() && !is_yielding;
        let mut sh = self.shared.lock().unwrap();
        let step = self.step;
        if step < sh.levels.len() {
            // replaying the prefix: any difference means the harness does not own its nondeterminism
            if sh.levels[step].options != options {
                sh.divergence = Some(format!("step {}: recorded options {:?} but now {:?}", step, sh.levels[step].options, options));
                return None;
            }
        } else {
            let cost_before = sh.levels.last().map_or(0, |l| cost_of(l, l.chosen));
            sh.levels.push(Level { options: options.clone(), chosen: 0, cost_before, current_runnable });
        }
        let choice = sh.levels[step].options[sh.levels[step].chosen];
        self.step += 1;
        sh.max_depth = sh.max_depth.max(self.step);
        Some(TaskId::from(choice))
    }

    fn next_u64(&mut self) -> u64 {
        0
    }
}

pub struct ExploreResult {
    pub schedules: u64,
    pub max_depth: usize,
    pub exhausted: bool,
    pub failure: Option<(String, Vec<usize>)>,
    pub divergence: Option<String>,
}

/// overall deadline of the run: an exploration never gets more time than what is left of it
pub static DEADLINE: StdMutex<Option<std::time::Instant>> = StdMutex::new(None);

pub fn shuttle_config() -> shuttle::Config {
    let mut c = shuttle::Config::new();
    // wall cap per (configuration, bound); a capped exploration is reported as not exhausted
    let per_call = std::time::Duration::from_secs(std::env::var("VERIF_SCHED_CAP_S").ok().and_then(|s| s.parse().ok()).unwrap_or(900));
    let left = DEADLINE.lock().unwrap().map(|d| d.saturating_duration_since(std::time::Instant::now()));
    c.max_time = Some(match left {
        Some(l) => per_call.min(l.max(std::time::Duration::from_millis(200))),
        None => per_call,
    });
    c.silence_warnings = true;
    c.failure_persistence = shuttle::FailurePersistence::None;
    c.stack_size = 0x40000;
    c
}

pub fn explore<F: Fn() + Send + Sync + 'static>(bound: usize, body: F) -> ExploreResult {
    let shared: StdArc<StdMutex<Shared>> = Default::default();
    let sched = BoundedDfs::new(bound, shared.clone());
    let runner = shuttle::Runner::new(sched, shuttle_config());
    let r = std::panic::catch_unwind(std::panic::AssertUnwindSafe(|| runner.run(body)));
    let sh = shared.lock().unwrap();
    let failure = match r {
        Ok(_) => None,
        Err(p) => {
            let msg = p.downcast_ref::<String>().cloned().or_else(|| p.downcast_ref::<&str>().map(|s| s.to_string())).unwrap_or_else(|| "panic".into());
            Some((msg, sh.levels.iter().map(|l| l.options[l.chosen]).collect()))
        }
    };
    ExploreResult { schedules: sh.schedules, max_depth: sh.max_depth, exhausted: sh.exhausted, failure, divergence: sh.divergence.clone() }
}

pub fn replay<F: Fn() + Send + Sync + 'static>(schedule: &[usize], body: F) -> Result<(), String> {
    let sched = shuttle::scheduler::ReplayScheduler::new_from_schedule(Schedule::new_from_task_ids(0, schedule.iter().map(|i| TaskId::from(*i))));
    let runner = shuttle::Runner::new(sched, shuttle_config());
    match std::panic::catch_unwind(std::panic::AssertUnwindSafe(|| runner.run(body))) {
        Ok(_) => Ok(()),
        Err(p) => Err(p.downcast_ref::<String>().cloned().or_else(|| p.downcast_ref::<&str>().map(|s| s.to_string())).unwrap_or_else(|| "panic".into())),
    }
}

