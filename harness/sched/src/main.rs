//! E4 — stateless, preemption-bounded DFS over thread schedules of the real code on shuttle's
//! runtime.  `sched c20` explores the auto-reloader (source-swapped copy of the real source).
#![allow(clippy::type_complexity)]
use serde_json::{json, Value as J};
use std::collections::{BTreeMap, BTreeSet};
use std::sync::atomic::{AtomicU64, AtomicUsize, Ordering};
use std::sync::{Arc as StdArc, Mutex as StdMutex};
use std::time::Instant;

mod dfs;
use dfs::{explore, replay, ExploreResult};

#[allow(dead_code, unexpected_cfgs, missing_docs, clippy::all)]
mod autoreload {
    // stand-in for the `notify` crate: the watch-fs items of the real source compile against it
    pub mod notify;
    include!(concat!(env!("OUT_DIR"), "/autoreload_swapped.rs"));
}

// ---------------------------------------------------------------------------------------------
// C20 harness

#[derive(Clone, Copy, Debug, PartialEq, Eq)]
enum Variant {
    Plain,
    RequestFromCreator,
    FreshnessCallback,
    /// the creator's second call (the first rebuild) fails; an acquirer that gets the error asks again
    CreatorFailsOnce,
    /// the creator's second call panics; the acquirer catches the panic (the process lives on) and asks
    /// again - whatever that second call does (it may well panic on a poisoned lock), it must not hand
    /// out an environment from before the request
    CreatorPanicsOnce,
}

#[derive(Clone, Copy, Debug)]
struct Cfg {
    requesters: usize,
    acquirers: usize,
    fast: bool,
    variant: Variant,
    acquires_each: usize,
    /// an environment already exists when the threads start (the main thread acquired once)
    prewarm: bool,
    /// threads that play notify's event loop: each changes the watched path once and delivers the
    /// event to the handler closure the real source registered
    fs_events: usize,
    watch: Watch,
    /// which event kind the fs threads deliver (index into EVENT_KINDS)
    kind: usize,
}

#[derive(Clone, Copy, Debug, PartialEq, Eq)]
enum Watch {
    /// the creator does not watch anything
    Off,
    /// the creator calls watch_path; the watcher is dropped and re-created at every rebuild
    Transient,
    /// persistent_watch(true): one watcher for the reloader's lifetime
    Persistent,
}

const EVENT_KINDS: [(&str, fn() -> autoreload::notify::event::EventKind); 5] = [
    ("modify-data", || autoreload::notify::event::EventKind::Modify(autoreload::notify::event::ModifyKind::Data(()))),
    ("create", || autoreload::notify::event::EventKind::Create(())),
    ("remove", || autoreload::notify::event::EventKind::Remove(())),
    ("modify-name", || autoreload::notify::event::EventKind::Modify(autoreload::notify::event::ModifyKind::Name(()))),
    ("modify-any", || autoreload::notify::event::EventKind::Modify(autoreload::notify::event::ModifyKind::Any)),
];

impl Cfg {
    fn name(&self) -> String {
        let base = format!("R{}A{}x{} {} {:?}{}", self.requesters, self.acquirers, self.acquires_each, if self.fast { "fast" } else { "rebuild" }, self.variant, if self.prewarm { " prewarmed" } else { "" });
        if self.watch == Watch::Off {
            base
        } else {
            format!("{} W{} {:?} {}", base, self.fs_events, self.watch, EVENT_KINDS[self.kind].0)
        }
    }
}

#[derive(Default)]
struct Stats {
    outcomes: BTreeSet<String>,
    executions: u64,
}

fn c20_body(cfg: Cfg, stats: StdArc<StdMutex<Stats>>) -> impl Fn() + Send + Sync + 'static {
    use autoreload::AutoReloader;
    use minijinja::Environment;
    move || {
        autoreload::notify::reset_registry();
        let events_delivered = StdArc::new(AtomicUsize::new(0));
        // harness-owned shared state (plain std atomics: not scheduling points, tasks run one at a time)
        let version = StdArc::new(AtomicUsize::new(0)); // bumped by every requester before its request
        let returned = StdArc::new(AtomicUsize::new(0)); // highest k whose request_reload() has returned
        let creator_calls = StdArc::new(AtomicUsize::new(0));
        let callback_trues = StdArc::new(AtomicUsize::new(0));
        let fresh_flag = StdArc::new(AtomicUsize::new(if cfg.variant == Variant::FreshnessCallback { 1 } else { 0 }));
        let requests_from_creator = StdArc::new(AtomicUsize::new(0));
        let (v2, cc2, ff2, ct2, rc2) = (version.clone(), creator_calls.clone(), fresh_flag.clone(), callback_trues.clone(), requests_from_creator.clone());
        let reloader = shuttle::sync::Arc::new(AutoReloader::new(move |notifier| {
            let stamp = v2.load(Ordering::SeqCst);
            let calls = cc2.fetch_add(1, Ordering::SeqCst) + 1;
            let mut env = Environment::new();
            env.add_global("stamp", stamp);
            if cfg.fast {
                notifier.set_fast_reload(true);
            }
            // templates carry the version at the time they are (lazily) loaded
            let v3 = v2.clone();
            // "late" comes into existence with version 1, "gone" disappears with it: what an environment
            // answered before a request (not found / found) is as stale as a template's content
            env.set_loader(move |name| {
                let v = v3.load(Ordering::SeqCst);
                Ok(match name {
                    "late" if v == 0 => None,
                    "gone" if v >= 1 => None,
                    _ => Some(format!("{}", v)),
                })
            });
            if cfg.variant == Variant::FreshnessCallback {
                let (ff3, ct3) = (ff2.clone(), ct2.clone());
                notifier.set_callback(move || {
                    // "stale" exactly once
                    if ff3.swap(0, Ordering::SeqCst) == 1 {
                        ct3.fetch_add(1, Ordering::SeqCst);
                        true
                    } else {
                        false
                    }
                });
            }
            match cfg.watch {
                Watch::Off => {}
                Watch::Transient => notifier.watch_path("tpl", true),
                Watch::Persistent => {
                    notifier.persistent_watch(true);
                    notifier.watch_path("tpl", true);
                }
            }
            if cfg.variant == Variant::CreatorPanicsOnce && calls == 2 {
                panic!("the creator panics once");
            }
            if cfg.variant == Variant::CreatorFailsOnce && calls == 2 {
                return Err(minijinja::Error::new(minijinja::ErrorKind::InvalidOperation, "the creator fails once"));
            }
            if cfg.variant == Variant::RequestFromCreator && calls == 1 {
                // a request that arrives while the rebuild is in progress
                rc2.fetch_add(1, Ordering::SeqCst);
                notifier.request_reload();
            }
            Ok(env)
        }));
        if cfg.prewarm {
            // start from a non-initial state: an environment from version 0 is cached already
            let g = reloader.acquire_env().expect("creator does not fail");
            // ... which has answered lookups already: one that was not found, one that was
            let _ = g.get_template("late");
            let _ = g.get_template("gone");
            drop(g);
        }
        let mut handles = vec![];
        for _ in 0..cfg.requesters {
            let (reloader, version, returned) = (reloader.clone(), version.clone(), returned.clone());
            handles.push(shuttle::thread::spawn(move || {
                let notifier = reloader.notifier();
                let k = version.fetch_add(1, Ordering::SeqCst) + 1;
                notifier.request_reload();
                returned.fetch_max(k, Ordering::SeqCst);
            }));
        }
        for _ in 0..cfg.fs_events {
            let (version, returned, events_delivered) = (version.clone(), returned.clone(), events_delivered.clone());
            handles.push(shuttle::thread::spawn(move || {
                // the file changes (its content is now version k) ...
                let k = version.fetch_add(1, Ordering::SeqCst) + 1;
                // ... and notify's event loop reports it to the handler of every live watcher of the path.
                // Only a notification that was delivered and has returned counts as a request.
                let n = autoreload::notify::deliver_change(std::path::Path::new("tpl"), EVENT_KINDS[cfg.kind].1);
                if n > 0 {
                    events_delivered.fetch_add(1, Ordering::SeqCst);
                    returned.fetch_max(k, Ordering::SeqCst);
                }
            }));
        }
        let observations: StdArc<StdMutex<Vec<(usize, usize)>>> = Default::default();
        for _ in 0..cfg.acquirers {
            let (reloader, returned, observations) = (reloader.clone(), returned.clone(), observations.clone());
            handles.push(shuttle::thread::spawn(move || {
                for _ in 0..cfg.acquires_each {
                    let r = returned.load(Ordering::SeqCst);
                    // (a rebuild that failed hands out nothing; the caller asks again)
                    let guard = if cfg.variant == Variant::CreatorPanicsOnce {
                        let attempt = || std::panic::catch_unwind(std::panic::AssertUnwindSafe(|| reloader.acquire_env().ok())).ok().flatten();
                        match attempt().or_else(attempt) {
                            Some(g) => g,
                            // nothing is handed out any more (the lock is poisoned): nothing stale either
                            None => return,
                        }
                    } else {
                        match reloader.acquire_env() {
                            Ok(g) => g,
                            Err(_) if cfg.variant == Variant::CreatorFailsOnce => reloader.acquire_env().expect("the creator fails only once"),
                            Err(e) => panic!("creator does not fail: {}", e),
                        }
                    };
                    let read = |g: &autoreload::EnvironmentGuard<'_>| -> usize {
                        if cfg.fast {
                            g.get_template("t").unwrap().render(()).unwrap().parse().unwrap()
                        } else {
                            g.render_str("{{ stamp }}", ()).unwrap().parse().unwrap()
                        }
                    };
                    let s = read(&guard);
                    let ident = &*guard as *const Environment<'static> as usize;
                    assert!(s >= r, "LOST RELOAD: request #{} had returned before acquire_env() was called but the environment handed out is from version {}", r, s);
                    // templates that appeared or disappeared before the request was made
                    let late: Option<usize> = guard.get_template("late").ok().map(|t| t.render(()).unwrap().parse().unwrap());
                    let gone: Option<usize> = guard.get_template("gone").ok().map(|t| t.render(()).unwrap().parse().unwrap());
                    if r >= 1 {
                        assert!(matches!(late, Some(x) if x >= r), "LOST RELOAD: request #{} had returned before acquire_env() was called but a template that exists since version 1 is answered with {:?}", r, late);
                        assert!(gone.is_none(), "LOST RELOAD: request #{} had returned before acquire_env() was called but a template that is gone since version 1 is still served (from version {:?})", r, gone);
                    }
                    // while the guard is held the environment is not replaced
                    shuttle::thread::yield_now();
                    let s2 = read(&guard);
                    let ident2 = &*guard as *const Environment<'static> as usize;
                    assert!(s2 == s && ident == ident2, "environment changed while a guard was held ({} -> {})", s, s2);
                    observations.lock().unwrap().push((r, s));
                    drop(guard);
                }
            }));
        }
        for h in handles {
            h.join().unwrap();
        }
        // after everything returned: the next acquire sees the last request
        {
            let r = returned.load(Ordering::SeqCst);
            let final_guard = if cfg.variant == Variant::CreatorPanicsOnce {
                let attempt = || std::panic::catch_unwind(std::panic::AssertUnwindSafe(|| reloader.acquire_env().ok())).ok().flatten();
                attempt().or_else(attempt)
            } else {
                Some(match reloader.acquire_env() {
                    Ok(g) => g,
                    Err(_) if cfg.variant == Variant::CreatorFailsOnce => reloader.acquire_env().expect("the creator fails only once"),
                    Err(e) => panic!("creator does not fail: {}", e),
                })
            };
            if let Some(guard) = final_guard {
            let s: usize = if cfg.fast { guard.get_template("t").unwrap().render(()).unwrap().parse().unwrap() } else { guard.render_str("{{ stamp }}", ()).unwrap().parse().unwrap() };
            assert!(s >= r, "LOST RELOAD at quiescence: last returned request #{} but final environment is from version {}", r, s);
            }
        }
        let calls = creator_calls.load(Ordering::SeqCst);
        let allowed = usize::from(cfg.variant == Variant::CreatorFailsOnce || cfg.variant == Variant::CreatorPanicsOnce) + 1 + cfg.requesters + events_delivered.load(Ordering::SeqCst) + usize::from(cfg.prewarm && cfg.variant == Variant::RequestFromCreator) + requests_from_creator.load(Ordering::SeqCst) + callback_trues.load(Ordering::SeqCst);
        assert!(calls <= allowed, "creator called {} times for {} requests (+{} from the creator, +{} freshness callbacks)", calls, cfg.requesters, requests_from_creator.load(Ordering::SeqCst), callback_trues.load(Ordering::SeqCst));
        if cfg.fast {
            assert!(calls == 1, "with fast reload the creator runs once, not {} times", calls);
        }
        let mut obs = observations.lock().unwrap().clone();
        obs.sort();
        let mut st = stats.lock().unwrap();
        st.executions += 1;
        if cfg.watch == Watch::Off {
            st.outcomes.insert(format!("calls={} obs={:?}", calls, obs));
        } else {
            st.outcomes.insert(format!("calls={} obs={:?} delivered={} watchers={}", calls, obs, events_delivered.load(Ordering::SeqCst), autoreload::notify::watchers_created()));
        }
    }
}

fn is_oracle_message(m: &str) -> bool {
    m.contains("LOST RELOAD") || m.contains("while a guard was held") || m.contains("creator called") || m.contains("with fast reload the creator runs once")
}

fn configs(tier: &str) -> Vec<(Cfg, usize)> {
    // (configuration, preemption bound)
    let mut v = vec![];
    let variants = [Variant::Plain, Variant::RequestFromCreator, Variant::FreshnessCallback];
    for prewarm in [false, true] {
    for fast in [false, true] {
        for variant in variants {
            for (r, a) in [(1, 1), (1, 2), (2, 1), (2, 2)] {
                // quick: 3 preemptions for two threads, 2 for three, 1 for four
                let bound = if tier == "thorough" { 3 } else { 5 - (r + a).max(2) };
                v.push((Cfg { requesters: r, acquirers: a, fast, variant, acquires_each: 1, prewarm, fs_events: 0, watch: Watch::Off, kind: 0 }, bound));
            }
            // one acquirer acquiring twice: request between two acquires of the same thread
            v.push((Cfg { requesters: 1, acquirers: 1, fast, variant, acquires_each: 2, prewarm, fs_events: 0, watch: Watch::Off, kind: 0 }, if tier == "thorough" { 4 } else { 3 }));
            if tier == "thorough" {
                // three requests / three acquires (the quantifier's upper end): all five thread mixes for
                // the plain protocol, the 3+3 mix for the variants
                for (r, a) in [(3, 1), (1, 3), (3, 2), (2, 3), (3, 3)] {
                    if (variant == Variant::Plain && !prewarm) || (r, a) == (3, 3) || (prewarm && variant == Variant::Plain && (r, a) == (1, 3)) {
                        v.push((Cfg { requesters: r, acquirers: a, fast, variant, acquires_each: 1, prewarm, fs_events: 0, watch: Watch::Off, kind: 0 }, 2));
                    }
                }
            }
        }
    }
    }
    // a rebuild that fails: the request it was made for is not used up by the failure - the next
    // successful acquire still hands out an environment created after it (full rebuilds only: with
    // fast reload the creator runs once)
    for prewarm in [true, false] {
        for (r, a, each) in [(1, 1, 1), (1, 1, 2), (1, 2, 1), (2, 1, 1), (2, 2, 1)] {
            let bound = if tier == "thorough" { 3 } else { 5 - (r + a).max(2) };
            v.push((Cfg { requesters: r, acquirers: a, fast: false, variant: Variant::CreatorFailsOnce, acquires_each: each, prewarm, fs_events: 0, watch: Watch::Off, kind: 0 }, bound));
        }
    }
    // file-change notifications: threads playing notify's event loop deliver events to the handler
    // closure the real source registers; a watcher only exists once an environment was created, so
    // the interesting start state is the prewarmed one (cold starts are included: events before the
    // first creation reach nobody and are not requests)
    for prewarm in [true, false] {
        for (fast, watch) in [(false, Watch::Transient), (false, Watch::Persistent), (true, Watch::Transient)] {
            for (w, r, a, each) in [(1, 0, 1, 1), (1, 0, 2, 1), (2, 0, 1, 1), (1, 1, 1, 1), (1, 0, 1, 2), (2, 0, 2, 1), (1, 1, 2, 1)] {
                let threads = w + r + a;
                let bound = if tier == "thorough" { if threads >= 4 { 2 } else { 3 } } else { 5 - threads.max(2) };
                if !prewarm && threads > 3 && tier != "thorough" {
                    continue;
                }
                v.push((Cfg { requesters: r, acquirers: a, fast, variant: Variant::Plain, acquires_each: each, prewarm, fs_events: w, watch, kind: 0 }, bound));
            }
            if prewarm {
                // every event kind the handler reacts to, and the freshness / creator-request variants
                for kind in 1..EVENT_KINDS.len() {
                    v.push((Cfg { requesters: 0, acquirers: 1, fast, variant: Variant::Plain, acquires_each: 1, prewarm, fs_events: 1, watch, kind }, if tier == "thorough" { 3 } else { 2 }));
                }
                for variant in [Variant::RequestFromCreator, Variant::FreshnessCallback] {
                    v.push((Cfg { requesters: 0, acquirers: 2, fast, variant, acquires_each: 1, prewarm, fs_events: 1, watch, kind: 0 }, 2));
                }
            }
        }
    }
    v
}

fn write_evidence(property: &str, tier: &str, seed: u64, coverage: J, assumptions: Vec<&str>, wall: f64, violations: usize) {
    let ev = json!({"property_id": property, "tier": tier, "seed": seed, "level": "model_checking", "coverage": coverage, "assumptions": assumptions, "wall_s": (wall * 1000.0).round() / 1000.0, "violations": violations});
    let _ = std::fs::create_dir_all("/verif/evidence");
    std::fs::write(format!("/verif/evidence/{}.json", property), serde_json::to_string_pretty(&ev).unwrap() + "\n").unwrap();
}

fn c20(tier: &str, seed: u64, replay_file: Option<String>) -> i32 {
    let start = Instant::now();
    // keep shuttle's own panic output quiet; failures are reported by us
    std::panic::set_hook(Box::new(|_| {}));
    let all = configs(tier);
    if let Some(p) = replay_file {
        let doc: J = serde_json::from_str(&std::fs::read_to_string(&p).expect("replay file")).expect("json");
        if doc["replay"]["fault_history"].is_string() {
            // the sequential fault histories are cheap: run them all and report the one asked for
            let want = doc["replay"]["fault_history"].as_str().unwrap();
            let (_, fails) = fault_histories(7);
            return match fails.iter().find(|(h, _)| h == want) {
                Some((h, why)) => {
                    println!("VIOLATION property=C20 replay={}  # fault history [{}] :: LOST RELOAD: {}", p, h, why);
                    1
                }
                None => {
                    println!("replay: history passes");
                    0
                }
            };
        }
        let name = doc["replay"]["config"].as_str().unwrap_or("");
        let Some((cfg, _)) = configs("thorough").into_iter().find(|(c, _)| c.name() == name) else {
            eprintln!("machinery error: unknown configuration {:?}", name);
            return 2;
        };
        let schedule: Vec<usize> = doc["replay"]["schedule"].as_array().unwrap().iter().map(|x| x.as_u64().unwrap() as usize).collect();
        let stats: StdArc<StdMutex<Stats>> = Default::default();
        return match replay(&schedule, c20_body(cfg, stats)) {
            Ok(()) => {
                println!("replay: schedule passes");
                0
            }
            Err(m) if is_oracle_message(&m) => {
                println!("VIOLATION property=C20 replay={}  # {}", p, m);
                1
            }
            Err(m) => {
                // the recorded schedule asks for a task that is not enabled: the code under test
                // no longer behaves as when the schedule was recorded; no assertion of the property failed
                println!("replay: the schedule does not apply to this tree ({}); no property assertion failed", m);
                0
            }
        };
    }
    // bound-major order: every configuration completes preemption bound b before any starts b + 1, so
    // that a run stopped by the overall deadline has a uniform coverage statement and the first
    // counterexample has the fewest preemptions
    let total_s: u64 = std::env::var("VERIF_SCHED_TOTAL_S").ok().and_then(|s| s.parse().ok()).unwrap_or(if tier == "thorough" { 1800 } else { 300 });
    *dfs::DEADLINE.lock().unwrap() = Some(start + std::time::Duration::from_secs(total_s));
    let max_bound = all.iter().map(|(_, b)| *b).max().unwrap_or(0);
    let mut jobs_list: Vec<(usize, usize)> = vec![];
    for b in 0..=max_bound {
        for (i, (_, bound)) in all.iter().enumerate() {
            if b <= *bound {
                jobs_list.push((i, b));
            }
        }
    }
    // per configuration: the last result, whether it must not be explored further, all outcomes
    let state: Vec<StdMutex<(Option<(usize, ExploreResult, Stats)>, bool, Stats)>> = all.iter().map(|_| StdMutex::new((None, false, Stats::default()))).collect();
    let in_flight: Vec<AtomicUsize> = all.iter().map(|_| AtomicUsize::new(0)).collect();
    let next = AtomicUsize::new(0);
    let total_sched = AtomicU64::new(0);
    let jobs = std::thread::available_parallelism().map(|n| n.get()).unwrap_or(4);
    std::thread::scope(|s| {
        for _ in 0..jobs {
            s.spawn(|| loop {
                let k = next.fetch_add(1, Ordering::SeqCst);
                if k >= jobs_list.len() {
                    break;
                }
                let (i, b) = jobs_list[k];
                // bound b of a configuration starts only after its bound b - 1 has finished
                while in_flight[i].load(Ordering::SeqCst) < b {
                    std::thread::sleep(std::time::Duration::from_millis(5));
                }
                let (cfg, _) = all[i];
                let skip = state[i].lock().unwrap().1 || Instant::now() >= start + std::time::Duration::from_secs(total_s);
                if !skip {
                    let stats: StdArc<StdMutex<Stats>> = Default::default();
                    let res = explore(b, c20_body(cfg, stats.clone()));
                    total_sched.fetch_add(res.schedules, Ordering::SeqCst);
                    let st = std::mem::take(&mut *stats.lock().unwrap());
                    let stop = res.failure.is_some() || res.divergence.is_some() || !res.exhausted;
                    let mut g = state[i].lock().unwrap();
                    g.2.outcomes.extend(st.outcomes.iter().cloned());
                    g.0 = Some((b, res, st));
                    g.1 = stop;
                }
                in_flight[i].store(b + 1, Ordering::SeqCst);
            });
        }
    });
    let results: StdMutex<Vec<(Cfg, usize, ExploreResult, Stats)>> = StdMutex::new(vec![]);
    let mut not_started: Vec<String> = vec![];
    for (i, st) in state.into_iter().enumerate() {
        let (last, _, all_outcomes) = st.into_inner().unwrap();
        match last {
            Some((b, res, mut stats)) => {
                stats.outcomes.extend(all_outcomes.outcomes);
                results.lock().unwrap().push((all[i].0, b, res, stats));
            }
            None => not_started.push(all[i].0.name()),
        }
    }
    let results = results.into_inner().unwrap();
    let mut violations = 0;
    let mut machinery = false;
    let mut outcomes_all: BTreeSet<String> = BTreeSet::new();
    let mut per_cfg = vec![];
    let mut max_depth = 0;
    let mut completed_bounds: BTreeMap<String, usize> = BTreeMap::new();
    let mut capped: Vec<String> = vec![];
    let _ = std::fs::remove_dir_all("/verif/replays/C20");
    for (cfg, bound, res, st) in &results {
        max_depth = max_depth.max(res.max_depth);
        for o in &st.outcomes {
            outcomes_all.insert(format!("{} {}", cfg.name(), o));
        }
        let target = all.iter().find(|(c, _)| c.name() == cfg.name()).map(|(_, b)| *b).unwrap_or(*bound);
        let completed: i64 = if res.exhausted && res.failure.is_none() { *bound as i64 } else { *bound as i64 - 1 };
        per_cfg.push(json!({"config": cfg.name(), "preemption_bound_target": target, "preemption_bound_completed": completed, "last_bound_explored": bound, "schedules_at_last_bound": res.schedules, "distinct_outcomes": st.outcomes.len(), "last_bound_exhausted": res.exhausted}));
        completed_bounds.insert(cfg.name(), completed.max(0) as usize);
        if res.exhausted && res.failure.is_none() && *bound < target {
            capped.push(format!("{} stopped after preemption bound {} of {} (overall deadline)", cfg.name(), bound, target));
        }
        if !res.exhausted && res.failure.is_none() {
            capped.push(format!("{} at preemption bound {} ({} schedules explored)", cfg.name(), bound, res.schedules));
        }
        if let Some(d) = &res.divergence {
            eprintln!("machinery error: schedule replay diverged in {}: {}", cfg.name(), d);
            machinery = true;
        }
        if let Some((msg, schedule)) = &res.failure {
            // determinism rule: the recorded schedule must fail again, twice, with the same message
            let s1 = replay(schedule, c20_body(*cfg, Default::default()));
            let s2 = replay(schedule, c20_body(*cfg, Default::default()));
            if s1.is_ok() || s1 != s2 {
                eprintln!("machinery error: failing schedule does not replay deterministically in {}: {:?} / {:?}", cfg.name(), s1, s2);
                machinery = true;
                continue;
            }
            violations += 1;
            let _ = std::fs::create_dir_all("/verif/replays/C20");
            let path = format!("/verif/replays/C20/{}.json", cfg.name().replace(' ', "_"));
            let doc = json!({"property": "C20", "key": format!("reload {} {}", if msg.contains("LOST RELOAD") { "lost_request" } else if msg.contains("guard") { "env_replaced_under_guard" } else if msg.contains("creator") { "creator_call_count" } else { "other" }, if cfg.fast { "fast" } else { "rebuild" }),
                "case": cfg.name(), "detail": msg, "replay": {"config": cfg.name(), "schedule": schedule, "preemption_bound": bound}});
            std::fs::write(&path, serde_json::to_string_pretty(&doc).unwrap()).unwrap();
            println!("VIOLATION property=C20 replay={}  # config=[{}] preemptions<={} schedule_len={} :: {}", path, cfg.name(), bound, schedule.len(), msg);
        }
    }
    if machinery {
        return 2;
    }
    // sequential fault histories (real crate, no scheduler)
    let (n_hist, hist_failures) = fault_histories(if tier == "thorough" { 7 } else { 5 });
    for (hi, (hist, why)) in hist_failures.iter().enumerate() {
        violations += 1;
        if hi < 8 {
            let _ = std::fs::create_dir_all("/verif/replays/C20");
            let path = format!("/verif/replays/C20/fault_history_{}.json", hi);
            let doc = json!({"property": "C20", "key": "reload lost_request fault_history", "case": hist, "detail": why, "replay": {"fault_history": hist}});
            std::fs::write(&path, serde_json::to_string_pretty(&doc).unwrap()).unwrap();
            println!("VIOLATION property=C20 replay={}  # fault history [{}] :: LOST RELOAD: {}", path, hist, why);
        }
    }
    for n in &not_started {
        capped.push(format!("{} not started (overall deadline)", n));
    }
    let schedules = total_sched.load(Ordering::SeqCst);
    let coverage = json!({
        "states": schedules, // every complete schedule is one explored execution (stateless search)
        "transitions": results.iter().map(|(_, _, r, _)| r.schedules * r.max_depth as u64).sum::<u64>(),
        "traces_validated_against_impl": schedules,
        "evaluations": schedules,
        "distinct_nontrivial": outcomes_all.len(),
        "schedules_explored": schedules,
        "max_schedule_length": max_depth,
        "distinct_observed_outcomes": outcomes_all.len(),
        "configurations": per_cfg,
        "fault_histories": n_hist,
        "fault_histories_rule": "every sequence of up to 5 (thorough 7) operations out of {request, acquire, acquire while the creator returns an error, acquire while the creator panics and the caller catches it} on the real crate, with full rebuilds and with fast reload; an environment handed out after request k returned must be of version >= k",
        "exhaustive": capped.is_empty(),
        "wall_cap_hit": capped,
        "rule": "stateless DFS over all schedules of the real (source-swapped) auto-reloader with at most k preemptions, k iterated 0..=bound per configuration; scheduling points are all shuttle Mutex operations, spawn, join and yield; every execution runs to completion. states = complete schedules explored; the implementation itself is executed under every schedule (there is no separate model), so every schedule is a trace validated against the implementation. distinct non-trivial = distinct (configuration, creator-call count, multiset of (requests returned before acquire, version seen)) outcomes",
        "samples": [
            {"config": results[0].0.name(), "outcomes": results[0].3.outcomes.iter().take(5).collect::<Vec<_>>()},
            {"config": results[results.len() / 2].0.name(), "outcomes": results[results.len() / 2].3.outcomes.iter().take(5).collect::<Vec<_>>()}
        ],
    });
    write_evidence(
        "C20",
        tier,
        seed,
        coverage,
        vec![
            "shuttle models every atomic as sequentially consistent and runs tasks one at a time; Arc/Weak reference counts are not scheduling points",
            "the notify crate is replaced by a stub whose event delivery is a harness thread: the handler closure is the real source's, the inotify machinery is not; an event is delivered to watchers alive when the delivery starts",
            "creators that fail are driven in 10 scheduled configurations (error) and in the sequential fault histories (error and caught panic); a panic inside a scheduled task is not explored under the scheduler (it leaves shuttle's per-process state unusable for later executions)",
        ],
        start.elapsed().as_secs_f64(),
        violations,
    );
    eprintln!("[C20] tier={} configurations={} schedules={} distinct_outcomes={} violations={} wall={:.1}s", tier, results.len(), schedules, outcomes_all.len(), violations, start.elapsed().as_secs_f64());
    if violations > 0 {
        1
    } else {
        0
    }
}

// ---------------------------------------------------------------------------------------------
// sequential fault histories on the real (unswapped) crate: every sequence of up to `depth` operations
// out of {request, acquire, acquire while the creator fails, acquire while the creator panics (caught by
// the caller)}.  No interleaving is involved, so plain OS code runs them; the oracle is the one of the
// schedules: an environment handed out after request k has returned carries a version >= k, and an
// acquire that hands out nothing is no violation.
fn fault_histories(depth: usize) -> (u64, Vec<(String, String)>) {
    use minijinja_autoreload::AutoReloader;
    let ops = ["request", "acquire", "acquire_creator_fails", "acquire_creator_panics"];
    let mut failures = vec![];
    let mut n_hist = 0u64;
    let hook = std::panic::take_hook();
    std::panic::set_hook(Box::new(|_| {}));
    for fast in [false, true] {
        for d in 1..=depth {
            for code in 0..ops.len().pow(d as u32) {
                let mut hist = vec![];
                let mut k = code;
                for _ in 0..d {
                    hist.push(ops[k % ops.len()]);
                    k /= ops.len();
                }
                n_hist += 1;
                let version = StdArc::new(AtomicUsize::new(0));
                let mode = StdArc::new(AtomicUsize::new(0)); // 0 ok, 1 creator fails, 2 creator panics
                let (v2, m2) = (version.clone(), mode.clone());
                let reloader = AutoReloader::new(move |notifier| {
                    match m2.load(Ordering::SeqCst) {
                        1 => return Err(minijinja::Error::new(minijinja::ErrorKind::InvalidOperation, "creator fails")),
                        2 => panic!("creator panics"),
                        _ => {}
                    }
                    if fast {
                        notifier.set_fast_reload(true);
                    }
                    let mut env = minijinja::Environment::new();
                    let v3 = v2.clone();
                    env.set_loader(move |_| Ok(Some(format!("{}", v3.load(Ordering::SeqCst)))));
                    Ok(env)
                });
                let mut returned = 0usize;
                let mut problem = None;
                for (i, op) in hist.iter().enumerate() {
                    match *op {
                        "request" => {
                            returned = version.fetch_add(1, Ordering::SeqCst) + 1;
                            reloader.notifier().request_reload();
                        }
                        acq => {
                            mode.store(match acq { "acquire_creator_fails" => 1, "acquire_creator_panics" => 2, _ => 0 }, Ordering::SeqCst);
                            let got = std::panic::catch_unwind(std::panic::AssertUnwindSafe(|| {
                                reloader.acquire_env().ok().map(|g| g.get_template("t").unwrap().render(()).unwrap().parse::<usize>().unwrap())
                            }));
                            mode.store(0, Ordering::SeqCst);
                            if let Ok(Some(stamp)) = got {
                                if stamp < returned {
                                    problem = Some(format!("step {} ({}): request #{} had returned but the environment handed out is from version {}", i + 1, acq, returned, stamp));
                                    break;
                                }
                            }
                        }
                    }
                }
                if let Some(p) = problem {
                    failures.push((format!("{} {}", if fast { "fast" } else { "rebuild" }, hist.join(" ; ")), p));
                }
            }
        }
    }
    std::panic::set_hook(hook);
    (n_hist, failures)
}

fn main() {
    let argv: Vec<String> = std::env::args().collect();
    let mut tier = std::env::var("VERIF_TIER").unwrap_or_else(|_| "quick".into());
    let seed: u64 = std::env::var("VERIF_SEED").ok().and_then(|s| s.parse().ok()).unwrap_or(0);
    let mut replay_file = None;
    let mut i = 2;
    while i < argv.len() {
        match argv[i].as_str() {
            "--tier" => {
                i += 1;
                tier = argv.get(i).cloned().unwrap_or_default();
            }
            "--replay" => {
                i += 1;
                replay_file = argv.get(i).cloned();
            }
            _ => {}
        }
        i += 1;
    }
    let code = match argv.get(1).map(|s| s.as_str()) {
        Some("c20") => c20(&tier, seed, replay_file),
        _ => {
            eprintln!("usage: sched c20 [--tier quick|thorough] [--replay file]");
            2
        }
    };
    std::process::exit(code);
}
