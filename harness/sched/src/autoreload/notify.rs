//! A stand-in for the `notify` crate, just large enough for the `watch-fs` items of the real
//! minijinja-autoreload source to compile against it unchanged.  The watcher's event handler (the
//! closure the *real* source passes to `recommended_watcher`) is kept in a registry that belongs to
//! the current execution, so that a harness thread can play the part of notify's event-loop thread
//! and deliver a file-change event at a point the explorer chooses.  The handler sits behind a
//! shuttle mutex: delivering an event is a scheduling point of its own.
use std::cell::RefCell;
use std::path::{Path, PathBuf};
use std::sync::atomic::{AtomicBool, Ordering};
use std::sync::{Arc as StdArc, Mutex as StdMutex};

pub type Result<T> = std::result::Result<T, Error>;

#[derive(Debug)]
pub struct Error;

pub struct Event {
    pub kind: event::EventKind,
}

pub mod event {
    #[allow(dead_code)]
    pub enum EventKind {
        Any,
        Access(()),
        Create(()),
        Modify(ModifyKind),
        Remove(()),
        Other,
    }
    #[allow(dead_code)]
    pub enum ModifyKind {
        Any,
        Data(()),
        Metadata(()),
        Name(()),
        Other,
    }
}

#[allow(dead_code)]
pub enum RecursiveMode {
    Recursive,
    NonRecursive,
}

pub trait Watcher {
    fn watch(&mut self, path: &Path, mode: RecursiveMode) -> Result<()>;
    fn unwatch(&mut self, path: &Path) -> Result<()>;
}

pub struct WatcherInner {
    handler: shuttle::sync::Mutex<Box<dyn FnMut(Result<Event>) + Send + 'static>>,
    alive: AtomicBool,
    watched: StdMutex<Vec<PathBuf>>,
}

pub struct RecommendedWatcher {
    inner: StdArc<WatcherInner>,
}

thread_local! {
    // shuttle runs all tasks of one execution on the OS thread that called the runner, so a std
    // thread-local is per exploration worker and shared by the tasks of one execution
    static WATCHERS: RefCell<Vec<StdArc<WatcherInner>>> = const { RefCell::new(Vec::new()) };
}

/// Called by the harness at the start of every execution.
pub fn reset_registry() {
    WATCHERS.with(|w| w.borrow_mut().clear());
}

pub fn watchers_created() -> usize {
    WATCHERS.with(|w| w.borrow().len())
}

pub fn recommended_watcher<F>(handler: F) -> Result<RecommendedWatcher>
where
    F: FnMut(Result<Event>) + Send + 'static,
{
    let inner = StdArc::new(WatcherInner { handler: shuttle::sync::Mutex::new(Box::new(handler)), alive: AtomicBool::new(true), watched: StdMutex::new(Vec::new()) });
    WATCHERS.with(|w| w.borrow_mut().push(inner.clone()));
    Ok(RecommendedWatcher { inner })
}

impl Watcher for RecommendedWatcher {
    fn watch(&mut self, path: &Path, _mode: RecursiveMode) -> Result<()> {
        self.inner.watched.lock().unwrap().push(path.to_path_buf());
        Ok(())
    }
    fn unwatch(&mut self, path: &Path) -> Result<()> {
        self.inner.watched.lock().unwrap().retain(|p| p != path);
        Ok(())
    }
}

impl Drop for RecommendedWatcher {
    fn drop(&mut self) {
        // notify stops watching when the watcher is dropped
        self.inner.alive.store(false, Ordering::SeqCst);
    }
}

/// The event loop's part: a change of `path` is reported to every watcher that is alive and watches
/// it.  Returns how many handlers were invoked (and have returned).
pub fn deliver_change(path: &Path, kind: fn() -> event::EventKind) -> usize {
    let ws: Vec<StdArc<WatcherInner>> = WATCHERS.with(|w| w.borrow().clone());
    let mut n = 0;
    for w in ws {
        if !w.alive.load(Ordering::SeqCst) || !w.watched.lock().unwrap().iter().any(|p| p == path) {
            continue;
        }
        let mut h = w.handler.lock().unwrap(); // scheduling point
        (h)(Ok(Event { kind: kind() }));
        n += 1;
    }
    n
}
