//! Source swap: the real minijinja-autoreload source is compiled into this crate with its
//! `std::sync` primitives replaced by shuttle's scheduled ones, so that every Mutex operation of
//! the code under test is a scheduling point of the explorer -- however the source is edited.
use std::{env, fs, path::PathBuf};

fn main() {
    let src_path = "/repo/minijinja-autoreload/src/lib.rs";
    println!("cargo:rerun-if-changed={}", src_path);
    let src = fs::read_to_string(src_path).expect("autoreload source");
    let mut out = String::new();
    for line in src.lines() {
        let t = line.trim_start();
        // inner attributes and inner doc comments are not allowed in an included module body
        if t.starts_with("#![") || t.starts_with("//!") {
            continue;
        }
        out.push_str(&line.replace("std::sync::", "shuttle::sync::"));
        out.push('\n');
    }
    assert!(out.contains("shuttle::sync::"), "the autoreload source no longer imports std::sync: the swap found nothing to replace");
    assert!(!out.contains("std::sync"), "unswapped std::sync path left in the autoreload source");
    let dest = PathBuf::from(env::var("OUT_DIR").unwrap()).join("autoreload_swapped.rs");
    fs::write(dest, out).unwrap();
}
