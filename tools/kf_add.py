#!/usr/bin/env python3
"""kf_add.py <property> <what> [<key-substring>...]  — developer tool (never run by checks):
adds to known_findings.json every violation class currently under replays/<property>/ whose key
contains one of the substrings (all classes when none given), with the failing case names of the
run that produced the replay files. Existing entries with the same key get their cases unioned."""
import json, sys, glob, os
prop, what, subs = sys.argv[1], sys.argv[2], sys.argv[3:]
kf_path = '/verif/known_findings.json'
kf = json.load(open(kf_path))
for f in sorted(glob.glob(f'/verif/replays/{prop}/*.json')):
    d = json.load(open(f))
    key = d['key']
    if subs and not any(s in key for s in subs):
        continue
    cases = [l.rstrip('\n') for l in open(f[:-5] + '.cases.txt') if l.strip()]
    ex = next((e for e in kf['findings'] if e['property'] == prop and e['key'] == key), None)
    if ex:
        ex['cases'] = sorted(set(ex.get('cases', [])) | set(cases))
        print('updated', key, len(ex['cases']))
    else:
        kf['findings'].append({"property": prop, "key": key, "what": what, "witness": f"{d['case']} :: {d['detail'][:300]}", "cases": sorted(cases)})
        print('added', key, len(cases))
json.dump(kf, open(kf_path, 'w'), indent=1)
open(kf_path, 'a').write('\n')
