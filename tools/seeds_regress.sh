#!/bin/bash
# tools/seeds_regress.sh [seed-id...] — developer tool: applies each seeded change under /verif/seeded to
# /repo, runs the quick tier of the property it breaks (the id's prefix) and reverts.  Prints one line
# per seed: CAUGHT (exit 1 with a VIOLATION line), MISSED (exit 0) or MACHINERY (anything else).
cd /verif || exit 2
if [ -n "$(git -C /repo status --porcelain)" ]; then echo "/repo not clean"; exit 2; fi
SEEDS=("$@"); [ ${#SEEDS[@]} -eq 0 ] && SEEDS=($(ls seeded))
miss=0
for id in "${SEEDS[@]}"; do
  prop="${id%%-*}"
  if ! git -C /repo apply "/verif/seeded/$id/patch.diff" 2>/dev/null; then echo "$id: PATCH DOES NOT APPLY"; miss=$((miss+1)); continue; fi
  out="$(./check "$prop" --tier quick 2>&1)"; rc=$?
  git -C /repo checkout -- . 
  n=$(echo "$out" | grep -c "^VIOLATION")
  if [ $rc -eq 1 ] && [ "$n" -gt 0 ]; then echo "$id: CAUGHT by $prop ($n classes)"; elif [ $rc -eq 0 ]; then echo "$id: MISSED by $prop"; miss=$((miss+1)); else echo "$id: MACHINERY rc=$rc"; miss=$((miss+1)); fi
done
echo "not caught: $miss of ${#SEEDS[@]}"
