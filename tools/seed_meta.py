#!/usr/bin/env python3
"""tools/seed_meta.py <seed-id> <round> <files,comma> <caught:yes|no> <defect> <needs> <result> <strengthening> [features]
Writes seeded/<id>/meta.json."""
import json, sys, glob, os
sid, rnd, files, caught, defect, needs, result, strength = sys.argv[1:9]
feat = sys.argv[9] if len(sys.argv) > 9 else ""
d = f'/verif/seeded/{sid}'
demo = [os.path.basename(p) for p in glob.glob(d + '/demo_*')]
m = {
 "seed_id": sid, "round": int(rnd), "breaks_property": sid.split('-')[0], "source_files": files.split(','),
 "defect": defect, "needs_to_manifest": needs,
 "confirmed": {"existing_suite_with_change": "cargo test --workspace --no-fail-fast --offline in a scratch worktree: 434 passed, 0 failed",
               "demo_with_change": "fails", "demo_without_change": "passes",
               "how": "tools/seed_verify.sh (worktree under /tmp, removed afterwards)" + (f"; demo needs --features {feat}" if feat else "")},
 "checks_run": "git -C /repo apply patch.diff; ./check %s --tier quick; git -C /repo checkout -- .  (tools/seed_try.sh; tools/seeds_regress.sh repeats this for every seed)" % sid.split('-')[0],
 "result": result, "strengthening": strength, "caught_at_first": caught == "yes",
 "demonstration": demo[0] if demo else None,
 "origin": "independent sub-agent given only the property record and a scratch worktree (told the defect and trigger of every earlier seeded change for this property and asked for a different mechanism, location and trigger; hinted at feature interactions, second uses, host-supplied values, Environment settings, cargo features, rare entry points and hand-over boundaries)"
}
json.dump(m, open(d + '/meta.json', 'w'), indent=1); open(d + '/meta.json', 'a').write('\n')
print("wrote", d + '/meta.json')
