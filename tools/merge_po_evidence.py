#!/usr/bin/env python3
"""merge_po_evidence.py <ID>: folds evidence/<ID>.po.json (the run of the preserve_order build) into
evidence/<ID>.json and removes it.  Called by ./check for C07 and C16."""
import json, os, sys
pid = sys.argv[1].upper()
main_p, po_p = f'/verif/evidence/{pid}.json', f'/verif/evidence/{pid}.po.json'
if not os.path.exists(po_p):
    sys.exit(0)  # replay of a single case: no evidence written
po = json.load(open(po_p))
if not os.path.exists(main_p):
    sys.exit(0)
ev = json.load(open(main_p))
c = po.get('coverage', {})
ev['coverage']['preserve_order_build'] = {k: c[k] for k in ('evaluations', 'distinct_nontrivial', 'distinct_observed_outcomes', 'outcomes', 'exhaustive') if k in c}
ev['coverage']['preserve_order_build']['violations'] = po.get('violations', 0)
ev['coverage']['preserve_order_build']['wall_s'] = po.get('wall_s', 0)
ev['coverage']['preserve_order_build']['rule'] = 'the same enumeration run on a second build of the harness with minijinja\'s preserve_order (IndexMap-backed maps), unicode, speedups (v_htmlescape) and stacker features'
ev['violations'] = ev.get('violations', 0) + po.get('violations', 0)
ev['wall_s'] = round(ev.get('wall_s', 0) + po.get('wall_s', 0), 3)
json.dump(ev, open(main_p, 'w'), indent=1)
open(main_p, 'a').write('\n')
os.remove(po_p)
