#!/usr/bin/env python3
"""tools/seed_prompts.py <round> <outdir> [ids...]
Writes one prompt per property for an independent seeding sub-agent: the property record, the
mechanisms earlier seeded changes for that property used (so that the agent picks another), and the
deliverables.  Nothing else from /verif goes into the prompt."""
import json, os, sys, glob

rnd, outdir = sys.argv[1], sys.argv[2]
want = set(sys.argv[3:])
os.makedirs(outdir, exist_ok=True)
props = [json.loads(l) for l in open('/verif/properties.jsonl')]
used = {}
for m in sorted(glob.glob('/verif/seeded/*/meta.json')):
    j = json.load(open(m))
    used.setdefault(j['breaks_property'], []).append(
        "- %s (files: %s); needed: %s" % (j.get('defect', '?'), ', '.join(j.get('source_files', [])), j.get('needs_to_manifest', '?')))

HINTS = """Directions that earlier changes have not used much and that you may find productive (pick what fits
the property; do not feel bound by the list): interactions of two features that are each fine alone;
a second use of an object after a first use changed its internal state; values that reach the engine
only from the embedding program (custom Object / Serialize implementations, Value::from_* constructors,
callbacks set on the Environment); settings combinations of the Environment (syntax, whitespace
options, undefined behaviour, auto-escape callback, formatter, fuel, recursion limit, path join
callback, unknown-method callback, keep_trailing_newline, debug) ; cargo features that are on by
default or in the test build (e.g. `loader`, `multi_template`, `macros`, `builtins`, `json`, `urlencode`,
`loop_controls`, `fuel`, `custom_syntax`, `unicode`, `preserve_order`, `speedups`, `stacker`, `serde`,
`deserialization`, `adjacent_loop_items`, `debug`); the less travelled public entry points
(`render_str`, `render_named_str`, `compile_expression`, `Expression::eval`, `render_captured`,
`eval_to_state`, `State::render_block`, `State::call_macro`, `State::lookup`, `State::exports`,
`Template::new_state`, `render_to_write`, `Value::call`, `Value::call_method`, `context!` merging,
`minijinja-contrib` filters/globals and pycompat methods, `minijinja-cli`); boundaries where one
code path hands over to another (small vs large, inline vs heap, first vs later iteration, cached
vs fresh, sized vs unsized, owned vs borrowed, ASCII vs multi-byte, 64-bit vs 128-bit)."""

for p in props:
    pid = p['id']
    if want and pid not in want:
        continue
    wt = "/tmp/seed%s/%s" % (rnd, pid)
    prior = "\n".join(used.get(pid, [])) or "(none)"
    rec = {k: p[k] for k in ('id', 'title', 'statement', 'quantifier', 'why_tests_cant', 'anchors')}
    txt = f"""You are helping to evaluate a verification framework for the Rust template engine MiniJinja
(mitsuhiko/minijinja).  Your job is to play a careless-but-plausible maintainer: produce ONE realistic
source change that BREAKS the property below while the code still compiles and the repository's
existing test suite still passes, plus a small demonstration that exposes the breakage.

Your scratch copy of the repository is the git worktree {wt} (already created, clean, at the
pinned commit).  Work ONLY inside that directory.  Do not read or write /repo, /verif or anything
else outside your worktree (the cargo registry is used implicitly by cargo; that is fine).  There is
no network: always pass --offline to cargo (or set CARGO_NET_OFFLINE=true).  Use
CARGO_TARGET_DIR={wt}/target so that your build output stays inside your worktree.

THE PROPERTY (JSON record; `statement` is what must hold, `anchors` say where it lives in the code):

{json.dumps(rec, indent=1)}

WHAT KIND OF CHANGE IS WANTED

* A change a maintainer could plausibly make (an "optimisation", a refactoring, a "simplification", a
  new fast path, a cache, a reordered step, an off-by-one, a wrong boundary, a missing state reset) -
  not sabotage that looks deliberate, not a change to tests, build files, features or docs, no new
  dependencies.  Keep it small (typically 1-30 lines, one or two sites).
* It must make the STATEMENT above false for at least one input / history / schedule within the
  property's quantifier, observable through the public API of the crates in the workspace.
* It must need something SPECIFIC to manifest: a particular multi-step sequence of operations, an
  unusual input or argument boundary, a particular interleaving of threads, a fault at a particular
  point, a rare combination of settings, or two cooperating sites that each look fine alone.  Ordinary
  use must NOT expose it at once - in particular the whole existing test suite must still pass:
      cd {wt} && CARGO_TARGET_DIR={wt}/target cargo test --workspace --no-fail-fast --offline
  (run it, with your change applied, and make sure there are 0 failures; this takes a few minutes.
  Snapshot tests under minijinja/tests/ count - do not edit any snapshot or test input).
* Changes of this kind were already made for this property in earlier rounds.  Choose a DIFFERENT
  mechanism, a different code location and a different trigger from all of these:
{prior}

{HINTS}

DELIVERABLES (all in the root of {wt}):

1. `patch.diff`  - exactly the output of `git diff` in the worktree for your source change (tracked
   source files only; leave the change applied in the worktree as well).  Do not commit.
2. `demo_{pid.lower()}.rs` - a self-contained Rust integration-test file (one or more `#[test]` functions,
   using only the public API of the workspace crates and std; no new dependencies beyond what the
   crate's [dev-dependencies] already offer) that, when copied to `<crate-dir>/tests/` of the crate it
   exercises, FAILS with your change and PASSES without it.  It must state the property violation as an
   assertion about observable behaviour (output text, returned error, panic/crash, bytes read, ...),
   not about internals.  If it needs cargo features, say which.  Verify both directions yourself:
   run it with the change (fails), `git apply -R patch.diff`, run it again (passes), `git apply patch.diff`.
   For multi-threaded demonstrations make the schedule deterministic if at all possible (barriers,
   callbacks that block, hooks in a loader/creator closure); if the failure needs a race, loop enough
   times that it fails reliably and say so.
3. `NOTES.md` - what you changed and why it looks plausible; why it breaks the statement; exactly what
   is needed for it to manifest; the crate directory the demo belongs to (e.g. `minijinja`,
   `minijinja-autoreload`, `minijinja-contrib`) and the cargo features the demo needs; the result of
   the full test suite with the change (numbers passed/failed); anything else you noticed on the way -
   in particular behaviour of the UNMODIFIED code that already seems to violate the property (give the
   exact input); that is valuable.

When done, remove the demo copy you placed under `<crate-dir>/tests/` (keep only the one in the
worktree root), leave the source change applied, and reply with a short summary: files changed, the
trigger, crate dir + features for the demo, suite result.
"""
    open(os.path.join(outdir, pid + '.txt'), 'w').write(txt)
    print(pid, len(txt))
