#!/bin/bash
# Runs the repository's own test suite (hooks guard OFF: no extra features) and prints a summary.
# Usage: tools/baseline.sh [repo-dir]
REPO="${1:-/repo}"
cd "$REPO" || exit 2
export CARGO_NET_OFFLINE=true
OUT="$(mktemp)"
cargo test --workspace --no-fail-fast --offline >"$OUT" 2>&1
rc=$?
passed=$(grep -E "^test result:" "$OUT" | sed -E 's/.* ([0-9]+) passed.*/\1/' | paste -sd+ | bc)
failed=$(grep -E "^test result:" "$OUT" | sed -E 's/.* ([0-9]+) failed.*/\1/' | paste -sd+ | bc)
echo "baseline: passed=$passed failed=$failed cargo_exit=$rc"
if [ "$rc" -ne 0 ] || [ "${failed:-1}" -ne 0 ]; then grep -E "^test .* FAILED|panicked|^error" "$OUT" | head -40; rm -f "$OUT"; exit 1; fi
rm -f "$OUT"
exit 0
