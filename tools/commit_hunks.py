#!/usr/bin/env python3
"""commit_hunks.py <repo> list              -> numbered hunks of the working-tree diff
   commit_hunks.py <repo> commit "<msg>" 0 2 5   -> stage exactly those hunks and commit"""
import subprocess, sys, re, tempfile
repo = sys.argv[1]
diff = subprocess.run(["git", "-C", repo, "diff", "-U3"], capture_output=True, text=True).stdout
files = re.split(r'(?m)^(?=diff --git )', diff)
hunks = []
for f in files:
    if not f.strip():
        continue
    parts = re.split(r'(?m)^(?=@@ )', f)
    header = parts[0]
    for h in parts[1:]:
        hunks.append((header, h))
if sys.argv[2] == "list":
    for i, (hd, h) in enumerate(hunks):
        print(f"--- hunk {i}: {hd.splitlines()[0]}")
        print(h)
else:
    msg = sys.argv[3]
    sel = [int(x) for x in sys.argv[4:]]
    out = ""
    last = None
    for i in sel:
        hd, h = hunks[i]
        if hd != last:
            out += hd
            last = hd
        out += h
    with tempfile.NamedTemporaryFile("w", suffix=".diff", delete=False) as t:
        t.write(out)
    subprocess.run(["git", "-C", repo, "apply", "--cached", "--recount", t.name], check=True)
    subprocess.run(["git", "-C", repo, "-c", "user.name=builder", "-c", "user.email=builder@example.com", "commit", "-q", "-m", msg], check=True)
    print(subprocess.run(["git", "-C", repo, "log", "--oneline", "-1"], capture_output=True, text=True).stdout)
