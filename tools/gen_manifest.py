#!/usr/bin/env python3
"""Writes /verif/MANIFEST.json from the table below and validates it against the schema.
A property is claimed only when its check exists, passes on the tree it should pass on and
has been seen to fire on a seeded mutation; everything else is listed under not_applicable
with the reason (usually: not built yet)."""
import json, subprocess, sys, os

ALL = ["C%02d" % i for i in range(1, 21)]

# id -> dict(level, technique, text, note, design_ref, engine)
CHECKS = {
    "C02": dict(
        level="exploration",
        engine="E1-enum",
        technique="bounded-exhaustive enumeration of data paths (carrier chains with an exact oracle, filter/method/operator compositions over tainted and already-escaped atoms with a taint oracle, the ranked program space against a reference interpreter that tracks a safe bit)",
        text="Three families under *.html / *.xml names, none using `safe`, `autoescape false` or a markup-returning function. F1: 9 sources (context string holding all of < > \" ' &, two literals, list, map, nested, object, int, list display) flow through every chain of k <= 2 (thorough 3) of 24 identity carriers (set, set block, macro argument, macro closure, call block, caller argument, filter block, include, loop, namespace, if expression, if statement, list/map round trip, first, with, block + self.block(), from-import, import-as, autoescape block, e, string, single-item join, default) in 6 layouts (flat html, flat xml, child block, included template, loop body, macro body) and are printed; the output must equal the source text escaped exactly once. F2: 233 value expressions over tainted strings, captured (already escaped) strings, lists, maps, nested containers, an object, and their concatenations, repetitions, subscripts, slices, displays, dict()/namespace()/cycler() round trips x every registered filter except `safe` (54, discovered at run time, contrib included) in three application forms and 27 pycompat methods x every argument tuple of arity <= 2 over 11 atoms and 16 keyword names, then every ordered filter pair with arity <= 1: no raw < > \" ' may reach the output (tojson: no raw < > '). F3: every depth-1 and depth-2 program of G under t.html over 2 tainted contexts must render without a raw metacharacter and identically to R (which escapes non-safe values on output and marks captures safe), and the include/extends/import corpus must render without a raw metacharacter. F4: 864 spellings of an HTML / XML template name (dotted directories and stems, dot files, other extensions in front, .j2 / .jinja / .jinja2 behind) in 6 roles (main template, with captures, included fragment, imported macro library, layout of a child, child of a layout) with the exact escaped-once oracle.",
        note="Double escaping after a transformation of a captured value (concatenation, slicing, a filter returning a plain string) is counted as an outcome, not judged. 90% of the F2 compositions are argument errors; the histogram in the evidence file shows how many rendered with tainted text.",
        design_ref="2/C02",
    ),
    "C06": dict(
        level="exploration",
        engine="E1-enum",
        technique="bounded-exhaustive enumeration of inheritance chains x per-level block assignments x extends forms against an independent block resolver; enumerated include/import/error cases under a wall cap",
        text="Every chain of 1..3 (thorough 4) templates in which each non-root template gives each block of {a, b nested in a, c} one of {absent, override, super() before, override around super(), super() twice} (125 assignments per level; 3.1e4 chains of length 3 quick, 3.9e6 of length 4 thorough), with and without block c in the root, with the most derived template extending by static name, by a name from the context, inside a taken if and inside a not-taken if, is rendered - directly and, for chains up to length 2 (thorough 3), in 11 further ways (twice from the block of an extending host whose names sort before or after the chain's; included at top level, in a child block, in a macro called twice, in a loop body; include captured by a set block in a plain host and at the top level of an extending host, there also below a filter block and below a call block) - and compared with a 60-line resolver (most derived definition wins, super() moves a per-block cursor to the next definition, nested block tags render the most derived definition, text outside blocks of extending templates is discarded, super() without a parent fails). 50 hand-written cases cover include placements (top level, loop, macro, block, with, child block), name forms (string, list with missing entries, missing with/without ignore missing, dynamic, non-string), what an import exposes, and the error family (extends/include cycles of length 1..3, double extends, missing parent, super() without parent or outside a block, required blocks, self.block()), each under a 10 s wall cap so a hang counts as a failure; every fixed case that renders is also included 120 times from one host render and must give its output 120 times (nothing a composition charges per render may be left behind). Block fragments through a reused state: after a full render of every chain up to length 2 (thorough 3) the blocks a, b, c, a, b are rendered through State::render_block, with a call in the root's block a that fails exactly once at every position 1..6 or never; every fragment must equal the resolver's.",
        note="The resolver is the trusted base for chains; the fixed cases carry hand-written expectations taken from the documentation. One expectation was corrected during calibration (include of an empty list renders nothing; the property does not demand an error there).",
        design_ref="2/C06",
    ),
    "C03": dict(
        level="exploration",
        engine="E1-enum",
        technique="bounded-exhaustive enumeration of the ranked program space rendered by the engine and by an independent reference interpreter (differential)",
        text="Every program of the depth-1 and depth-2 generator spaces (1.96e5 programs: all nestings of if/else, for with else / filter / unpacking / recursion, set, set-block, with, macros with defaults and keyword arguments, call blocks, filter blocks, autoescape blocks, break/continue, with leaves that read and write variables inside and outside every scope) under 3 contexts is rendered by the engine and by R, a 500-line tree walker over its own value type implementing the documented rules (scope per construct, clean scope per loop iteration, if-branches and template level persist, macro closures with definition-frame values, argument binding, caller, loop recursion, for-else, loop filters, unpacking, safe-string capture under auto-escaping); outputs must be identical or both must fail. Thorough adds every 13th depth-3 program (1.0e7 evaluations). A closure family (2048 programs) assigns a name inside each of 16 enclosing constructs (if/else arms taken and not, for/else with 0 or 1 iterations, loop else bodies reading names the loop bound, with, filter, set block, autoescape, nested ifs) in 4 assignment forms within a macro, a macro whose outer value changes after declaration, a call block in a loop and a macro in a macro, and reads it inside and after the construct. The loop object clause prints every field in every iteration for 11 sequence kinds (list, tuple, map keys, items, range, lazy iterable, string, reversed, sliced, |list, filtered loop) x lengths 0..4 against directly computed values. A loop-filter family (8 filter expressions naming loop, the enclosing target or outer names x 6 constructs around the filtered loop x 3 nesting depths) and an immediate second render of every program (same result required) complete the space. A repetition clause renders 9 shapes (macro calling macro, call blocks, filter and set blocks, with, loops, includes) N times in one render for N in {1, 2, 60, 101, 300, 2000} and requires the N-fold text: nothing a construct charges per use may accumulate.",
        note="R is the trusted base; every disagreement was triaged by hand (three engine defects fixed, two gaps in R closed). R deliberately leaves undefined: includes/blocks, `set` in a for-else body read afterwards, macro defaults referring to parameters, conditional expressions; such programs are reported as 'outside R'.",
        design_ref="2/C03",
    ),
    "C15": dict(
        level="model_checking",
        engine="E3-hist",
        technique="explicit-state search over operation histories of the real Environment (complete history tree + BFS with deduplication on a plain-map reference model and differential merge checks), and stateless preemption-bounded DFS over thread schedules of concurrent renders on a source-swapped copy of minijinja + memo-map",
        text="An alphabet of 33 operations over two template names (add_template borrowed / owned with 7 sources: plain, using a global+filter+test, not compiling, failing at run time, including b, extending b, rendering b from a function on the same thread; remove_template, clear_templates, set_loader with two loaders serving different sources, add/remove filter, test and global, clone and continue on the clone, render, get of a missing name) is explored as the complete unpruned history tree to depth 3 (quick, 3.6e4 histories) / 4 (thorough, 1.2e6) and by breadth-first search over reference-model states (borrowed map, owned map incl. templates memoised from the loader with the source seen at first request, loader, registries) to depth 6/8 with deduplication; at every merge the environment reached by the new history is compared with the one reached by the stored representative. Every transition calls the real API. At every step of every history the observations (get_template + render of each name, twice, on a clone; for a failing render the whole report: kind, template, line, range, detail) must equal those of a fresh environment built from the model's contents, an add that fails to compile must leave all observations unchanged, and the same render must give the same result twice. Histories shorter than the tree depth run from their first operation on an OS thread of their own with the reference environment built on another fresh thread, because the engine keeps per-thread scratch state. Schedules half: tools/gen_swapped.py copies /repo/minijinja and the registry's memo-map with std::sync and thread_local! redirected to shuttle (locks, atomics, per-task thread-locals are scheduling points; Arc and OnceLock stay std), and a depth-first explorer enumerates every schedule with at most k preemptions, k iterated from 0, of 2-3 threads doing 1-2 operations each on one shared Arc<Environment> (render a loader-backed template that includes another, render the included one, read the stored source, render a borrowed template with loop+macro+namespace, a failing render, a render from a serde context with safe/undefined values, a render using tojson), the loader answering with a different source every time it is asked: 113 configurations, 1.5e5 schedules quick (bound 3 for pairs, 2 otherwise); all 2-operation pairs and all 3-thread triples thorough (bound 5 for pairs, 3 otherwise). Oracle on every execution: each observation equals what the final contents of the environment and the observing render's own context give (one version per loader-backed name for the whole execution, no cross-talk, failing renders fail with their own error), no deadlock; a failing schedule is replayed twice before it is reported.",
        note="Observation in the histories half runs on a clone so that it does not populate the loader cache. Schedules half: shuttle treats atomics as sequentially consistent and does not interleave Arc reference counting; configurations run in worker processes because the swapped crate has shuttle atomics in statics. If the swapped copy of a modified tree does not build, the check says so on stderr and the verdict is that of the histories half alone.",
        design_ref="2/C15",
    ),
    "C20": dict(
        level="model_checking",
        engine="E4-sched",
        technique="stateless preemption-bounded DFS over all thread schedules of the real auto-reloader code (mechanically source-swapped onto shuttle's scheduled Mutex), bound iterated 0..k",
        text="The real minijinja-autoreload source is compiled into the harness with std::sync replaced by shuttle::sync by the build script, so every Mutex operation of the code under test is a scheduling point, however the source is edited. A depth-first explorer of my own (Scheduler implementation on shuttle's runtime) enumerates every schedule with at most k preemptions, k iterated from 0: quick = 60 configurations (1-2 requesters x 1-2 acquirers, one acquirer acquiring twice; rebuild and fast-reload mode; plain / request issued from inside the creator / freshness callback; starting from an empty cache or from an environment the main thread acquired before) with 3/2/1 preemptions for 2/3/4 threads, 1.0e6 complete schedules; thorough = the same at 3 preemptions plus 3 requesters/acquirers at 2 preemptions, 1e8+ schedules. Oracle on every execution: a requester bumps a version then calls request_reload() then publishes that it returned; every acquire_env() started after that must hand out an environment stamped (creator entry, or template load time in fast mode) with at least that version; the environment identity and stamp do not change while a guard is held; creator calls <= 1 + requests (+ creator-issued requests + freshness-callback trues), exactly 1 in fast mode; no deadlock (shuttle reports it). A failing schedule is replayed twice for determinism and written as a task-id list; divergence while replaying a prefix is a machinery error. Thorough: bound-major order (every configuration finishes bound b before any starts b + 1) under an overall deadline (VERIF_SCHED_TOTAL_S, default 30 min): last measured 82 configurations, 3.6e8 schedules, 59 configurations completed to their target bound, 23 stopped by the deadline at a lower bound (listed in the evidence file; exhaustive=false is reported then).",
        note="shuttle treats every atomic as sequentially consistent and does not interleave Arc/Weak reference counting. The notify file-system watcher thread is real OS nondeterminism and is not driven; its callback uses the same flag protocol as request_reload. Creator failure is outside the quantifier.",
        design_ref="2/C20",
    ),
    "C05": dict(
        level="model_checking",
        engine="E2-bcmc",
        technique="explicit-state model checking of compiled instruction streams under an abstract VM (all control-flow paths), bound to the real VM by trace conformance through verif_hooks probes",
        text="For every generated program (complete depth-1 space with blocks, includes, macros, call blocks, set/filter/autoescape/with blocks, recursive and filtered loops and break/continue, in three wrappings: plain with sentinel text, as child block under extends, as included template; a third of the depth-2 space quick / all of it plus a stride of depth 3 thorough; 17 hand-written shapes; a scope-contents family (6 scope-opening constructs alone and in pairs x 10 carriers that open no scope of their own - if/else arms, else bodies of empty and fully filtered loops, filter, autoescape, combinations - x 5 ways of binding a shadowing and a new name: afterwards the shadowed name must be back and the new one gone); every way of leaving a loop by break / continue, unconditional and conditional, through every sequence of 1..2 (thorough 3) nested scoped constructs out of {with, set block, filter block, autoescape on, autoescape off, if, call block}) each instruction stream and each entry point (main, every block, every macro body) is explored exhaustively by BFS over abstract states (pc, operand stack of Opaque|Int, frame kinds with loop iteration count and recursion return, capture stack, auto-escape depth, extends-pending, recursion depth) with every conditional jump, short-circuit jump and Iterate taken both ways; invariants on every state/transition: frame/capture/escape pops hit something the same evaluation pushed and of the right kind, no operand pop below the entry height, everything balanced at every end, every reachable state can reach an end. The model is bound to the code: each program is rendered under 3 contexts with probes recording every executed instruction, and every concrete trace must be a path of the explored abstract graph (same pc, operand height, frame kinds, capture and auto-escape depth at every step); real evaluations must also leave frames, captures and the auto-escape mode as they found them and a sentinel after the outermost construct must reach the output. The abstract machine also requires that no operand is left on the stack when a stream ends (the undefined left by a discarding capture excepted), and the hand-written shapes include recursive loops with else branches. Handled errors (945 programs): 9 callees (macros failing deep inside nested constructs, under auto-escaping switched off or on, or in a nested macro, a macro recursing until the limit refuses it, blocks rendered through the state, two succeeding controls) are called by a host function that swallows the failure, from 7 kinds of places (with+for, set block under a filter, macro body, call block in a loop, auto-escape in an if, auto-escape off inside on, top level) under 15 recursion limits from 500 down to 6, so that calls are also refused at their entry; if the host itself fits the limit, the output must be exactly the caller's names, loop fields, captures and escape mode as they were, with the fallback in place of the failed call.",
        note="Bounds: loops iterate 0..2 times, loop recursion nests <= 3. Include/CallBlock/FastSuper/macro calls are atomic in the caller and each callee stream is explored on its own. A conformance failure is a machinery error (key MACHINERY:conformance). `do` and *args calls are outside the alphabet.",
        design_ref="2/C05",
    ),
    "C11": dict(
        level="exploration",
        engine="E5-crash",
        technique="bounded-exhaustive enumeration of recursive program shapes x recursion limits x stack sizes x build profiles with a process-level oracle in supervised child processes",
        text="Recursive shapes are enumerated combinatorially: every macro cycle of length 1..2 (thorough 3) whose every edge is wrapped by one of 8 scoped constructs, x 3 per-frame work decorations, x 7 things a frame does and gets back from before it recurses (nothing, a helper macro call, one on every other frame, a finished call block, an include, an imported helper, filters and tests); every include cycle of length 1..2 (3) over 5 placements; import cycles at top level, inside macros and through macro+include+import; recursive loops over 10 000-deep data, self-similar data and inside macros; super() chains of 10..1200 templates; block self-calls (direct, mutual, through a macro) and caller/higher-order/alias/default-argument/nested-definition recursion. Each shape runs with recursion_limit in {1,2,3,7,50,250,499,500} on a 2 MiB thread and on the main thread of an opt-level-0 build (thorough: also the checked-release build and every limit 1..=500 for the smaller families, 1.7e5 cases). Unbounded shapes must end with an error whose chain says 'recursion limit exceeded'; no case may end in a signal, abort, panic or hang.",
        note="Per-level native stack cost depends on the compiler and profile: the statement is re-established for this toolchain's opt-level-0 and release builds. The 10 000-deep context value is leaked, not dropped (host drop glue recursion is not the engine's).",
        design_ref="2/C11",
    ),
    "C01": dict(
        level="exploration",
        engine="E5-crash",
        technique="bounded-exhaustive enumeration of ranked input spaces with a process-level crash oracle in supervised child processes (rlimits, panic capture, death attribution)",
        text="Six ranked families are enumerated completely inside their bounds, each case = load + render + formatting the error in five forms, in child processes under RLIMIT_AS with panics caught and aborts/signals attributed to the exact case: every string of up to 4 (thorough 5) fragments over a 24-fragment delimiter/quote/escape alphabet as template and as expression; every sequence of up to 3 (4) tags over 38 tags; every built-in and contrib filter/test/method x 8 receivers and every function x every argument tuple of arity <= 2 (3) over a 14-value boundary alphabet; 12 operators and 11 size-taking built-ins over all pairs of the edge value alphabet; 31 chain/nesting shapes at depths 150/151/2000/20000/200000 on the main thread and a 2 MiB thread in an opt-level-0 build (thorough also checked-release); every program of the depth-2 generator space with loop controls; 22 run-time value chains (a loop applies one lazy wrapping step - concatenation on either side, chain, slice, reverse, map, select, unique, dict merge, string and tuple concatenation, batch, zip - to an accumulator 33 / 1000 / 30 000 times, then the result is measured, iterated, compared, printed and dropped) in both builds; every string literal whose body is a sequence of at most 3 (4) pieces out of 28 escape forms; every format specification flags x width x precision x conversion x value (7 x 10 x 10 x 18 x 7, numbers up to 2^64) through the format filter and str.format; 15 kinds of objects that outlive the construct that made them (loop objects after exhaustion / break / recursion, caller, macros from loops and macros, self, namespaces, cycler, joiner) x 33 ways of using them afterwards. 1.5e6 cases quick. Further families: special calls and tags (super(), self.block(), caller(), loop, extends ...) in a template reached by include / import / from-import from 9 kinds of places; 25 collecting filters over 6 lazily repeated sequences just under and far over the accepted size; N distinct things of 20 kinds (filters, tests, locals, macro parameters, macros, blocks, arguments, keys, targets, includes ...) for 20 values of N around 32, 50, 64, 128, 256, 1000, 4096, 65536.",
        note="A timeout is recorded as inconclusive, never as a crash. Native-stack findings for unguarded chain recursion, self-referential namespaces, very deep data and repeated lazy slicing are recorded known findings. Inputs beyond the fragment/arity bounds and argument values off the boundary alphabet are not explored.",
        design_ref="2/C01",
    ),
    "C16": dict(
        level="exploration",
        engine="E1-enum",
        technique="bounded-exhaustive enumeration of monomorphic serde types x per-leaf edge alphabets (round trip), of edge values x embedding routes (identity), and of short strings over a JSON/HTML-critical alphabet (tojson parse-back)",
        text="Typed round trip T::deserialize(Value::from(Serde(&x))) == x for 14 leaf types x 20 container shapes (Option, Vec, tuples, arrays, maps keyed by String/i64/u64/bool, newtype/tuple/field structs, every enum variant shape) plus 14 depth-2 shapes for representative leaves, over per-leaf boundary values (MIN/MAX, 2^53, 2^63, subnormals, infinities, NUL and non-BMP characters, the value-handle marker string). Every value of the edge alphabet (safe strings, undefined, 128-bit integers, NaN, bytes, lists, tuples, lazy iterables, maps, plain objects, invalid values) embedded through 15 routes (7 of them through host Serialize impls that run a nested conversion before, around or after the value) must come back with the same kind, flags and object identity; a failing serialisation must leave no residue; and every history of up to 3 (thorough 5) conversions out of {plain, nested, failing, nested failing, panicking after a nested one, JSON serialisation outside a conversion} must leave the thread-local conversion flag clean after every step. All strings up to length 3 (thorough 4) over 16 critical characters and all edge values (bare, nested, as map keys) go through tojson in .txt/.html templates, tojson(indent) and JSON auto-escaping; the output is parsed with serde_json and compared with the expected JSON value, and must not contain < > & '. Fifteen further shapes put absent, empty and unit-like payloads into every enum variant shape and wrapper.",
        note="serde_json is the independent JSON parser. Errors are accepted only for maps whose keys JSON cannot carry (none, sequences, non-finite floats) and invalid values. Safe strings are passed through by JSON auto-escaping by design and carry no expectation there. The value-handle registry itself is not inspectable (no hook yet).",
        design_ref="2/C16",
    ),
    "C14": dict(
        level="exploration",
        engine="E1-enum",
        technique="bounded-exhaustive enumeration of failing templates (every truncation point and stray-token insertion of a corpus; run-time faults x construct placements) x vertical/horizontal offsets, with a metamorphic shift oracle",
        text="Syntax errors are produced by truncating every template of a corpus (29 hand-written templates covering every tag and literal form plus generator programs) at every character boundary, with and without multi-byte text in front, and by inserting 12 stray tokens at the boundaries, plus 37 classic faults; run-time errors by planting 21 failing constructs into 18 placements (loops, branches, with, macros, call blocks, set/filter blocks, child/parent blocks, super, includes, imports, recursive loops, three-level inheritance) whose expected template and line are computed from the placement. Every failing case is re-run with 1/17/(65535-len) filler lines above it (LF and CRLF) and with 3-byte, multi-byte and 70 000-byte prefixes. Oracle: the error and every located cause name a template and a line inside it; kind/detail/name are unchanged and lines move by exactly N; ranges are in bounds, on char boundaries of template_source(), equal to the named template and move by the inserted byte count; Display, alternate, Debug, pretty Debug and display_debug_info never panic or return fmt::Error. Residue: every failing case is re-run on a fresh OS thread after each of 12 prior templates (one per statement kind, three that fail to compile half way) was compiled on that thread with its construct on the failing line; the full location must equal the one obtained on a fresh thread without a prior (the compiler keeps thread-local scratch pools). Placements include eight kinds of earlier statements in the same template, and the fault list has eleven faults raised by instructions without a span of their own, five of them after a nested sub-expression.",
        note="Strict undefined mode. Cases that do not fail are skipped and counted. Templates beyond 65 535 lines are outside the property (u16 line counter).",
        design_ref="2/C14",
    ),
    "C18": dict(
        level="exploration",
        engine="E1-enum",
        technique="bounded-exhaustive enumeration of programs rendered against a recording context object, compared with the static undeclared_variables report",
        text="81 hand-enumerated assignment-bearing and expression forms (self-referential set, with, dotted set, unpacking, slices and subscripts of variables, macro defaults/bodies/closures, call blocks with arguments and defaults, loops reading their own target, set blocks with filters, autoescape expressions, filter blocks) and every program of the depth-2 generator space (quick: every 5th; thorough: all plus every 211th of depth 3) are rendered with an Object that records every key the engine asks it for, under all-keys, no-keys and every subset of up to 4 mentioned keys (so both arms of data-dependent control flow are taken); each recorded key must be in undeclared_variables(false) or be a global, and be the head of a path of undeclared_variables(true). Further generated families: 14 constructs reading a name in their header x 8 ways of binding it at the top of their body, and every macro / call-block signature of up to 3 parameters whose defaults are absent, a literal, an outer name, an earlier or a later parameter, called with every number of arguments.",
        note="Debug info is switched off because a failing render re-reads every mentioned name for its error report. The engine-reserved names loop/self/super/caller/varargs/kwargs are not judged (the engine probes `loop` internally).",
        design_ref="2/C18",
    ),
    "C12": dict(
        level="exploration",
        engine="E1-enum",
        technique="bounded-exhaustive enumeration of programs and of a registry-generated site table x 4 undefined behaviours, with a monotonicity relation between the four runs and a matrix oracle on direct sites",
        text="Every program of the depth-2 generator space under 3 contexts (two with missing keys), a site table generated from the built-in registry (each of the 49 filters x 17 argument forms, 42 tests x 8, 4 functions x 6, 62 operator/statement forms, each with an undefined in every argument position) and 5 multi-template families are rendered under Strict, SemiStrict, Lenient and Chainable; whenever a mode succeeds every weaker mode must succeed with the identical output. 22 direct syntactic sites x 4 undefined spellings are compared with the documented matrix (print/iterate fail under Strict+SemiStrict, truth tests only under Strict, attribute/item access everywhere but Chainable, is defined / is undefined / default never), including the error kind. The undefined operand is spelled as a missing variable, a missing key, a missing attribute, an out-of-range index and as the value of an else-less conditional expression whose condition is false (printing, testing and iterating that one is exempt from errors in every mode; attribute, item and slice access on it must fail everywhere except Chainable, also after it was carried through set or a macro argument). The three sites that never fail (default, is defined, is undefined) are enumerated in ten further argument forms (default with its boolean flag, chained defaults, tests inside expressions, conditions and loop filters). The matrix and the site table are repeated under HTML auto-escaping and under a custom formatter that only delegates to the default one (printing rules live in more than one place), and every filter gets six argument forms with safe strings next to the undefined operand.",
        note="The relation is between whole renders; the matrix oracle is limited to sites where the undefined operand is used directly.",
        design_ref="2/C12",
    ),
    "C19": dict(
        level="fault_enumeration",
        engine="E6-fault",
        technique="exhaustive fault-point enumeration of an injected io::Write sink (every write position x error kind, zero-length and short writes) over an enumerated program corpus",
        text="For every program of the corpus (complete depth-1 generator space with integer/small-string/escaped/safe emits appended, .html-named variants, run-time failing variants, a stride of the depth-2 space, include / include-in-loop / extends+super / import / three-level inheritance families, and single blocks through State::render_block_to_write) a healthy instrumented sink records the write calls W1..WN; then the k-th write is made to fail for every k in 1..=N with BrokenPipe, Other and WouldBlock, and to return Ok(0): the bytes received must be exactly W1..W(k-1), no write may follow the failing one, the result must be Err(WriteFailure) whose source() is the injected io::Error; short-write sinks must deliver identical bytes. 1.4e5 fault points in the quick tier.",
        note="The set of write sites reached is the corpus'; Interrupted is not injected (write_all retries it by contract).",
        design_ref="2/C19",
    ),
    "C13": dict(
        level="exploration",
        engine="E1-enum",
        technique="bounded-exhaustive enumeration of programs x every fuel budget from 0 to consumption+3 plus boundary budgets up to u64::MAX",
        text="For every program of the depth-1 generator space, a fixed-stride subset of the depth-2 space, five multi-template families (include, include in a loop, extends+super, import/from-import of macros, three-level inheritance) and run-time failing variants, under 2 contexts: the unlimited render, the render under 10^6 (consumption c; consumed+remaining == budget at the end and at every probe() call placed inside included templates, macros and blocks, with strictly increasing consumption across probes, which exposes a second tracker in a nested evaluation), then every single budget 0..=c+3 must show exactly one threshold T = c+1 with OutOfFuel below and the unlimited result from T on, determinism at T and T-1, and 7 boundary budgets (2^31 ... 2^63-1, 2^63, 2^64-1). 16 programs in which a host function calls a macro or caller back and swallows its error check that the rest of the render stays metered. Further subjects reach the engine through State::render_block: a host function rendering one of the template's own or inherited blocks during the render, and an embedder rendering blocks on the same state after the render; budget thresholds, monotone probes and total consumption must account for them like for any other evaluation.",
        note="Instruction-level accounting is not cross-checked against an independent instruction count (planned with the C05 hooks). The depth-2 space is visited by stride.",
        design_ref="2/C13",
    ),
    "C04": dict(
        level="exploration",
        engine="E1-enum",
        technique="bounded-exhaustive enumeration of literal expressions x every subset of literal occurrences hoisted into variables (metamorphic literal/variable equivalence)",
        text="All depth-1 expressions over 16 literals (incl. 2^63, 2^64-1, 2^127, 0.0, '', [], {}, none) x 18 binary operators, unary -/not, list/tuple/map displays (incl. two-entry maps over all pairs of 10 hashable literals, equal keys included) and literal keyword arguments, and all depth-2 expressions ((a o b) o c, a o (b o c), comparison chains, nested displays) over a core pool; for each, every non-empty subset of literal occurrences is replaced by a context variable holding the value the lexer produced for that literal and the result (Ok/Err, kind and text) must equal the constant-folded all-literal form (1.1e6 evaluations quick, 7.2e6 thorough). Every constant expression that fails at run time must load and stay silent inside `{% if false %}`. Displays and keyword arguments whose items are unary or binary operations over literals are enumerated as well (an item that fails must make the display fail as it does at run time).",
        note="The oracle is the engine's own run-time evaluation of the hoisted form (differential between folder and VM), so a defect shared by both is invisible here (C08 covers arithmetic). Sequence repetition by counts >= 2^31 is excluded (lazy and unprintable).",
        design_ref="2/C04",
    ),
    "C17": dict(
        level="exploration",
        engine="E1-enum",
        technique="bounded-exhaustive enumeration of template names over the segment alphabet against a real directory tree with canaries outside the base",
        text="Every name of up to 4 (quick) / 6 (thorough, 1.2e7 names) segments over the 15-segment alphabet of the quantifier ('', '.', '..', '...', hidden, trailing-dot, 'a..b', backslash forms, NUL, percent-encoded and unicode dot look-alikes, 300-character) is requested through get_template, include, extends and import (name computed inside the template) from a path_loader over a scratch tree; files inside the base carry IN:, canaries in the parent, grandparent and sibling directories carry OUT: under every name a traversal would reach. The loader's rule is a per-segment syntactic filter, and all sequences of segments up to the bound is exactly the space in which a missing case of that filter would show. Histories: one loader instance looks up every primer (all names of 1-2 segments, every pair of one-segment names, thorough also 3 segments, 11 slash spellings; through get_template and through include) and then each of 14 probes (inside, hidden, missing, names that exist relative to ancestors of the base); the answer must equal a fresh loader's.",
        note="Unix path semantics only; symbolic links are excluded by the property. The harness checks first that the canaries are readable through a loader rooted one level up (non-vacuity).",
        design_ref="2/C17",
    ),
    "C10": dict(
        level="exploration",
        engine="E1-enum",
        technique="bounded-exhaustive enumeration of text/tag/marker sequences x 8 settings against an independent model of the whitespace rules; metamorphic delimiter rewriting of every program of the ranked generator space",
        text="Every source `text tag text tag text` over a 14-text alphabet (blanks, LF, CRLF, brace and delimiter look-alikes) and 36 tags (variable, block, comment, raw x left/right marker in {none,-,+}) under all 8 settings (3.5e6 sources x 8; plus 34 tags written without blanks or, for comments, without any body - {{-v-}}, {%-set x = 1-%}, {#-c-#}, {#-#}, {#--#}, {##} - alone between all texts and next to every ordinary tag over the core texts; thorough adds three tags over a 6-text core alphabet, 4.8e8 cases) is rendered and compared byte for byte with an 80-line model that implements the rules exactly as the property words them (lstrip judged on the original source); every single raw block with all 81 inner/outer marker combinations x 6 contents is covered too. For delimiter independence every program of the depth-2 generator space (1.96e5 programs, 3 contexts) is rewritten token by token into 10 delimiter families (prefix-sharing, nested-prefix, single-brace, LaTeX, shared end marker, long, with line statement/comment prefixes) and must render identically; default-looking delimiters embedded as text must come out verbatim; line statements/comments are compared with the tag occupying the line for LF and CRLF. The whitespace rules are also checked under every delimiter set without line prefixes (one ordinary or compact tag between all pairs of core texts under all settings, two tags between blank texts under the two extreme settings) against the same delimiter-agnostic model. The text alphabet includes lone CRs (a lone CR is the newline trim_blocks removes; for lstrip_blocks a line starts after LF or right after a lone CR that trim_blocks has just removed - calibrated on the unchanged tree).",
        note="Trusted: the whitespace model in c10.rs (calibrated: it agrees with the engine on all cases after two lexer fixes). Lone-CR line ends and non-ASCII blanks are outside the alphabet. Programs whose text would fuse with a delimiter of the target set are skipped for that set.",
        design_ref="2/C10",
    ),
    "C07": dict(
        level="exploration",
        engine="E1-enum",
        technique="bounded-exhaustive enumeration of all pairs and triples of an edge-value alphabet against the order/equality/hash laws, and of all short lists against each collection filter's defining law",
        text="Every ordered pair and triple of the edge alphabet (all kinds, every integer representation at 2^31/2^32/2^53/2^63/2^64/2^127/2^128 boundaries, floats incl. +-0/inf/NaN, plain/small/safe strings, bytes, lists, tuples, sized/unsized lazy iterables, maps, plain objects, nested) is checked for reflexivity, antisymmetry, eq symmetry, eq<=>cmp==Equal, eq=>same hash, transitivity of <= and ==, and for agreement of the template operators, `in` and map lookup with the Value-level answers. All lists up to length 4 (quick) / 5 (thorough) over a mixed 8-value alphabet go through sort (all option combinations, attribute), groupby, unique, batch, slice (n=1..6, +-fill), min, max, reverse and are compared with each filter's law (sort against a reference stable sort with the same comparator). Long cyclic lists (21/33/64) exercise Rust's total-order detection. Laws are universally quantified over pairs/triples; enumeration of the boundary alphabet visits every cross-kind combination the hand-written Ord/Eq/Hash distinguish.",
        note="The comparator of the reference sort is the engine's own Value::cmp (the property is about that order). NaN exempt as stated. The preserve_order (IndexMap) build is not exercised. Ten law classes and the map-reverse defect are recorded known findings (value-model design decisions / behaviour pinned by upstream tests).",
        design_ref="2/C07",
    ),
    "C08": dict(
        level="exploration",
        engine="E1-enum",
        technique="bounded-exhaustive enumeration of operand pairs over a boundary alphabet in every integer representation, adjudicated by an arbitrary-precision integer oracle",
        text="All ordered pairs of the boundary points of [-2^127, 2^128) (0, +-1, small, 2^31, 2^32, 2^53, 2^63, 2^64, 2^127 each +-1, 2^126, 2^128-1, ...) in every representation that can hold them (literal, i64, u64, i128, u128) x {+,-,*,//,%,**} and unary minus are evaluated through compile_expression/eval and compared with exact big-integer arithmetic: in-range results must be exact, out-of-range ones exact or an error, never another integer, and the same mathematical operands must give the same outcome in every representation. The same oracle judges all ordered pairs of the power-of-two lattice (2^k, 2^k - 1, -2^k for every k in 0..=128, thorough also 2^k + 1 and the negated neighbours; 3.9e2 / 7.8e2 operands) under the six operators, so that every operation whose exact result crosses a width boundary (2 ** 127, 2^64 * 2^63, ...) is inside the box. The Euclid identity/range is checked for all pairs of small dyadic floats and ints, and 12 comparison forms for every integer x 29 floats against exact rational comparison. Wrap-around and sign loss live exactly at these boundary points; complete enumeration of their pairs decides the property for the alphabet.",
        note="Trusted: the ~300-line big-integer oracle (self-tested against i128 at every start). Operands off the boundary alphabet are not explored. The -2^127 literal is judged through unary minus only (known finding).",
        design_ref="2/C08",
    ),
    "C09": dict(
        level="exploration",
        engine="E1-enum",
        technique="bounded-exhaustive enumeration of the complete (kind,len,start,stop,step) box against a transcribed CPython slice-index oracle",
        text="Every point of the box the property quantifies over (13 kinds - ASCII and multi-byte strings in inline, shared-heap and safe-string storage, list, tuple, sized and unsized lazy iterable, bytes, lazily concatenated / repeated / reversed lists - x len 0..=6 x 22 start x 22 stop x 12 step values, every bound and key in 5 forms: written in the source, or a variable holding the integer stored as i64, i128, u64 or u128 (what |int, serde and the embedding program produce), plus all subscripts) is evaluated through Expression::eval and compared with Python's slice.indices semantics and the result-kind rule; the box contains every relation between bounds that the implementation's case analysis distinguishes, so a pass is a complete small-scope statement, not a sample. Every slice result is also used as an operand: its |length, [-1], [-2:] and [::-1] must agree with the elements it produced.",
        note="Trusted: the 20-line transcription of PySlice_AdjustIndices in the harness. Bounds that do not fit i64 are rejected by the engine with an error and are outside the box.",
        design_ref="2/C09",
    ),
}

NOT_YET = "check not built/calibrated yet in this round (planned in DESIGN.md section 2); not claimed until it exists"
NOT_APPLICABLE = {}


def main():
    checks = []
    for pid in ALL:
        if pid not in CHECKS:
            continue
        c = CHECKS[pid]
        entry = {
            "property_id": pid,
            "quick_cmd": f"./check {pid} --tier quick",
            "thorough_cmd": f"./check {pid} --tier thorough",
            "evidence_file": f"/verif/evidence/{pid}.json",
            "replay_cmd_template": f"./check {pid} --replay {{path}}",
            "engine": c["engine"],
            "level_claimed": {"category": c["level"], "text": c["text"], "design_ref": c["design_ref"]},
            "level_note": c["note"],
            "technique": c["technique"],
        }
        checks.append(entry)
    na = []
    for pid in ALL:
        if pid in CHECKS:
            continue
        na.append({"property_id": pid, "reason": NOT_APPLICABLE.get(pid, NOT_YET)})
    hooks_commits = []
    hc = os.path.join(os.path.dirname(__file__), "..", "hooks_commits.txt")
    if os.path.exists(hc):
        hooks_commits = [l.strip() for l in open(hc) if l.strip()]
    manifest = {
        "version": 1,
        "setup_cmd": "./setup.sh",
        "hooks": {
            "guard": "cargo feature `verif_hooks` on the minijinja crate (off by default; add-only)",
            "enable": "the harness depends on /repo/minijinja by path with features [..., \"verif_hooks\"]; ./check rebuilds it from /repo's working tree on every invocation",
            "baseline_off_cmd": "/verif/tools/baseline.sh /repo",
            "source_commits": hooks_commits,
            "add_only": True,
        },
        "engines": [
            {"name": "E1-enum", "path": "harness/mjv", "serves_properties": [p for p in ALL if p in CHECKS and CHECKS[p]["engine"] == "E1-enum"],
             "kind_free_text": "bounded-exhaustive enumeration of inputs/programs against reference models written in the harness"},
        ],
        "checks": checks,
        "not_applicable": na,
        "notes": "All checks: exit 0 held / 1 VIOLATION / 2 machinery failure. known_findings.json lists genuine defects recorded rather than repaired and the fix: commits. See DESIGN.md.",
    }
    # add engines that are used
    used = sorted({c["engine"] for c in CHECKS.values()})
    kinds = {
        "E1-enum": "bounded-exhaustive enumeration of inputs/programs against reference models written in the harness",
        "E2-bcmc": "explicit-state model checking of compiled instruction streams under an abstract VM, bound to the real VM by trace conformance through verif_hooks probes",
        "E3-hist": "explicit-state BFS over operation histories of the real Environment with a plain-map reference model and differential merge checks",
        "E4-sched": "stateless preemption-bounded DFS over thread schedules of the real code on shuttle's runtime (source-swapped sync primitives)",
        "E5-crash": "bounded-exhaustive enumeration with a process-level oracle in supervised child processes",
        "E6-fault": "exhaustive fault-point enumeration of an injected output sink",
    }
    paths = {"E4-sched": "harness/sched"}
    manifest["engines"] = [
        {"name": e, "path": paths.get(e, "harness/mjv"),
         "serves_properties": [p for p in ALL if p in CHECKS and CHECKS[p]["engine"] == e],
         "kind_free_text": kinds[e]} for e in used]
    out = os.path.join(os.path.dirname(__file__), "..", "MANIFEST.json")
    with open(out, "w") as f:
        json.dump(manifest, f, indent=1)
        f.write("\n")
    try:
        import jsonschema
        jsonschema.validate(manifest, json.load(open("/root/.vp/MANIFEST.schema.json")))
        print("MANIFEST.json valid;", len(checks), "checks,", len(na), "not_applicable")
    except ImportError:
        print("jsonschema not importable; wrote MANIFEST.json unvalidated")


if __name__ == "__main__":
    main()
