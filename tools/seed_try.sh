#!/bin/bash
# tools/seed_try.sh <seed-id> <check-id...> : applies a stored seeded change to /repo, runs the given
# checks (quick tier), reverts.  Developer tool.
cd /verif || exit 2
ID="$1"; shift
if [ -n "$(git -C /repo status --porcelain)" ]; then echo "/repo not clean"; exit 2; fi
git -C /repo apply "/verif/seeded/$ID/patch.diff" || { echo "patch does not apply"; exit 2; }
for c in "$@"; do
  OUT="$(./check "$c" --tier quick 2>&1)"; rc=$?
  echo "== $ID / $c: exit=$rc violations=$(echo "$OUT" | grep -c '^VIOLATION')"
  echo "$OUT" | grep -E "^VIOLATION|machinery|^NOTE" | cut -c1-300 | head -${SEED_TRY_LINES:-4}
done
git -C /repo checkout -- .
git -C /repo status --porcelain
