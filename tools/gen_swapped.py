#!/usr/bin/env python3
"""Generates /verif/harness15/gen/{minijinja-sw,memo-map-sw}: copies of /repo/minijinja (working
tree) and of the registry's memo-map whose `std::sync::` paths and `thread_local!` resolve to the
`syncshim` crate (Mutex/RwLock/Condvar/atomics/thread-locals scheduled by shuttle; Arc/Weak/OnceLock
from std).  Files are only rewritten when their content changes, so unchanged trees do not rebuild.
Exit 0 on success; 3 when the swap found something it cannot map (reported, never guessed)."""
import os, re, sys, glob, shutil

DEST = '/verif/harness15/gen'
SHIM_NAMES = {'Mutex', 'MutexGuard', 'RwLock', 'RwLockReadGuard', 'RwLockWriteGuard', 'Condvar', 'Once', 'atomic', 'mpsc', 'Barrier',
              'Arc', 'Weak', 'OnceLock', 'LockResult', 'PoisonError', 'TryLockError', 'TryLockResult', 'LazyLock'}

def write_if_changed(path, text):
    os.makedirs(os.path.dirname(path), exist_ok=True)
    if os.path.exists(path) and open(path).read() == text:
        return False
    open(path, 'w').write(text)
    return True

def swap_source(text, where):
    # every name imported from std::sync must be one the shim provides
    for m in re.finditer(r'std::sync::(\{[^}]*\}|[A-Za-z_]+)', text):
        names = re.findall(r'[A-Za-z_]+', m.group(1).split('::')[0] if not m.group(1).startswith('{') else m.group(1))
        for n in names:
            if n in ('self',):
                continue
            if n not in SHIM_NAMES and n[0].isupper():
                print(f'gen_swapped: {where}: std::sync::{n} is not provided by the shim', file=sys.stderr)
                sys.exit(3)
    text = text.replace('std::sync::', 'syncshim::')
    text = re.sub(r'(?<![A-Za-z_:])thread_local!', 'syncshim::thread_local!', text)
    text = text.replace('std::thread_local!', 'syncshim::thread_local!')
    return text

def copy_tree(src_dir, dst_dir, label):
    seen = set()
    changed = 0
    for path in glob.glob(os.path.join(src_dir, '**', '*'), recursive=True):
        if os.path.isdir(path):
            continue
        rel = os.path.relpath(path, src_dir)
        out = os.path.join(dst_dir, rel)
        seen.add(os.path.normpath(out))
        if path.endswith('.rs'):
            text = swap_source(open(path).read(), f'{label}/{rel}')
        else:
            try:
                text = open(path).read()
            except UnicodeDecodeError:
                continue
        changed += write_if_changed(out, text)
    # remove files that no longer exist upstream
    for path in glob.glob(os.path.join(dst_dir, '**', '*'), recursive=True):
        if os.path.isfile(path) and os.path.normpath(path) not in seen:
            os.remove(path)
            changed += 1
    return changed

def strip_sections(toml, drop):
    out, skip = [], False
    for line in toml.splitlines():
        if line.startswith('['):
            name = line.strip().strip('[]')
            skip = any(name == d or name.startswith(d + '.') or name == d for d in drop)
        if not skip:
            out.append(line)
    return '\n'.join(out) + '\n'

def main():
    repo = sys.argv[1] if len(sys.argv) > 1 else '/repo'
    # ---- minijinja
    mj_src = os.path.join(repo, 'minijinja')
    toml = open(os.path.join(mj_src, 'Cargo.toml')).read()
    toml = strip_sections(toml, ['dev-dependencies', 'package.metadata', '[test', '[bench', '[example', 'test', 'bench', 'example', 'lints'])
    toml = re.sub(r'(?m)^name = "minijinja"$', 'name = "minijinja-sw"', toml, count=1)
    toml = re.sub(r'(?m)^readme = .*\n', '', toml)
    toml = re.sub(r'(?m)^exclude = .*\n', '', toml)
    toml = re.sub(r'(?m)^memo-map = .*$', 'memo-map = { path = "../memo-map-sw" }\nsyncshim = { path = "../../syncshim" }', toml)
    if 'syncshim' not in toml:
        print('gen_swapped: minijinja no longer depends on memo-map by a plain version line', file=sys.stderr)
        sys.exit(3)
    toml += '\n[lib]\nname = "minijinja_sw"\ndoctest = false\ntest = false\n'
    n = write_if_changed(os.path.join(DEST, 'minijinja-sw', 'Cargo.toml'), toml)
    n += copy_tree(os.path.join(mj_src, 'src'), os.path.join(DEST, 'minijinja-sw', 'src'), 'minijinja/src')
    # ---- memo-map (registry copy of the version the repository's lock file names)
    lock = open(os.path.join(repo, 'Cargo.lock')).read()
    m = re.search(r'name = "memo-map"\nversion = "([^"]+)"', lock)
    ver = m.group(1) if m else '0.3.3'
    cands = glob.glob(os.path.expanduser(f'~/.cargo/registry/src/*/memo-map-{ver}'))
    if not cands:
        print(f'gen_swapped: memo-map {ver} not in the cargo registry cache', file=sys.stderr)
        sys.exit(3)
    mm = cands[0]
    mtoml = f'[package]\nname = "memo-map"\nversion = "{ver}"\nedition = "2018"\n\n[dependencies]\nsyncshim = {{ path = "../../syncshim" }}\n\n[lib]\ndoctest = false\ntest = false\n'
    n += write_if_changed(os.path.join(DEST, 'memo-map-sw', 'Cargo.toml'), mtoml)
    n += copy_tree(os.path.join(mm, 'src'), os.path.join(DEST, 'memo-map-sw', 'src'), 'memo-map/src')
    print(f'gen_swapped: {n} file(s) updated')

main()
