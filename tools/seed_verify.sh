#!/bin/bash
# tools/seed_verify.sh <seed-id> <worktree> <crate-dir> <demo-file> <features> <check-ids...>
# Confirms a seeded change in its scratch worktree (suite passes with it; demo fails with it and
# passes without it), stores it under /verif/seeded/<seed-id>/, then applies it to /repo, runs the
# given checks (quick tier) and undoes it.
set -u
ID="$1"; WT="$2"; CRATE="$3"; DEMO="$4"; FEATURES="$5"; shift 5
DEST=/verif/seeded/$ID
mkdir -p "$DEST"
cp "$WT/patch.diff" "$DEST/patch.diff"
cp "$WT/$DEMO" "$DEST/$DEMO"
[ -f "$WT/NOTES.md" ] && cp "$WT/NOTES.md" "$DEST/NOTES.agent.md"
export CARGO_NET_OFFLINE=true CARGO_TARGET_DIR="$WT/target"
cd "$WT" || exit 2
echo "== worktree diff equals patch: $(git diff | diff -q - patch.diff >/dev/null && echo yes || echo NO)"
echo "== baseline suite WITH the change"
SUITE="$(/verif/tools/baseline.sh "$WT" 2>&1 | tail -3)"; echo "$SUITE"
TEST=$(basename "$DEMO" .rs)
mkdir -p "$CRATE/tests"; cp "$DEMO" "$CRATE/tests/$TEST.rs"
PKG=$(basename "$CRATE")
FEAT=""; [ -n "$FEATURES" ] && FEAT="--features $FEATURES"
echo "== demo WITH the change (expected to fail)"
cargo test -p "$PKG" $FEAT --test "$TEST" --offline 2>&1 | grep -E "^test result|^test .* (ok|FAILED)|error\[" | head -12
WITH=$(cargo test -p "$PKG" $FEAT --test "$TEST" --offline >/dev/null 2>&1; echo $?)
git apply -R patch.diff   # (not git stash: the stash is shared by all worktrees of /repo)
echo "== demo WITHOUT the change (expected to pass)"
cargo test -p "$PKG" $FEAT --test "$TEST" --offline 2>&1 | grep -E "^test result|error\[" | head -5
WITHOUT=$(cargo test -p "$PKG" $FEAT --test "$TEST" --offline >/dev/null 2>&1; echo $?)
git apply patch.diff
rm -f "$CRATE/tests/$TEST.rs"
echo "== demo exit codes: with=$WITH without=$WITHOUT"
unset CARGO_TARGET_DIR
RESULTS=""
cd /verif
if [ -n "${SEED_NO_CHECKS:-}" ]; then echo "== results: (checks run separately) suite=[$(echo "$SUITE" | head -1)] demo_with=$WITH demo_without=$WITHOUT"; exit 0; fi
if [ -n "$(git -C /repo status --porcelain)" ]; then echo "/repo not clean"; exit 2; fi
git -C /repo apply "$DEST/patch.diff" || { echo "patch does not apply to /repo"; exit 2; }
for c in "$@"; do
  echo "== ./check $c (quick) with the change applied to /repo"
  OUT="$(./check "$c" --tier quick 2>&1)"; rc=$?
  echo "$OUT" | grep -E "VIOLATION|^\[C" | cut -c1-260 | head -6
  RESULTS="$RESULTS $c:exit=$rc"
done
git -C /repo checkout -- . ; git -C /repo status --porcelain
echo "== results:$RESULTS suite=[$(echo "$SUITE" | head -1)] demo_with=$WITH demo_without=$WITHOUT"
