#!/bin/bash
# Builds the harness offline from files on disk (cargo registry cache + /repo working tree).
set -e
export CARGO_NET_OFFLINE=true
cd "$(dirname "$0")/harness"
cargo build --release --offline -p mjv 2>&1 | tail -n 3
echo "setup ok"
