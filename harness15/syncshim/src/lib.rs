//! What `std::sync::` resolves to in the swapped copies of minijinja and memo-map: locks, condition
//! variables, atomics and thread-locals are shuttle's (every operation is a scheduling point of the
//! explorer, thread-locals are per task); reference counting and one-time initialisation are std's
//! (shuttle's Arc is std's Arc anyway; no scheduling point lies inside a OnceLock initialiser).
pub use shuttle::sync::{atomic, mpsc, Barrier, Condvar, Mutex, MutexGuard, Once, RwLock, RwLockReadGuard, RwLockWriteGuard};
pub use shuttle::thread_local;
pub use std::sync::{Arc, LockResult, OnceLock, PoisonError, TryLockError, TryLockResult, Weak};
