//! C15, schedules half (E4): concurrent renders from one shared environment, explored over every
//! schedule with at most k preemptions.  The crate under test is `minijinja_sw`, a mechanically
//! swapped copy of /repo/minijinja (and of memo-map) whose locks, atomics and thread-locals are
//! shuttle's, so every synchronisation operation of the real code is a scheduling point.
use minijinja_sw as minijinja;
use minijinja::{context, Environment};
use serde_json::{json, Value as J};
use shuttle::sync::atomic::{AtomicUsize, Ordering};
use std::collections::{BTreeMap, BTreeSet};
use std::sync::{Arc, Mutex as StdMutex};
use std::time::Instant;

#[path = "../../../harness/sched/src/dfs.rs"]
mod dfs;
use dfs::{explore, replay};

const VERIF: &str = "/verif";

#[derive(Clone, Copy, Debug, PartialEq, Eq, PartialOrd, Ord)]
enum Op {
    /// loader-backed template that includes another loader-backed template
    RenderA,
    /// loader-backed leaf
    RenderB,
    /// the source text the environment holds for "a"
    SourceA,
    /// borrowed template with a loop, a macro and a namespace
    RenderStatic,
    /// a render that fails at run time after producing output
    RenderFailing,
    /// a render whose context comes from a serde struct holding special values
    RenderSerde,
    /// a render that serialises values to JSON (the other user of the serialisation machinery)
    RenderJson,
}

const OPS: &[Op] = &[Op::RenderA, Op::RenderB, Op::SourceA, Op::RenderStatic, Op::RenderFailing, Op::RenderSerde, Op::RenderJson];

impl Op {
    fn name(self) -> &'static str {
        match self {
            Op::RenderA => "render_a",
            Op::RenderB => "render_b",
            Op::SourceA => "source_a",
            Op::RenderStatic => "render_static",
            Op::RenderFailing => "render_failing",
            Op::RenderSerde => "render_serde",
            Op::RenderJson => "render_json",
        }
    }
}

#[derive(Clone, Debug)]
struct Cfg {
    /// operations of each thread
    threads: Vec<Vec<Op>>,
}

impl Cfg {
    fn label(&self) -> String {
        self.threads.iter().map(|t| t.iter().map(|o| o.name()).collect::<Vec<_>>().join("+")).collect::<Vec<_>>().join(" | ")
    }
}

#[derive(Default)]
struct Stats {
    outcomes: BTreeSet<String>,
    executions: u64,
}

const STATIC_SRC: &str = "{% macro m(v) %}<{{ v }}>{% endmacro %}{% set ns = namespace(c=0) %}{% for i in [1, 2] %}{% set ns.c = ns.c + i %}{{ m(i) }}{% endfor %}={{ ns.c }}:{{ x }}";

#[derive(serde::Serialize)]
struct SerdeCtx {
    x: u32,
    safe: minijinja::Value,
    undef: minijinja::Value,
}

fn body(cfg: Cfg, stats: Arc<StdMutex<Stats>>) -> impl Fn() + Send + Sync + 'static {
    move || {
        // the loader answers with a different source every time it is asked: a second load of the
        // same name becomes visible in everything rendered from it
        let loads: Arc<[AtomicUsize; 2]> = Arc::new([AtomicUsize::new(0), AtomicUsize::new(0)]);
        let mut env = Environment::new();
        env.add_template("s", STATIC_SRC).unwrap();
        env.add_template("f", "before{{ x }}{{ 1 // 0 }}after").unwrap();
        env.add_template("j", "{{ [x, s, u]|tojson }}{{ {'k': s}|tojson }}").unwrap();
        env.add_template("sd", "{{ x }}|{{ safe }}|{{ safe is safe }}|{{ undef is undefined }}").unwrap();
        {
            let loads = loads.clone();
            env.set_loader(move |name| match name {
                "a" => {
                    let n = loads[0].fetch_add(1, Ordering::SeqCst) + 1;
                    Ok(Some(format!("A#{}:{{{{ x }}}}{{% include 'b' %}}", n)))
                }
                "b" => {
                    let n = loads[1].fetch_add(1, Ordering::SeqCst) + 1;
                    Ok(Some(format!("B#{}:{{{{ x }}}}", n)))
                }
                _ => Ok(None),
            });
        }
        let env = Arc::new(env);
        // observations: (thread, op index, op, text)
        let obs: Arc<StdMutex<Vec<(usize, usize, Op, Result<String, String>)>>> = Default::default();
        let mut handles = vec![];
        for (ti, ops) in cfg.threads.iter().cloned().enumerate() {
            let env = env.clone();
            let obs = obs.clone();
            handles.push(shuttle::thread::spawn(move || {
                for (oi, op) in ops.iter().enumerate() {
                    let x = 10 * (ti + 1) + oi;
                    let r: Result<String, String> = match op {
                        Op::RenderA => env.get_template("a").and_then(|t| t.render(context! { x })).map_err(|e| e.to_string()),
                        Op::RenderB => env.get_template("b").and_then(|t| t.render(context! { x })).map_err(|e| e.to_string()),
                        Op::SourceA => env.get_template("a").map(|t| t.source().to_string()).map_err(|e| e.to_string()),
                        Op::RenderStatic => env.get_template("s").and_then(|t| t.render(context! { x })).map_err(|e| e.to_string()),
                        Op::RenderFailing => env.get_template("f").and_then(|t| t.render(context! { x })).map_err(|e| format!("{:?}", e.kind())),
                        Op::RenderSerde => env
                            .get_template("sd")
                            .and_then(|t| t.render(minijinja::Value::from(minijinja::value::Serde(&SerdeCtx { x: x as u32, safe: minijinja::Value::from_safe_string("<b>".into()), undef: minijinja::Value::UNDEFINED }))))
                            .map_err(|e| e.to_string()),
                        Op::RenderJson => env.get_template("j").and_then(|t| t.render(context! { x, s => minijinja::Value::from_safe_string("<b>".into()), u => minijinja::Value::UNDEFINED })).map_err(|e| e.to_string()),
                    };
                    obs.lock().unwrap().push((ti, oi, *op, r));
                }
            }));
        }
        for h in handles {
            h.join().unwrap();
        }
        // after all threads: the environment still holds what was first handed out
        let final_a = env.get_template("a").map(|t| t.source().to_string()).ok();
        let final_b = env.get_template("b").map(|t| t.source().to_string()).ok();
        let obs = obs.lock().unwrap().clone();
        let version = |src: &Option<String>, tag: &str| -> Option<usize> { src.as_ref().and_then(|s| s.strip_prefix(tag)).and_then(|s| s.split(':').next()).and_then(|s| s.parse().ok()) };
        let va = version(&final_a, "A#").expect("C15-ORACLE: template a cannot be loaded at the end");
        let vb = version(&final_b, "B#").expect("C15-ORACLE: template b cannot be loaded at the end");
        let mut sig = vec![];
        for (ti, oi, op, r) in &obs {
            let x = 10 * (ti + 1) + oi;
            let want: Result<String, String> = match op {
                Op::RenderA => Ok(format!("A#{}:{}B#{}:{}", va, x, vb, x)),
                Op::RenderB => Ok(format!("B#{}:{}", vb, x)),
                Op::SourceA => Ok(format!("A#{}:{{{{ x }}}}{{% include 'b' %}}", va)),
                Op::RenderStatic => Ok(format!("<1><2>=3:{}", x)),
                Op::RenderFailing => Err("InvalidOperation".into()),
                Op::RenderSerde => Ok(format!("{}|<b>|True|True", x)),
                Op::RenderJson => Ok(format!("[{}, \"\\u003cb\\u003e\", null]{{\"k\": \"\\u003cb\\u003e\"}}", x)),
            };
            if *r != want {
                panic!(
                    "C15-ORACLE: thread {} op {} ({}) observed {:?} but the environment's contents (a = version {}, b = version {}) and this render's own context give {:?}; all observations: {:?}",
                    ti,
                    oi,
                    op.name(),
                    r,
                    va,
                    vb,
                    want,
                    obs
                );
            }
            sig.push(format!("{}.{}", ti, oi));
        }
        let la = loads[0].load(Ordering::SeqCst);
        let lb = loads[1].load(Ordering::SeqCst);
        let mut st = stats.lock().unwrap();
        st.executions += 1;
        // distinct outcomes: completion order of the operations + how often the loader was asked
        st.outcomes.insert(format!("order={} loads=({}, {})", sig.join(","), la, lb));
    }
}

fn is_oracle_message(m: &str) -> bool {
    m.contains("C15-ORACLE") || m.contains("deadlock") || m.contains("panicked") || m.contains("exceeded max_steps")
}

fn configs(tier: &str) -> Vec<(Cfg, usize)> {
    let mut v = vec![];
    let thorough = tier == "thorough";
    // two threads, one operation each: every unordered pair, deep bound
    for (i, a) in OPS.iter().enumerate() {
        for b in &OPS[i..] {
            v.push((Cfg { threads: vec![vec![*a], vec![*b]] }, if thorough { 5 } else { 3 }));
        }
    }
    // two threads, two operations each, over the loader-backed operations and one bystander
    let seqs: Vec<Vec<Op>> = {
        let pool = [Op::RenderA, Op::RenderB, Op::SourceA, Op::RenderStatic];
        let mut s = vec![];
        for a in pool {
            for b in pool {
                s.push(vec![a, b]);
            }
        }
        s
    };
    for (i, a) in seqs.iter().enumerate() {
        for b in &seqs[i..] {
            let loader_ops = a.iter().chain(b.iter()).filter(|o| matches!(o, Op::RenderA | Op::RenderB | Op::SourceA)).count();
            if loader_ops < 2 {
                continue;
            }
            if !thorough && !(a.contains(&Op::RenderA) && (b.contains(&Op::RenderB) || b.contains(&Op::SourceA) || b.contains(&Op::RenderA))) {
                continue;
            }
            v.push((Cfg { threads: vec![a.clone(), b.clone()] }, if thorough { 3 } else { 2 }));
        }
    }
    // three threads, one operation each
    let pool3: Vec<Op> = if thorough { OPS.to_vec() } else { vec![Op::RenderA, Op::RenderB, Op::SourceA] };
    for (i, a) in pool3.iter().enumerate() {
        for (j, b) in pool3.iter().enumerate().skip(i) {
            for c in pool3.iter().skip(j) {
                v.push((Cfg { threads: vec![vec![*a], vec![*b], vec![*c]] }, if thorough { 3 } else { 2 }));
            }
        }
    }
    v
}

fn parse_cfg(j: &J) -> Cfg {
    let threads = j["threads"]
        .as_array()
        .unwrap()
        .iter()
        .map(|t| t.as_array().unwrap().iter().map(|o| *OPS.iter().find(|p| p.name() == o.as_str().unwrap()).expect("unknown op")).collect())
        .collect();
    Cfg { threads }
}

fn main() {
    let args: Vec<String> = std::env::args().collect();
    let mut tier = std::env::var("VERIF_TIER").unwrap_or_else(|_| "quick".into());
    let mut replay_file = None;
    let mut worker: Option<(usize, usize)> = None;
    let mut i = 1;
    while i < args.len() {
        match args[i].as_str() {
            "--tier" => {
                tier = args[i + 1].clone();
                i += 1;
            }
            "--replay" => {
                replay_file = Some(args[i + 1].clone());
                i += 1;
            }
            "--worker" => {
                let (a, b) = args[i + 1].split_once('/').expect("--worker i/n");
                worker = Some((a.parse().unwrap(), b.parse().unwrap()));
                i += 1;
            }
            _ => {}
        }
        i += 1;
    }
    std::panic::set_hook(Box::new(|_| {}));
    let start = Instant::now();
    if let Some(p) = replay_file {
        let doc: J = serde_json::from_str(&std::fs::read_to_string(&p).expect("replay file")).expect("replay json");
        let cfg = parse_cfg(&doc["replay"]["config"]);
        let schedule: Vec<usize> = doc["replay"]["schedule"].as_array().unwrap().iter().map(|x| x.as_u64().unwrap() as usize).collect();
        println!("replaying {} with schedule {:?}", cfg.label(), schedule);
        let stats: Arc<StdMutex<Stats>> = Default::default();
        match replay(&schedule, body(cfg, stats)) {
            Ok(()) => {
                println!("replay: schedule passes");
                std::process::exit(0)
            }
            Err(m) if is_oracle_message(&m) => {
                println!("VIOLATION property=C15 replay={}  # {}", p, m.chars().take(600).collect::<String>());
                std::process::exit(1)
            }
            Err(m) => {
                eprintln!("machinery error: the recorded schedule does not apply to this tree: {}", m.chars().take(300).collect::<String>());
                std::process::exit(2)
            }
        }
    }
    let cap_s: u64 = std::env::var("VERIF_SCHED_CAP_S").ok().and_then(|s| s.parse().ok()).unwrap_or(if tier == "thorough" { 1500 } else { 40 });
    let cfgs = configs(&tier);
    let n_cfg = cfgs.len();
    // The swapped crate has shuttle atomics in statics (STATE_ID), and a shuttle primitive must only be
    // touched by one runner at a time: configurations are therefore spread over worker *processes*,
    // each exploring its share serially and reporting one JSON line per configuration.
    if let Some(w) = worker {
        let (wi, wn) = w;
        for (k, (cfg, max_bound)) in cfgs.iter().enumerate() {
            if k % wn != wi {
                continue;
            }
            let mut per_bound = vec![];
            let mut completed_bound: i64 = -1;
            let mut schedules = 0u64;
            let mut outcomes: BTreeSet<String> = BTreeSet::new();
            let mut capped = false;
            let mut machinery: Option<String> = None;
            let mut violation: Option<(String, Vec<usize>)> = None;
            for bound in 0..=*max_bound {
                if start.elapsed().as_secs() > cap_s {
                    capped = true;
                    break;
                }
                let stats: Arc<StdMutex<Stats>> = Default::default();
                let r = explore(bound, body(cfg.clone(), stats.clone()));
                schedules += r.schedules;
                let st = stats.lock().unwrap();
                outcomes.extend(st.outcomes.iter().map(|o| format!("{} :: {}", cfg.label(), o)));
                per_bound.push(json!({"preemptions": bound, "schedules": r.schedules, "max_depth": r.max_depth, "exhausted": r.exhausted, "distinct_outcomes": st.outcomes.len()}));
                if let Some(d) = r.divergence {
                    machinery = Some(format!("{}: divergence while replaying a prefix: {}", cfg.label(), d));
                    break;
                }
                if let Some((msg, schedule)) = r.failure {
                    // a failure is trusted only if the recorded schedule fails twice in the same way
                    let again1 = replay(&schedule, body(cfg.clone(), Default::default()));
                    let again2 = replay(&schedule, body(cfg.clone(), Default::default()));
                    match (again1, again2) {
                        (Err(a), Err(b)) if a == b => violation = Some((a, schedule)),
                        (a, b) => machinery = Some(format!("{}: failure `{}` does not replay deterministically ({:?} / {:?})", cfg.label(), msg.chars().take(200).collect::<String>(), a.err().map(|m| m.chars().take(80).collect::<String>()), b.err().map(|m| m.chars().take(80).collect::<String>()))),
                    }
                    break;
                }
                if r.exhausted {
                    completed_bound = bound as i64;
                } else {
                    capped = true;
                    break;
                }
            }
            println!(
                "RESULT {}",
                json!({"k": k, "threads": cfg.threads.iter().map(|t| t.iter().map(|o| o.name()).collect::<Vec<_>>()).collect::<Vec<_>>(), "completed_preemption_bound": completed_bound, "bounds": per_bound,
                    "schedules": schedules, "outcomes": outcomes, "capped": capped, "machinery": machinery, "violation": violation.map(|(m, s)| json!({"message": m, "schedule": s}))})
            );
        }
        std::process::exit(0);
    }
    let workers = std::thread::available_parallelism().map(|n| n.get()).unwrap_or(4).min(16).min(n_cfg.max(1));
    let exe = std::env::current_exe().expect("own path");
    let children: Vec<std::process::Child> = (0..workers)
        .map(|w| {
            std::process::Command::new(&exe)
                .args(["--tier", &tier, "--worker", &format!("{}/{}", w, workers)])
                .env("VERIF_SCHED_CAP_S", cap_s.to_string())
                .stdout(std::process::Stdio::piped())
                .stderr(std::process::Stdio::null())
                .spawn()
                .expect("spawn worker")
        })
        .collect();
    let mut res: Vec<J> = vec![];
    let mut mach: Vec<String> = vec![];
    for c in children {
        let out = c.wait_with_output().expect("worker output");
        if !out.status.success() {
            mach.push(format!("a worker process ended with {:?}", out.status));
        }
        for line in String::from_utf8_lossy(&out.stdout).lines() {
            if let Some(j) = line.strip_prefix("RESULT ") {
                match serde_json::from_str::<J>(j) {
                    Ok(v) => res.push(v),
                    Err(e) => mach.push(format!("unreadable worker line: {}", e)),
                }
            }
        }
    }
    if res.len() != n_cfg {
        mach.push(format!("{} of {} configurations reported", res.len(), n_cfg));
    }
    res.sort_by_key(|r| r["k"].as_u64().unwrap_or(0));
    let mut schedules = 0u64;
    let mut outcomes: BTreeSet<String> = BTreeSet::new();
    let mut n_capped = 0usize;
    let mut viol: Vec<(Cfg, String, Vec<usize>)> = vec![];
    for r in &mut res {
        schedules += r["schedules"].as_u64().unwrap_or(0);
        outcomes.extend(r["outcomes"].as_array().cloned().unwrap_or_default().iter().filter_map(|o| o.as_str().map(|s| s.to_string())));
        n_capped += usize::from(r["capped"].as_bool().unwrap_or(false));
        if let Some(m) = r["machinery"].as_str() {
            mach.push(m.to_string());
        }
        if !r["violation"].is_null() {
            let msg = r["violation"]["message"].as_str().unwrap_or("").to_string();
            let schedule = r["violation"]["schedule"].as_array().unwrap().iter().map(|x| x.as_u64().unwrap() as usize).collect();
            viol.push((parse_cfg(r), msg, schedule));
        }
        let o = r.as_object_mut().unwrap();
        o.remove("outcomes");
        o.remove("violation");
        o.remove("machinery");
    }
    if !mach.is_empty() {
        for m in &mach {
            eprintln!("machinery error: {}", m);
        }
        std::process::exit(2);
    }
    std::fs::create_dir_all(format!("{}/replays/C15", VERIF)).ok();
    let mut by_key: BTreeMap<String, (Cfg, String, Vec<usize>)> = BTreeMap::new();
    for (cfg, msg, schedule) in viol {
        by_key.entry(cfg.label()).or_insert((cfg, msg, schedule));
    }
    for (k, (label, (cfg, msg, schedule))) in by_key.iter().enumerate() {
        let path = format!("{}/replays/C15/schedule_{:02}.json", VERIF, k);
        let doc = json!({"property": "C15", "engine": "sched15", "key": format!("schedules {}", label), "detail": msg,
            "replay": {"config": {"threads": cfg.threads.iter().map(|t| t.iter().map(|o| o.name()).collect::<Vec<_>>()).collect::<Vec<_>>()}, "schedule": schedule}});
        std::fs::write(&path, serde_json::to_string_pretty(&doc).unwrap()).unwrap();
        println!("VIOLATION property=C15 replay={}  # key=[schedules {}] {}", path, label, msg.chars().take(400).collect::<String>());
    }
    // merge into the evidence file the histories half has just written
    let ev_path = format!("{}/evidence/C15.json", VERIF);
    let mut ev: J = std::fs::read_to_string(&ev_path).ok().and_then(|t| serde_json::from_str(&t).ok()).unwrap_or_else(|| json!({"property_id": "C15", "tier": tier, "seed": 0, "level": "model_checking", "coverage": {}, "wall_s": 0.0, "violations": 0}));
    let wall = start.elapsed().as_secs_f64();
    ev["coverage"]["schedules_half"] = json!({
        "engine": "E4: preemption-bounded DFS over schedules of the source-swapped minijinja + memo-map (shuttle Mutex/atomics/thread-locals)",
        "configurations": n_cfg,
        "schedules": schedules,
        "distinct_outcomes": outcomes.len(),
        "configurations_capped": n_capped,
        "wall_cap_s": cap_s,
        "exhaustive_within_bounds": n_capped == 0,
        "per_configuration": res,
        "sample_outcomes": outcomes.iter().take(6).collect::<Vec<_>>(),
        "oracle": "every observation (render output, source text) equals what the environment's final contents and the observing render's own context give: one version per loader-backed name for the whole execution, no cross-talk between contexts, failing renders fail with their own error; no deadlock, no panic",
        "wall_s": wall,
    });
    ev["coverage"]["schedules"] = json!(schedules);
    ev["violations"] = json!(ev["violations"].as_i64().unwrap_or(0) + by_key.len() as i64);
    ev["wall_s"] = json!(ev["wall_s"].as_f64().unwrap_or(0.0) + wall);
    std::fs::write(&ev_path, serde_json::to_string_pretty(&ev).unwrap()).unwrap();
    println!("[C15 schedules] tier={} configurations={} schedules={} distinct_outcomes={} capped={} violations={} wall={:.1}s", tier, n_cfg, schedules, outcomes.len(), n_capped, by_key.len(), wall);
    std::process::exit(if by_key.is_empty() { 0 } else { 1 });
}
